"""C01 - proportion-type scores are finite and lie in [0, 1] (range table per task adapter)."""
from mc import core, generic
from mc.tasks import base

PID = "C01"
LEVEL = "model_checking"


def replay(case, acc):
    generic.replay(case, acc, "range")


def run(run):
    run.rule = ("every pair state of each task's small-scope space x every metric function x default + single "
                "(thorough: pairwise) non-default parameter values; oracle = range table keyed by output; "
                "non-trivial = both sides >=2 items and differ")
    run.assumptions = [
        "small-scope hypothesis: range violations (wrong normaliser, missing 0/0 guard) manifest on <=4 items",
        "conditional bounds (beat P-score, Cemgil) use exactly evaluated input-side preconditions; both "
        "branches are counted",
    ]
    for name in base.tasks():
        run.explore("%s pairs" % name, "mc.generic", "shard_range",
                    generic.shard_plan(name, "range", run.tier, run.phase, 64))
    run.require_nonvacuous("empty_side", "identical")
