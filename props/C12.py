"""C12 - interval scores are duration-weighted and blind to how time is cut up.

Spaces (complete enumerations):
  weights   chord.weighted_accuracy on all comparison vectors in {-1,0,1}^n (n<=4, thorough 5) x weight vectors over
            {0,1,2,3.5}^n x scalings {0.5, 3, 1e-3}: closed form (exact rationals), scale invariance, 1 / 0 extremes
  chord     split edges on chord.evaluate: every pair of labelled chord segmentations of the stated bounds, every
            interval of either side cut at every interior half-cell point into two pieces with the same label, or
            with an equivalent respelling on one piece (C / C:maj / B#)
  segment   split edges on the frame-based labelling scores (pairwise, rand, ari, MI, nce, vmeasure), cuts on and
            off the frame grid
  hier      split edges on hierarchy.lmeasure (a segment of one level cut in two equal-label pieces)
"""
import itertools
import warnings
from fractions import Fraction as Fr

import numpy as np

from mc import core, lib

PID = "C12"
LEVEL = "model_checking"

from mir_eval import chord, hierarchy, segment

A = np.array


# ------------------------------------------------------------------------------------------ weighted_accuracy
def check_weights(acc, comp, w, scale):
    case = {"kind": "weights", "comp": list(comp), "w": list(w), "scale": scale}
    site = "chord.weighted_accuracy"
    acc.transitions += 2
    acc.conform += 1
    try:
        with warnings.catch_warnings():
            warnings.simplefilter("ignore")
            v1 = float(chord.weighted_accuracy(A(comp, dtype=float), A(w, dtype=float)))
            v2 = float(chord.weighted_accuracy(A(comp, dtype=float), A(w, dtype=float) * scale))
    except Exception as ex:  # noqa
        acc.violation("weighted-mean", site, case, observed="raised %s: %s" % (type(ex).__name__, ex))
        return
    num = sum(Fr(wi) * Fr(ci) for ci, wi in zip(comp, w) if ci >= 0)
    den = sum(Fr(wi) for ci, wi in zip(comp, w) if ci >= 0)
    if sum(Fr(x) for x in w) == 0 or not any(c >= 0 for c in comp):
        want = 0.0                      # documented: no weights / nothing comparable -> 0
    elif den == 0:
        acc.counters["weights.comparable_weight_zero_skipped"] += 1
        return                          # 0/0: not fixed by the documentation
    else:
        want = float(num / den)
    acc.outcome(round(v1, 9))
    if not lib.close(v1, want, 1e-12):
        acc.violation("weighted-mean", site, case, observed=v1, expected=want)
        return
    if not lib.close(v1, v2, 1e-12):
        acc.violation("scale-invariance", site, case, observed=[v1, v2])


def shard_weights(arg):
    comps, wvals, n = arg
    acc = core.Acc(PID)
    for comp in comps:
        for w in itertools.product(wvals, repeat=n):
            for scale in (0.5, 3.0, 1e-3, 2.0 ** -40, 2.0 ** 40):     # incl. totals far below any absolute epsilon
                acc.states += 1
                acc.tick({"kind": "weights", "comp": list(comp), "w": list(w), "scale": scale})
                comparable = [c for c, x in zip(comp, w) if c >= 0 and x > 0]
                if comparable and all(c == 1 for c in comparable):
                    acc.counters["weights.all_comparable_are_1"] += 1
                if comparable and all(c == 0 for c in comparable):
                    acc.counters["weights.all_comparable_are_0"] += 1
                if -1 in comp and comparable:
                    acc.counters["weights.some_incomparable"] += 1
                    acc.nontrivial += 1
                check_weights(acc, comp, w, scale)
    return acc


# ------------------------------------------------------------------------------------------ annotations
def annotations(ncells, max_seg, labels, unit=1.0, start=0.0):
    out = []
    for comp in lib.compositions(ncells):
        if len(comp) > max_seg:
            continue
        for labs in itertools.product(labels, repeat=len(comp)):
            t = start
            iv = []
            for k in comp:
                iv.append((t, t + k * unit))
                t += k * unit
            out.append((tuple(iv), tuple(labs)))
    return out


def splits(ann, unit, respell=None, other=None, step=2):
    """All annotations obtained by cutting one interval at an interior half-cell point (same label on both
    pieces; optionally an equivalent respelling on the second piece).  With `other` (the opposite annotation) the
    cut points additionally include b - 2^-11 and b + 2^-11 for every boundary b of `other` (a refinement whose new
    boundary almost coincides with a boundary of the other side)."""
    iv, labs = ann
    out = []
    eps = Fr(1, 2048)
    for i, (s, e) in enumerate(iv):
        cands = []
        c = Fr(s) + Fr(unit) / step
        while c < Fr(e):
            cands.append(c)
            c += Fr(unit) / step
        if other is not None:
            for b in sorted(set(Fr(x) for seg in other[0] for x in seg)):
                for c in (b - eps, b + eps):
                    if Fr(s) < c < Fr(e):
                        cands.append(c)
        for c in cands:
            cut = float(c)
            for alt in ([labs[i]] + (respell(labs[i]) if respell else [])):
                niv = iv[:i] + ((s, cut), (cut, e)) + iv[i + 1:]
                nl = labs[:i] + (labs[i], alt) + labs[i + 1:]
                out.append(("cut[%d]@%r%s" % (i, cut, "" if alt == labs[i] else "~" + alt), (niv, nl)))
    return out


RESPELL = {"C": ["C:maj", "B#", "C:maj(1)"], "C:min": ["B#:min", "C:min(b3)"], "G:7": ["G:7(b7)", "F##:7"],
           "N": [], "X": [], "A:min7": ["A:min7(5)"], "Db": ["C#", "Db:maj"]}


def respell(l):
    return RESPELL.get(l, [])


def call_chord(ref, est):
    with warnings.catch_warnings():
        warnings.simplefilter("ignore")
        r = chord.evaluate(A(ref[0], dtype=float), list(ref[1]), A(est[0], dtype=float), list(est[1]))
    return {k: float(v) for k, v in r.items()}


SEG_FNS = ["pairwise", "rand_index", "ari", "mutual_information", "nce", "vmeasure"]


def call_segment(ref, est, frame_size):
    out = {}
    with warnings.catch_warnings():
        warnings.simplefilter("ignore")
        for f in SEG_FNS:
            r = getattr(segment, f)(A(ref[0], dtype=float), list(ref[1]), A(est[0], dtype=float), list(est[1]),
                                    frame_size=frame_size)
            for i, v in enumerate(r if isinstance(r, tuple) else (r,)):
                out["%s[%d]" % (f, i)] = float(v)
    return out


def call_hier(ref, est, frame_size):
    def hh(levels):
        return [A(l[0], dtype=float) for l in levels], [list(l[1]) for l in levels]
    ri, rl = hh(ref)
    ei, el = hh(est)
    with warnings.catch_warnings():
        warnings.simplefilter("ignore")
        r = hierarchy.lmeasure(ri, rl, ei, el, frame_size=frame_size)
    return {"L-Precision": float(r[0]), "L-Recall": float(r[1]), "L-Measure": float(r[2])}


def compare(acc, site, case, g1, g2):
    for k in g1:
        a, b = g1[k], g2[k]
        if a != a and b != b:
            continue
        if not (abs(a - b) <= 1e-12 * max(1.0, abs(a), abs(b))):
            acc.violation("split-invariance", site, case, observed={k: [a, b]}, expected="equal")
            return


def check_split(acc, which, ref, est, side, label, new_ann, frame_size):
    case = {"kind": "split", "which": which, "ref": ref, "est": est, "side": side, "edge": label, "new": new_ann,
            "frame_size": frame_size}
    site = {"chord": "chord.evaluate", "segment": "segment.<frame-based>", "hier": "hierarchy.lmeasure"}[which]
    nref, nest = (new_ann, est) if side == "ref" else (ref, new_ann)
    acc.transitions += 2
    try:
        if which == "chord":
            g1 = call_chord(ref, est)
        elif which == "segment":
            g1 = call_segment(ref, est, frame_size)
        else:
            g1 = call_hier(ref, est, frame_size)
    except Exception:  # noqa
        acc.counters["split.source_state_raises"] += 1
        return
    try:
        if which == "chord":
            g2 = call_chord(nref, nest)
        elif which == "segment":
            g2 = call_segment(nref, nest, frame_size)
        else:
            g2 = call_hier(nref, nest, frame_size)
    except Exception as ex:  # noqa
        acc.violation("split-invariance", site, case, observed="refined input raised %s: %s" % (type(ex).__name__, ex))
        return
    acc.outcome(tuple(round(v, 9) if v == v else "nan" for v in g1.values())[:6])
    compare(acc, site, case, g1, g2)


def shard_split(arg):
    which, refs, ests, unit, frame_sizes = arg
    acc = core.Acc(PID)
    rs = respell if which == "chord" else None
    for ref in refs:
        for est in ests:
            acc.states += 1
            edges = [("ref", l, n) for l, n in splits(ref, unit, rs, est)] + \
                    [("est", l, n) for l, n in splits(est, unit, rs, ref)]
            if edges:
                acc.nontrivial += 1
            for side, label, new_ann in edges:
                for fs in frame_sizes:
                    acc.tick(lambda: {"kind": "split", "which": which, "ref": ref, "est": est, "side": side,
                                      "edge": label, "new": new_ann, "frame_size": fs})
                    acc.counters["split_edges:%s" % which] += 1
                    if "~" in label:
                        acc.counters["split_edges_with_respelled_piece"] += 1
                    if "." in label.split("@")[1][:12] and label.split("@")[1].split("~")[0][-3:] not in (".0", ".5"):
                        acc.counters["split_edges_near_a_boundary_of_the_other_side"] += 1
                    check_split(acc, which, ref, est, side, label, new_ann, fs)
    if refs and ests:
        acc.sample({"kind": "split", "which": which, "ref": refs[-1], "est": ests[-1]})
    return acc


def hier_states(unit, phase):
    """two-level hierarchies over 4 cells: level 0 = one segment, level 1 = labelled segmentation"""
    lv1 = annotations(4, 3, ("a", "b"), unit, 0.0)
    top = (((0.0, 4 * unit),), ("T",))
    return [(top, l) for l in lv1]


def hier_states_offgrid(unit, phase):
    """the same hierarchies with every interior boundary of level 1 moved off the frame grid (+ unit/4 with a frame
    of unit/2; the common span stays [0, 4 unit]): a same-label cut may then leave a piece shorter than a frame, or
    one whose two ends fall into the same frame"""
    out = []
    for top, (iv, labs) in hier_states(unit, phase):
        if len(iv) < 2:
            continue
        end = iv[-1][1]
        mv = lambda t: t if t in (0.0, end) else t + unit / 4.0  # noqa
        out.append((top, (tuple((mv(a), mv(b)) for a, b in iv), labs)))
    return out


def shard_hier(arg):
    refs, ests, unit, fs = arg[:4]
    fine = len(arg) > 4 and arg[4]
    acc = core.Acc(PID)
    for ref in refs:
        for est in ests:
            acc.states += 1
            edges = []
            for side, h, o in (("ref", ref, est), ("est", est, ref)):
                for lvl in (0, 1):
                    # fine: cuts at quarter cells (pieces shorter than the frame) and next to the other side's boundaries
                    for label, new in (splits(h[lvl], unit, other=o[1], step=4) if fine else splits(h[lvl], unit)):
                        nh = h[:lvl] + (new,) + h[lvl + 1:]
                        edges.append((side, "L%d:%s" % (lvl, label), nh))
            if edges:
                acc.nontrivial += 1
            for side, label, nh in edges:
                acc.tick(lambda: {"kind": "split", "which": "hier", "ref": ref, "est": est, "side": side, "edge": label,
                                  "new": nh, "frame_size": fs})
                acc.counters["split_edges:hier"] += 1
                if fine:
                    acc.counters["split_edges:hier_offgrid"] += 1
                check_split(acc, "hier", ref, est, side, label, nh, fs)
    return acc


# ------------------------------------------------------------------------------------------ driver
def _t(x):
    if isinstance(x, list):
        return tuple(_t(v) for v in x)
    return x


def replay(case, acc):
    if case["kind"] == "weights":
        check_weights(acc, tuple(case["comp"]), tuple(case["w"]), case["scale"])
    elif case["kind"] == "split":
        check_split(acc, case["which"], _t(case["ref"]), _t(case["est"]), case["side"], case["edge"], _t(case["new"]),
                    case["frame_size"])
    else:
        raise core.HarnessError("unknown case kind %r" % case["kind"])


def run(run):
    thorough = run.tier == "thorough"
    ph = run.phase
    run.rule = ("weights: all comparison vectors x weight vectors x scalings; split edges: from every pair state, "
                "every cut of one interval at an interior half-cell point (same label, or an equivalent chord "
                "respelling on one piece); non-trivial = the state has at least one split edge / an incomparable entry")
    run.assumptions = [
        "cuts are at half-cell points of a dyadic lattice; frame sizes are dyadic so that no sample moves across a "
        "boundary; scores compared to 1e-12 relative",
        "weighted_accuracy with zero total comparable weight (0/0) is not fixed by the documentation and is skipped",
        "respelling alphabet: C / C:maj / B# / C:maj(1), C:min / B#:min / C:min(b3), G:7 / G:7(b7) / F##:7, A:min7 / "
        "A:min7(5), Db / C# / Db:maj (each pair verified equal under chord.encode at start-up)",
    ]
    for a, alts in RESPELL.items():
        for b in alts:
            ea, eb = chord.encode(a), chord.encode(b)
            if not (ea[0] == eb[0] and (ea[1] == eb[1]).all() and ea[2] == eb[2]):
                raise core.HarnessError("respelling %s ~ %s is not encoding-equivalent" % (a, b))
    n = 5 if thorough else 4
    comps = list(itertools.product((-1, 0, 1), repeat=n))
    run.explore("weighted_accuracy n=%d" % n, __name__, "shard_weights",
                [(ch, (0.0, 1.0, 2.0, 3.5), n) for ch in core.chunks(comps, 64)])
    unit = 1.0
    labels = [("C", "N", "G:7", "C:min"), ("Db", "X", "A:min7", "C"), ("C", "X", "C:min", "G:7"),
              ("N", "Db", "C", "A:min7")][ph % 4]
    origin = 64.0 + float(ph)          # far from 0: a relative closeness test (rtol * t) exceeds the 2^-11 s slivers
    refs = annotations(4, 3, labels if thorough else labels[:3], unit, origin)
    ests = annotations(4, 3 if thorough else 2, labels if thorough else labels[:3], unit, origin)
    run.explore("chord.evaluate split edges", __name__, "shard_split",
                [("chord", ch, ests, unit, [None]) for ch in core.chunks(refs, 64)])
    seg_labels = [("a", "b", "c"), ("x", "Y", "z"), ("b", "a", "A2"), ("s1", "s2", "s3")][ph % 4]
    srefs = annotations(4, 3, seg_labels, 1.0, 0.0)
    sests = annotations(4, 3 if thorough else 2, seg_labels[:2], 1.0, 0.0)
    run.explore("segment labelling split edges", __name__, "shard_split",
                [("segment", ch, sests, 1.0, [0.5, 0.25] if thorough else [0.5]) for ch in core.chunks(srefs, 64)])
    hs = hier_states(1.0, ph)
    run.explore("hierarchy.lmeasure split edges", __name__, "shard_hier",
                [(ch, hs if thorough else hs[::3], 1.0, 0.5) for ch in core.chunks(hs, 32)])
    ho = hier_states_offgrid(1.0, ph)
    run.explore("hierarchy.lmeasure split edges, level-1 boundaries off the frame grid, quarter-cell cuts", __name__,
                "shard_hier", [(ch, ho if thorough else ho[::3], 1.0, 0.5, True) for ch in core.chunks(ho, 32)])
    run.require_nonvacuous("weights.all_comparable_are_1", "weights.all_comparable_are_0", "weights.some_incomparable",
                           "split_edges:chord", "split_edges:segment", "split_edges:hier", "split_edges:hier_offgrid",
                           "split_edges_with_respelled_piece", "split_edges_near_a_boundary_of_the_other_side")
