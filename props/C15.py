"""C15 - evaluation is pure: inputs are never modified, results are repeatable (call histories).

State  = the heap: digest of every object in a shared pool of argument objects + every mutable module-level
         object of mir_eval.* .
Alphabet = call descriptors (public functions of all task modules, util, sonify, separation, 1-4 argument
         shapes each), arguments TAKEN FROM THE SHARED POOL so that a write through an alias stays visible.
Exploration = all histories of depth 1, all ordered pairs (depth 2), and depth 3 over the aliasing-prone subset.
Invariant: the reachable heap set is {initial heap}; each call's result equals - bit for bit, including container
types, dict key order and dtypes - the result of the same call from the initial heap (baseline computed in a fresh
pool).  A second, independent baseline comes from two fresh interpreters running the depth-1 layer in forward and
reversed order (lazily built module state).  Separation calls additionally run under two np.empty poisons.
"""
import collections
import hashlib
import itertools
import json
import os
import struct
import subprocess
import sys
import warnings

import numpy as np

from mc import core

PID = "C15"
LEVEL = "model_checking"

import mir_eval
from mir_eval import (alignment, beat, chord, hierarchy, key, melody, multipitch, onset, pattern, segment,
                      separation, sonify, tempo, transcription, transcription_velocity, util)

MODULES = [alignment, beat, chord, hierarchy, key, melody, multipitch, onset, pattern, segment, separation,
           sonify, tempo, transcription, transcription_velocity, util, mir_eval.io]


# ------------------------------------------------------------------------------------------ digests
def dg(x, h=None, depth=0):
    """Canonical, type-sensitive digest of (nested) values."""
    top = h is None
    if top:
        h = hashlib.sha1()
    t = type(x)
    if depth > 12:
        h.update(b"<deep>")
    elif isinstance(x, np.ndarray):
        h.update(b"A" + x.dtype.str.encode() + repr(x.shape).encode())
        if x.dtype == object:
            for v in x.ravel().tolist():
                dg(v, h, depth + 1)
        else:
            h.update(np.ascontiguousarray(x).tobytes())
    elif isinstance(x, np.generic):
        h.update(b"G" + x.dtype.str.encode() + x.tobytes())
    elif t is float:
        h.update(b"f" + struct.pack(">d", x))
    elif t in (int, bool, str, bytes, type(None), complex):
        h.update(t.__name__.encode() + repr(x).encode())
    elif isinstance(x, dict):
        h.update(b"D" + t.__name__.encode())
        for k, v in x.items():          # insertion order is part of the observable result
            dg(k, h, depth + 1)
            dg(v, h, depth + 1)
    elif isinstance(x, (list, tuple)):
        h.update(b"L" + t.__name__.encode() + str(len(x)).encode())
        for v in x:
            dg(v, h, depth + 1)
    elif isinstance(x, (set, frozenset)):
        h.update(b"S" + t.__name__.encode())
        for v in sorted(x, key=repr):
            dg(v, h, depth + 1)
    else:
        h.update(b"O" + t.__name__.encode() + repr(x).encode())
    if top:
        return h.hexdigest()[:20]


def globals_digest():
    h = hashlib.sha1()
    for m in MODULES:
        for n in sorted(vars(m)):
            if n.startswith("__"):
                continue
            v = vars(m)[n]
            if isinstance(v, (dict, list, set, tuple, np.ndarray, int, float, str, frozenset)):
                h.update(("%s.%s" % (m.__name__, n)).encode())
                dg(v, h, 1)
    return h.hexdigest()[:20]


# ------------------------------------------------------------------------------------------ the pool
def make_pool():
    P = collections.OrderedDict()
    a = lambda *v, **k: np.array(*v, **k)  # noqa
    # events
    P["beats_r"] = a([5.0, 5.5, 6.0, 6.5, 7.0, 7.5])
    P["beats_e"] = a([5.0, 5.5625, 6.0, 6.5, 7.125])
    P["beats_int"] = a([5, 6, 7, 8])                      # integer-typed
    P["beats_view"] = a([0.0, 5.0, 5.5, 6.0, 6.5, 9.0])[1:5]    # a view
    P["onsets_r"] = a([0.0, 0.5, 1.0])
    P["onsets_e"] = a([0.0625, 0.5, 2.0])
    P["empty"] = a([])
    # tempo / key
    P["tempi_r"] = a([60.0, 120.0])
    P["tempi_e"] = a([64.0, 120.0])
    P["kw_tol"] = {"tol": 0.1}
    P["tempi_r0"] = a([80.0, 0.0])                        # single-tempo annotation: the second slot is never written
    P["tempi_e0"] = a([30.0, 200.0])
    # alignment
    P["al_r"] = a([0.5, 1.0, 2.0])
    P["al_e"] = a([0.5, 1.25, 2.5])
    # melody
    P["m_rt"] = a([0.0, 0.25, 0.5, 0.75])
    P["m_rf"] = a([0.0, 220.0, 220.0, 0.0])
    P["m_et"] = a([0.0, 0.25, 0.5, 0.75])
    P["m_ef"] = a([0.0, 220.0, -225.0, 110.0])
    P["m_et2"] = a([0.125, 0.375, 0.625])
    P["m_ef2"] = a([220.0, 0.0, 230.0])
    P["m_ev"] = a([0.5, 1.0, 0.5, 1.0])                   # est_voicing given, frame 0 has zero frequency
    P["m_rr"] = a([1.0, 0.5, 1.0, 1.0])                   # ref_reward given, frames 0,3 have zero frequency
    P["m_ev2"] = a([0.5, 1.0, 0.25])
    P["c_rv"] = a([0.0, 1.0, 1.0, 0.0])
    P["c_rc"] = a([0.0, 5350.0, 5350.0, 0.0])
    P["c_ev"] = a([0.0, 1.0, 1.0, 1.0])
    P["c_ec"] = a([0.0, 5350.0, 5390.0, 4150.0])
    # multipitch
    P["mp_rt"] = a([0.0, 0.25, 0.5])
    P["mp_rf"] = [a([440.0, 660.0]), a([]), a([220.0])]
    P["mp_et"] = a([0.0, 0.25, 0.5])
    P["mp_ef"] = [a([440.0]), a([330.0]), a([440.0, 220.0])]        # a frame listed in descending order
    P["mp_et2"] = a([0.125, 0.375])
    P["mp_ef2"] = [a([440.0]), a([225.0])]
    P["mp_tp"] = a([1.0, 0.0, 1.0])
    P["mp_nr"] = a([2, 0, 1])
    P["mp_ne"] = a([1, 1, 2])
    # notes
    P["n_ri"] = a([[0.0, 0.5], [0.5, 1.0], [1.0, 2.0]])
    P["n_rp"] = a([440.0, 220.0, 330.0])
    P["n_rv"] = a([64.0, 100.0, 30.0])
    P["n_ei"] = a([[0.5, 1.25], [0.04, 0.5], [1.5, 2.0]])            # estimated notes not in onset order
    P["n_ep"] = a([220.0, 442.0, 330.0])
    P["n_ev"] = a([90.0, 60.0, 30.0])
    P["n_match"] = [(0, 1), (1, 0)]
    # segments
    P["s_ri"] = a([[0.0, 1.0], [1.0, 2.5], [2.5, 4.0]])
    P["s_rl"] = ["a", "b", "a"]
    P["s_ei"] = a([[0.0, 1.5], [1.5, 4.0]])
    P["s_el"] = ["x", "Y"]
    P["s_ei2"] = a([[0.5, 2.0], [2.0, 5.0]])              # different span (evaluate adjusts it)
    P["s_el2"] = ["x", "y"]
    P["lab3"] = ["A", "b", "a"]
    P["pts"] = a([0.0, 0.5, 1.0, 3.0])
    P["bnd"] = a([0.0, 1.0, 2.0])
    P["ev4"] = a([1.0, 2.0, 3.0, 4.0])
    P["ev4_l"] = ["e1", "e2", "e3", "e4"]
    # chords
    P["ch_ri"] = a([[0.0, 1.0], [1.0, 2.0], [2.0, 3.0]])
    P["ch_rl"] = ["C:maj", "G:7/3", "N"]
    P["ch_ei"] = a([[0.0, 1.5], [1.5, 3.0]])
    P["ch_el"] = ["C", "G:maj(9)"]
    P["ch_l2r"] = ["C:maj", "A:min7", "X", "D:sus4(b7)", "A:9", "A:11", "G:maj13"]
    P["ch_l2e"] = ["C", "A:min", "G", "D:7", "A:7", "A:7", "G:maj7"]
    P["ch_xi"] = a([[0.0, 1.0], [1.0, 2.0], [2.0, 3.0]])
    P["ch_xl"] = ["G:9", "G:11", "G:7"]
    P["ch_dl"] = ["D:9(*5)", "A:min9(*b3)", "D:9"]         # extended quality + degree list (reduce mode)
    P["cmp"] = a([1.0, 0.0, -1.0, 1.0, 1.0, 0.0, 1.0])
    P["wts"] = a([1.0, 2.0, 1.0, 0.5, 1.0, 1.0, 2.0])
    P["bitmap"] = a([1, 0, 0, 0, 1, 0, 0, 1, 0, 0, 0, 0])
    P["bitmaps"] = a([[1, 0, 0, 0, 1, 0, 0, 1, 0, 0, 0, 0], [1, 0, 0, 1, 0, 0, 0, 1, 0, 0, 0, 0]])
    P["roots"] = a([0, 7])
    P["ext"] = {"9", "*3"}
    # patterns
    o1 = [(0.0, 60.0), (0.5, 62.0), (1.0, 64.0), (1.5, 65.0)]
    o2 = [(4.0, 60.0), (4.5, 62.0), (5.0, 64.0), (5.5, 65.0)]
    o3 = [(0.0, 60.0), (0.5, 62.0), (1.0, 64.0)]
    # non-canonical on purpose (notes of some occurrences listed in descending order): an in-place sort of the
    # caller's lists must be visible in the heap digest
    P["pat_r"] = [[list(o1), list(o2)], [list(reversed(o3))]]
    P["pat_e"] = [[list(reversed(o2))], [list(o3), list(reversed(o1))]]
    o4 = [(20.0, 70.0), (20.5, 71.0), (21.0, 73.0), (21.5, 75.0)]
    o5 = [(30.0, 70.0), (30.5, 71.0), (31.0, 73.0), (31.5, 75.0)]
    P["pat_r2"] = [[list(o1)], [list(o4)]]
    P["pat_e2"] = [[list(o5)], [list(o2)], [list(o3)]]
    P["pat_empty"] = []
    # hierarchy
    P["h_ri"] = [a([[0.0, 4.0]]), a([[0.0, 2.0], [2.0, 4.0]])]
    P["h_rl"] = [["a"], ["b", "c"]]
    P["h_ei"] = [a([[0.0, 4.0]]), a([[0.0, 1.0], [1.0, 4.0]])]
    P["h_el"] = [["a"], ["b", "b"]]
    P["kw_h"] = {"frame_size": 0.5, "window": 2.0}
    # util misc
    P["files1"] = ["/a/b/abc.lab", "/c/d/123.lab"]
    P["files2"] = ["/g/h/123.txt", "/i/abc.npy"]
    P["freqs"] = a([100.0, 440.0, 1000.0])
    P["midi"] = a([60.0, 69.0])
    P["kw_seg"] = {"frame_size": 0.5, "window": 0.5, "beta": 2.0}
    P["kw_beat"] = {"f_measure_threshold": 0.1, "bins": 5, "min_beat_time": 5.0}
    P["kw_mel"] = {"cent_tolerance": 60, "hop": 0.25}
    P["kw_tr"] = {"onset_tolerance": 0.06, "strict": True, "offset_ratio": 0.5}
    P["kw_pat"] = {"n": 1, "thres": 0.5}
    # sonify
    P["gram"] = a([[1.0, 0.0, 0.5], [0.0, 1.0, 0.5]])
    P["gfreqs"] = a([220.0, 440.0])
    P["gtimes"] = a([0.0, 0.01, 0.02])
    P["chroma_gram"] = np.tile(a([1.0, 0, 0, 0, 0.5, 0, 0, 0.5, 0, 0, 0, 0]).reshape(12, 1), (1, 3))
    P["click"] = a([1.0, -1.0, 0.5])
    P["pc_t"] = a([0.0, 0.01, 0.02, 0.03])
    P["pc_f"] = a([220.0, 0.0, -230.0, 440.0])
    P["pc_a"] = a([1.0, 0.5, 0.5, 1.0])
    P["pc_fn"] = a([220.0, np.nan, 230.0, np.inf])          # float64 with NaN / inf (nan_to_num territory)
    P["sch_l"] = ["C:maj", "N", "A:min"]
    P["sch_i"] = a([[0.0, 0.01], [0.01, 0.02], [0.02, 0.03]])
    # separation (deterministic small signals; the heavy cases are listed separately)
    n = 2304            # >= 2 * nsrc * 512 samples
    t = np.arange(n) / 8000.0
    lcg = np.empty(n)
    s = 12345
    for i in range(n):
        s = (1103515245 * s + 12345) % (2 ** 31)
        lcg[i] = s / float(2 ** 31) - 0.5
    P["sep_r"] = np.vstack([np.sin(2 * np.pi * 440 * t) + 0.3 * np.sin(2 * np.pi * 731 * t), lcg])
    P["sep_e"] = np.vstack([0.9 * P["sep_r"][0] + 0.1 * P["sep_r"][1], 0.8 * P["sep_r"][1] + 0.05 * P["sep_r"][0]])
    P["sep_ri"] = np.stack([P["sep_r"].T * 1.0, P["sep_r"].T[::-1] * 0.5], axis=2).transpose(1, 0, 2)[:, :, :2]
    P["sep_ei"] = P["sep_ri"] * 0.9 + 0.05 * P["sep_ri"][::-1]
    P["sep_rz"] = np.vstack([P["sep_r"][0], np.concatenate([np.zeros(1152), lcg[1152:]])])   # silent first window
    return P


# ------------------------------------------------------------------------------------------ descriptors
def descriptors():
    D = collections.OrderedDict()

    def d(name, fn, uses, risky=False, heavy=False):
        D[name] = {"fn": fn, "uses": uses, "risky": risky, "heavy": heavy}

    E = "evaluate"
    # beat
    for f in ("f_measure", "cemgil", "goto", "p_score", "continuity", "information_gain", "validate"):
        d("beat.%s" % f, (lambda P, f=f: getattr(beat, f)(P["beats_r"], P["beats_e"])), ["beats_r", "beats_e"])
    d("beat.trim_beats", lambda P: beat.trim_beats(P["beats_view"]), ["beats_view"])
    d("beat.evaluate", lambda P: beat.evaluate(P["beats_r"], P["beats_e"]), ["beats_r", "beats_e"])
    d("beat.evaluate[kw]", lambda P: beat.evaluate(P["beats_int"], P["beats_view"], **P["kw_beat"]),
      ["beats_int", "beats_view", "kw_beat"], risky=True)
    d("beat.evaluate[empty]", lambda P: beat.evaluate(P["empty"], P["beats_e"]), ["empty", "beats_e"])
    # onset
    d("onset.f_measure", lambda P: onset.f_measure(P["onsets_r"], P["onsets_e"]), ["onsets_r", "onsets_e"])
    d("onset.validate", lambda P: onset.validate(P["onsets_r"], P["onsets_e"]), ["onsets_r", "onsets_e"])
    d("onset.evaluate", lambda P: onset.evaluate(P["onsets_r"], P["onsets_e"], window=0.1), ["onsets_r", "onsets_e"])
    # tempo
    d("tempo.detection", lambda P: tempo.detection(P["tempi_r"], 0.25, P["tempi_e"]), ["tempi_r", "tempi_e"])
    d("tempo.detection[zero-ref]", lambda P: tempo.detection(P["tempi_r0"], 0.25, P["tempi_e0"]),
      ["tempi_r0", "tempi_e0"], risky=True)
    d("tempo.validate", lambda P: tempo.validate(P["tempi_r"], 0.25, P["tempi_e"]), ["tempi_r", "tempi_e"])
    d("tempo.validate_tempi", lambda P: tempo.validate_tempi(P["tempi_r"]), ["tempi_r"])
    d("tempo.evaluate", lambda P: tempo.evaluate(P["tempi_r"], 0.25, P["tempi_e"], **P["kw_tol"]),
      ["tempi_r", "tempi_e", "kw_tol"], risky=True)
    # key
    d("key.weighted_score", lambda P: key.weighted_score("C# major", "db minor"), [])
    d("key.validate_key", lambda P: key.validate_key("F other"), [])
    d("key.split_key_string", lambda P: key.split_key_string("Bb Minor"), [])
    d("key.validate", lambda P: key.validate("X", "a minor"), [])
    d("key.evaluate", lambda P: key.evaluate("G major", "E minor"), [])
    # alignment
    for f in ("absolute_error", "percentage_correct", "percentage_correct_segments", "karaoke_perceptual_metric",
              "validate", E):
        d("alignment.%s" % f, (lambda P, f=f: getattr(alignment, f)(P["al_r"], P["al_e"])), ["al_r", "al_e"])
    d("alignment.percentage_correct_segments[dur]",
      lambda P: alignment.percentage_correct_segments(P["al_r"], P["al_e"], duration=3.0), ["al_r", "al_e"])
    # melody
    d("melody.hz2cents", lambda P: melody.hz2cents(P["m_ef"]), ["m_ef"])
    d("melody.freq_to_voicing", lambda P: melody.freq_to_voicing(P["m_ef"]), ["m_ef"])
    d("melody.freq_to_voicing[v]", lambda P: melody.freq_to_voicing(P["m_ef"], P["m_ev"]), ["m_ef", "m_ev"], risky=True)
    d("melody.constant_hop_timebase", lambda P: melody.constant_hop_timebase(0.25, 1.0), [])
    d("melody.resample_melody_series",
      lambda P: melody.resample_melody_series(P["m_rt"], P["m_ef"], P["m_ev"], P["m_et2"]),
      ["m_rt", "m_ef", "m_ev", "m_et2"], risky=True)
    d("melody.to_cent_voicing", lambda P: melody.to_cent_voicing(P["m_rt"], P["m_rf"], P["m_et"], P["m_ef"]),
      ["m_rt", "m_rf", "m_et", "m_ef"])
    d("melody.to_cent_voicing[v,r]",
      lambda P: melody.to_cent_voicing(P["m_rt"], P["m_rf"], P["m_et"], P["m_ef"], est_voicing=P["m_ev"],
                                       ref_reward=P["m_rr"]), ["m_rt", "m_rf", "m_et", "m_ef", "m_ev", "m_rr"],
      risky=True)
    d("melody.to_cent_voicing[resample,v]",
      lambda P: melody.to_cent_voicing(P["m_rt"], P["m_rf"], P["m_et2"], P["m_ef2"], est_voicing=P["m_ev2"]),
      ["m_rt", "m_rf", "m_et2", "m_ef2", "m_ev2"], risky=True)
    d("melody.to_cent_voicing[hop]",
      lambda P: melody.to_cent_voicing(P["m_rt"], P["m_rf"], P["m_et2"], P["m_ef2"], hop=0.125),
      ["m_rt", "m_rf", "m_et2", "m_ef2"])
    for f in ("validate", "raw_pitch_accuracy", "raw_chroma_accuracy", "overall_accuracy"):
        d("melody.%s" % f, (lambda P, f=f: getattr(melody, f)(P["c_rv"], P["c_rc"], P["c_ev"], P["c_ec"])),
          ["c_rv", "c_rc", "c_ev", "c_ec"])
    for f in ("validate_voicing", "voicing_recall", "voicing_false_alarm", "voicing_measures"):
        d("melody.%s" % f, (lambda P, f=f: getattr(melody, f)(P["c_rv"], P["c_ev"])), ["c_rv", "c_ev"])
    d("melody.evaluate", lambda P: melody.evaluate(P["m_rt"], P["m_rf"], P["m_et"], P["m_ef"]),
      ["m_rt", "m_rf", "m_et", "m_ef"])
    d("melody.evaluate[v,r,kw]",
      lambda P: melody.evaluate(P["m_rt"], P["m_rf"], P["m_et"], P["m_ef"], est_voicing=P["m_ev"],
                                ref_reward=P["m_rr"], **P["kw_mel"]),
      ["m_rt", "m_rf", "m_et", "m_ef", "m_ev", "m_rr", "kw_mel"], risky=True)
    # multipitch
    d("multipitch.validate", lambda P: multipitch.validate(P["mp_rt"], P["mp_rf"], P["mp_et"], P["mp_ef"]),
      ["mp_rt", "mp_rf", "mp_et", "mp_ef"])
    d("multipitch.resample_multipitch", lambda P: multipitch.resample_multipitch(P["mp_et2"], P["mp_ef2"], P["mp_rt"]),
      ["mp_et2", "mp_ef2", "mp_rt"], risky=True)
    d("multipitch.frequencies_to_midi", lambda P: multipitch.frequencies_to_midi(P["mp_rf"]), ["mp_rf"])
    d("multipitch.midi_to_chroma", lambda P: multipitch.midi_to_chroma(multipitch.frequencies_to_midi(P["mp_rf"])),
      ["mp_rf"])
    d("multipitch.compute_num_freqs", lambda P: multipitch.compute_num_freqs(P["mp_rf"]), ["mp_rf"])
    d("multipitch.compute_num_true_positives",
      lambda P: multipitch.compute_num_true_positives(multipitch.frequencies_to_midi(P["mp_rf"]),
                                                      multipitch.frequencies_to_midi(P["mp_ef"])),
      ["mp_rf", "mp_ef"])
    d("multipitch.compute_accuracy", lambda P: multipitch.compute_accuracy(P["mp_tp"], P["mp_nr"], P["mp_ne"]),
      ["mp_tp", "mp_nr", "mp_ne"])
    d("multipitch.compute_err_score", lambda P: multipitch.compute_err_score(P["mp_tp"], P["mp_nr"], P["mp_ne"]),
      ["mp_tp", "mp_nr", "mp_ne"])
    d("multipitch.metrics", lambda P: multipitch.metrics(P["mp_rt"], P["mp_rf"], P["mp_et"], P["mp_ef"]),
      ["mp_rt", "mp_rf", "mp_et", "mp_ef"])
    d("multipitch.evaluate[resample]", lambda P: multipitch.evaluate(P["mp_rt"], P["mp_rf"], P["mp_et2"], P["mp_ef2"]),
      ["mp_rt", "mp_rf", "mp_et2", "mp_ef2"], risky=True)
    # transcription
    d("transcription.validate", lambda P: transcription.validate(P["n_ri"], P["n_rp"], P["n_ei"], P["n_ep"]),
      ["n_ri", "n_rp", "n_ei", "n_ep"])
    d("transcription.validate_intervals", lambda P: transcription.validate_intervals(P["n_ri"], P["n_ei"]),
      ["n_ri", "n_ei"])
    for f in ("match_note_offsets", "match_note_onsets", "onset_precision_recall_f1", "offset_precision_recall_f1"):
        d("transcription.%s" % f, (lambda P, f=f: getattr(transcription, f)(P["n_ri"], P["n_ei"])), ["n_ri", "n_ei"])
    for f in ("match_notes", "precision_recall_f1_overlap", E):
        d("transcription.%s" % f,
          (lambda P, f=f: getattr(transcription, f)(P["n_ri"], P["n_rp"], P["n_ei"], P["n_ep"])),
          ["n_ri", "n_rp", "n_ei", "n_ep"])
    d("transcription.evaluate[kw]",
      lambda P: transcription.evaluate(P["n_ri"], P["n_rp"], P["n_ei"], P["n_ep"], **P["kw_tr"]),
      ["n_ri", "n_rp", "n_ei", "n_ep", "kw_tr"], risky=True)
    d("transcription.average_overlap_ratio",
      lambda P: transcription.average_overlap_ratio(P["n_ri"], P["n_ei"], P["n_match"]), ["n_ri", "n_ei", "n_match"])
    for f in ("validate", "match_notes", "precision_recall_f1_overlap", E):
        d("transcription_velocity.%s" % f,
          (lambda P, f=f: getattr(transcription_velocity, f)(P["n_ri"], P["n_rp"], P["n_rv"], P["n_ei"], P["n_ep"],
                                                              P["n_ev"])),
          ["n_ri", "n_rp", "n_rv", "n_ei", "n_ep", "n_ev"], risky=(f == "match_notes"))
    # segment
    d("segment.validate_boundary", lambda P: segment.validate_boundary(P["s_ri"], P["s_ei"], False), ["s_ri", "s_ei"])
    d("segment.validate_structure", lambda P: segment.validate_structure(P["s_ri"], P["s_rl"], P["s_ei"], P["s_el"]),
      ["s_ri", "s_rl", "s_ei", "s_el"])
    d("segment.detection", lambda P: segment.detection(P["s_ri"], P["s_ei"]), ["s_ri", "s_ei"])
    d("segment.detection[trim]", lambda P: segment.detection(P["s_ri"], P["s_ei"], window=3.0, trim=True),
      ["s_ri", "s_ei"])
    d("segment.deviation", lambda P: segment.deviation(P["s_ri"], P["s_ei"]), ["s_ri", "s_ei"])
    for f in ("pairwise", "rand_index", "ari", "mutual_information", "nce", "vmeasure"):
        d("segment.%s" % f,
          (lambda P, f=f: getattr(segment, f)(P["s_ri"], P["s_rl"], P["s_ei"], P["s_el"], frame_size=0.5)),
          ["s_ri", "s_rl", "s_ei", "s_el"])
    d("segment.evaluate", lambda P: segment.evaluate(P["s_ri"], P["s_rl"], P["s_ei"], P["s_el"]),
      ["s_ri", "s_rl", "s_ei", "s_el"], risky=True)
    d("segment.evaluate[adjust,kw]", lambda P: segment.evaluate(P["s_ri"], P["s_rl"], P["s_ei2"], P["s_el2"], **P["kw_seg"]),
      ["s_ri", "s_rl", "s_ei2", "s_el2", "kw_seg"], risky=True)
    # chord
    d("chord.pitch_class_to_semitone", lambda P: chord.pitch_class_to_semitone("Gbb"), [])
    d("chord.scale_degree_to_semitone", lambda P: chord.scale_degree_to_semitone("b7"), [])
    d("chord.scale_degree_to_bitmap", lambda P: chord.scale_degree_to_bitmap("*3"), [])
    d("chord.quality_to_bitmap", lambda P: chord.quality_to_bitmap("min7"), [], risky=True)
    d("chord.reduce_extended_quality", lambda P: chord.reduce_extended_quality("maj9"), [], risky=True)
    d("chord.validate_chord_label", lambda P: chord.validate_chord_label("A:min7(*5,9)/b3"), [])
    d("chord.split", lambda P: chord.split("D:13(*3)/5"), [])
    d("chord.split[reduce]", lambda P: chord.split("D:min11/b3", reduce_extended_chords=True), [], risky=True)
    d("chord.join", lambda P: chord.join("F#", "min", P["ext"], "b3"), ["ext"], risky=True)
    d("chord.encode", lambda P: chord.encode("G:7(#9)/3"), [])
    d("chord.encode[reduce]", lambda P: chord.encode("G:maj13", reduce_extended_chords=True), [], risky=True)
    d("chord.encode[N]", lambda P: chord.encode("N"), [], risky=True)
    d("chord.encode_many", lambda P: chord.encode_many(P["ch_l2r"]), ["ch_l2r"])
    d("chord.rotate_bitmap_to_root", lambda P: chord.rotate_bitmap_to_root(P["bitmap"], 7), ["bitmap"])
    d("chord.rotate_bitmaps_to_roots", lambda P: chord.rotate_bitmaps_to_roots(P["bitmaps"], P["roots"]),
      ["bitmaps", "roots"])
    d("chord.validate", lambda P: chord.validate(P["ch_l2r"], P["ch_l2e"]), ["ch_l2r", "ch_l2e"])
    d("chord.weighted_accuracy", lambda P: chord.weighted_accuracy(P["cmp"], P["wts"]), ["cmp", "wts"], risky=True)
    for f in ("thirds", "thirds_inv", "triads", "triads_inv", "tetrads", "tetrads_inv", "root", "mirex", "majmin",
              "majmin_inv", "sevenths", "sevenths_inv"):
        d("chord.%s" % f, (lambda P, f=f: getattr(chord, f)(P["ch_l2r"], P["ch_l2e"])), ["ch_l2r", "ch_l2e"])
    for f in ("directional_hamming_distance", "overseg", "underseg", "seg"):
        d("chord.%s" % f, (lambda P, f=f: getattr(chord, f)(P["ch_ri"], P["ch_ei"])), ["ch_ri", "ch_ei"])
    d("chord.merge_chord_intervals", lambda P: chord.merge_chord_intervals(P["ch_ri"], P["ch_rl"]), ["ch_ri", "ch_rl"])
    d("chord.merge_chord_intervals[ext]", lambda P: chord.merge_chord_intervals(P["ch_xi"], P["ch_xl"]),
      ["ch_xi", "ch_xl"], risky=True)
    d("chord.tetrads[ext]", lambda P: chord.tetrads(P["ch_xl"], ["G:7", "G:7", "G:9"]), ["ch_xl"], risky=True)
    d("chord.evaluate[ext]", lambda P: chord.evaluate(P["ch_xi"], P["ch_xl"], P["ch_ei"], P["ch_el"]),
      ["ch_xi", "ch_xl", "ch_ei", "ch_el"], risky=True)
    d("chord.split[reduce,degrees]", lambda P: chord.split("D:9(*5)", reduce_extended_chords=True), [], risky=True)
    d("chord.merge_chord_intervals[ext,degrees]", lambda P: chord.merge_chord_intervals(P["ch_xi"], P["ch_dl"]),
      ["ch_xi", "ch_dl"], risky=True)
    d("chord.evaluate[ext,degrees]", lambda P: chord.evaluate(P["ch_xi"], P["ch_dl"], P["ch_ei"], P["ch_el"]),
      ["ch_xi", "ch_dl", "ch_ei", "ch_el"], risky=True)
    d("chord.encode_many[reduce]", lambda P: chord.encode_many(P["ch_xl"], True), ["ch_xl"], risky=True)
    d("chord.evaluate", lambda P: chord.evaluate(P["ch_ri"], P["ch_rl"], P["ch_ei"], P["ch_el"]),
      ["ch_ri", "ch_rl", "ch_ei", "ch_el"], risky=True)
    d("chord.evaluate[adjust]", lambda P: chord.evaluate(P["ch_ri"], P["ch_rl"], P["s_ei2"], P["ch_el"]),
      ["ch_ri", "ch_rl", "s_ei2", "ch_el"], risky=True)
    # pattern
    for f in ("validate", "standard_FPR", "establishment_FPR", "occurrence_FPR", "three_layer_FPR",
              "first_n_three_layer_P", "first_n_target_proportion_R", E):
        d("pattern.%s" % f, (lambda P, f=f: getattr(pattern, f)(P["pat_r"], P["pat_e"])), ["pat_r", "pat_e"])
    for f in ("occurrence_FPR", "establishment_FPR", "three_layer_FPR", E):
        d("pattern.%s[2x3]" % f, (lambda P, f=f: getattr(pattern, f)(P["pat_r2"], P["pat_e2"])), ["pat_r2", "pat_e2"],
          risky=(f == "occurrence_FPR"))
    d("pattern.evaluate[kw]", lambda P: pattern.evaluate(P["pat_r"], P["pat_e"], **P["kw_pat"]),
      ["pat_r", "pat_e", "kw_pat"], risky=True)
    # hierarchy
    d("hierarchy.validate_hier_intervals", lambda P: hierarchy.validate_hier_intervals(P["h_ri"]), ["h_ri"])
    d("hierarchy.tmeasure", lambda P: hierarchy.tmeasure(P["h_ri"], P["h_ei"], frame_size=0.5, window=2.0),
      ["h_ri", "h_ei"])
    d("hierarchy.lmeasure", lambda P: hierarchy.lmeasure(P["h_ri"], P["h_rl"], P["h_ei"], P["h_el"], frame_size=0.5),
      ["h_ri", "h_rl", "h_ei", "h_el"])
    d("hierarchy.evaluate", lambda P: hierarchy.evaluate(P["h_ri"], P["h_rl"], P["h_ei"], P["h_el"], **P["kw_h"]),
      ["h_ri", "h_rl", "h_ei", "h_el", "kw_h"], risky=True)
    # util
    d("util.index_labels", lambda P: util.index_labels(P["lab3"]), ["lab3"])
    d("util.generate_labels", lambda P: util.generate_labels(P["s_ri"]), ["s_ri"])
    d("util.intervals_to_samples", lambda P: util.intervals_to_samples(P["s_ri"], P["s_rl"], sample_size=0.5),
      ["s_ri", "s_rl"])
    d("util.interpolate_intervals", lambda P: util.interpolate_intervals(P["s_ri"], P["s_rl"], P["pts"]),
      ["s_ri", "s_rl", "pts"])
    d("util.sort_labeled_intervals", lambda P: util.sort_labeled_intervals(P["s_ei2"][::-1], P["s_el2"]),
      ["s_ei2", "s_el2"])
    d("util.f_measure", lambda P: util.f_measure(0.5, 0.25, beta=2.0), [])
    d("util.intervals_to_boundaries", lambda P: util.intervals_to_boundaries(P["s_ri"]), ["s_ri"])
    d("util.boundaries_to_intervals", lambda P: util.boundaries_to_intervals(P["bnd"]), ["bnd"])
    d("util.adjust_intervals", lambda P: util.adjust_intervals(P["s_ri"], P["s_rl"], t_min=0.5, t_max=5.0),
      ["s_ri", "s_rl"], risky=True)
    d("util.adjust_intervals[t_min=None]", lambda P: util.adjust_intervals(P["s_ri"], P["s_rl"], t_min=None, t_max=6.0),
      ["s_ri", "s_rl"], risky=True)
    d("util.adjust_intervals[pad-start]", lambda P: util.adjust_intervals(P["s_ei2"], P["s_el2"], t_min=0.0, t_max=None),
      ["s_ei2", "s_el2"], risky=True)
    d("util.adjust_intervals[t_min=None,clip]", lambda P: util.adjust_intervals(P["s_ri"], P["s_rl"], t_min=None, t_max=3.0),
      ["s_ri", "s_rl"], risky=True)
    d("util.adjust_intervals[clip-both]", lambda P: util.adjust_intervals(P["s_ri"], P["s_rl"], t_min=0.5, t_max=3.0),
      ["s_ri", "s_rl"], risky=True)
    d("util.adjust_events[t_min=None]", lambda P: util.adjust_events(P["ev4"], P["ev4_l"], t_min=None, t_max=6.0),
      ["ev4", "ev4_l"], risky=True)
    d("util.adjust_intervals[nolabels]", lambda P: util.adjust_intervals(P["s_ei2"], None, t_min=0.0, t_max=7.0),
      ["s_ei2"])
    d("util.adjust_events", lambda P: util.adjust_events(P["ev4"], P["ev4_l"], t_min=0.0, t_max=5.0),
      ["ev4", "ev4_l"], risky=True)
    d("util.adjust_events[crop]", lambda P: util.adjust_events(P["ev4"], P["ev4_l"], t_min=1.5, t_max=3.5),
      ["ev4", "ev4_l"], risky=True)
    d("util.intersect_files", lambda P: util.intersect_files(P["files1"], P["files2"]), ["files1", "files2"])
    d("util.merge_labeled_intervals",
      lambda P: util.merge_labeled_intervals(P["s_ri"], P["s_rl"], P["s_ei"], P["s_el"]),
      ["s_ri", "s_rl", "s_ei", "s_el"])
    d("util.match_events", lambda P: util.match_events(P["onsets_r"], P["onsets_e"], 0.1), ["onsets_r", "onsets_e"])
    d("util.validate_intervals", lambda P: util.validate_intervals(P["s_ri"]), ["s_ri"])
    d("util.validate_events", lambda P: util.validate_events(P["beats_r"]), ["beats_r"])
    d("util.validate_frequencies", lambda P: util.validate_frequencies(P["pc_f"], 5000.0, 20.0, allow_negatives=True)
      if False else util.validate_frequencies(P["freqs"], 5000.0, 20.0), ["freqs"])
    d("util.filter_kwargs", lambda P: util.filter_kwargs(onset.f_measure, P["onsets_r"], P["onsets_e"], **P["kw_seg"]),
      ["onsets_r", "onsets_e", "kw_seg"], risky=True)
    d("util.intervals_to_durations", lambda P: util.intervals_to_durations(P["s_ri"]), ["s_ri"])
    d("util.hz_to_midi", lambda P: util.hz_to_midi(P["freqs"]), ["freqs"])
    d("util.midi_to_hz", lambda P: util.midi_to_hz(P["midi"]), ["midi"])
    # sonify
    d("sonify.clicks", lambda P: sonify.clicks(P["gtimes"], 8000, length=400), ["gtimes"])
    d("sonify.clicks[click]", lambda P: sonify.clicks(P["gtimes"], 8000, click=P["click"], length=300),
      ["gtimes", "click"], risky=True)
    d("sonify.time_frequency", lambda P: sonify.time_frequency(P["gram"], P["gfreqs"], P["gtimes"], 8000, length=400),
      ["gram", "gfreqs", "gtimes"], risky=True)
    d("sonify.pitch_contour", lambda P: sonify.pitch_contour(P["pc_t"], P["pc_f"], 8000, amplitudes=P["pc_a"], length=400),
      ["pc_t", "pc_f", "pc_a"], risky=True)
    d("sonify.pitch_contour[nan]", lambda P: sonify.pitch_contour(P["pc_t"], P["pc_fn"], 8000, length=400),
      ["pc_t", "pc_fn"], risky=True)
    d("sonify.chroma", lambda P: sonify.chroma(P["chroma_gram"], P["gtimes"], 8000, length=300),
      ["chroma_gram", "gtimes"], heavy=True)
    d("sonify.chords", lambda P: sonify.chords(P["sch_l"], P["sch_i"], 8000, length=300), ["sch_l", "sch_i"],
      heavy=True)
    # separation
    d("separation.validate", lambda P: separation.validate(P["sep_r"], P["sep_e"]), ["sep_r", "sep_e"])
    d("separation.bss_eval_sources", lambda P: separation.bss_eval_sources(P["sep_r"], P["sep_e"]),
      ["sep_r", "sep_e"], heavy=True)
    d("separation.bss_eval_sources_framewise",
      lambda P: separation.bss_eval_sources_framewise(P["sep_rz"], P["sep_e"], window=1152, hop=1152),
      ["sep_rz", "sep_e"], heavy=True)
    d("separation.bss_eval_images", lambda P: separation.bss_eval_images(P["sep_ri"], P["sep_ei"]),
      ["sep_ri", "sep_ei"], heavy=True)
    d("separation.evaluate", lambda P: separation.evaluate(P["sep_r"], P["sep_e"]), ["sep_r", "sep_e"], heavy=True)
    return D


_DESC = None


def desc():
    global _DESC
    if _DESC is None:
        _DESC = descriptors()
    return _DESC


def do_call(name, P):
    """Execute one descriptor; returns the digest of (result | exception type)."""
    with warnings.catch_warnings():
        warnings.simplefilter("ignore")
        try:
            r = desc()[name]["fn"](P)
            return "ok:" + dg(r)
        except Exception as ex:  # noqa
            return "raised:%s" % type(ex).__name__


def heap(P, names=None):
    """digest of the argument objects (the part of the heap the property forbids to change)"""
    return dg([(n, P[n]) for n in (names if names is not None else P)])


_BASE = {}
_G0 = [None]


def _snapshot_globals():
    import copy
    snap = {}
    for m in MODULES:
        for n, v in vars(m).items():
            if not n.startswith("__") and isinstance(v, (dict, list, set, np.ndarray)):
                snap[(m, n)] = copy.deepcopy(v)
    return snap


def _restore_globals(snap):
    import copy
    for (m, n), v in snap.items():
        cur = getattr(m, n, None)
        if isinstance(cur, dict):
            cur.clear()
            cur.update(copy.deepcopy(v))
        elif isinstance(cur, list):
            cur[:] = copy.deepcopy(v)
        elif isinstance(cur, set):
            cur.clear()
            cur.update(copy.deepcopy(v))
        elif isinstance(cur, np.ndarray) and cur.shape == v.shape:
            cur[...] = v
    for m in MODULES:
        for n in [n for n, v in vars(m).items() if not n.startswith("__")
                  and isinstance(v, (dict, list, set)) and (m, n) not in snap]:
            delattr(m, n)            # a module-level container that did not exist initially


_SNAP = [None]


def baseline(name):
    """Result of the call from the INITIAL heap: fresh pool, and module-level state restored to what it was before
    any descriptor ran (otherwise a cache filled by an earlier baseline would silently become the reference)."""
    if name not in _BASE:
        _ensure_initial_state()
        _BASE[name] = do_call(name, make_pool())
    return _BASE[name]


def _ensure_initial_state():
    core.snapshot_library_state()
    core.reset_mutable_defaults()        # state hidden in mutable default arguments is not in the globals digest
    if _SNAP[0] is None:
        if _BASE:
            raise core.HarnessError("module state snapshot requested after calls were made")
        _SNAP[0] = _snapshot_globals()
        _G0[0] = globals_digest()
    elif globals_digest() != _G0[0]:
        _restore_globals(_SNAP[0])


# ------------------------------------------------------------------------------------------ histories
def check_history(acc, hist):
    """Run the history on one shared pool; invariant after every step."""
    _ensure_initial_state()               # every history starts from the initial module state
    P = make_pool()
    h0 = heap(P)
    for i, name in enumerate(hist):
        acc.transitions += 1
        r = do_call(name, P)
        uses = desc()[name]["uses"]
        # a call can only write what it can reach: its arguments and module globals -> digest those after every
        # step, and the whole heap at the end of the history
        h_args = heap(P, uses)
        if i == len(hist) - 1:
            full = heap(P)
        case = {"kind": "history", "hist": list(hist), "step": i}
        if r != baseline(name):
            acc.violation("repeatable", name, case, observed=r, expected=baseline(name),
                          note="result of step %d differs from the same call on the initial heap" % i)
            return
        if h_args != heap(make_pool(), uses):
            changed = [n for n in uses if dg(P[n]) != dg(make_pool()[n])]
            acc.violation("inputs-unmodified", name, case, observed={"changed_pool_objects": changed})
            return
        g = globals_digest()
        if g != _G0[0]:
            # module-level state moved (e.g. a cache was filled): allowed as long as no result ever changes;
            # it is a NEW STATE of the exploration: every later step of this history runs from it and is still
            # compared with the initial-heap baseline.  Counted; restored before the next history.
            acc.counters["module_state_changed_by:%s" % name] += 1
    if full != h0:
        acc.violation("inputs-unmodified", hist[-1], {"kind": "history", "hist": list(hist), "step": len(hist) - 1},
                      observed="heap digest changed outside the call's arguments")
    acc.outcome(tuple(baseline(n) for n in hist[-1:]))


def shard_hist(arg):
    hists = arg
    acc = core.Acc(PID)
    for hist in hists:
        acc.states += 1
        acc.tick({"kind": "history", "hist": list(hist), "step": 0})
        if len(hist) >= 2:
            acc.nontrivial += 1
        if len(hist) >= 2 and set(desc()[hist[0]]["uses"]) & set(desc()[hist[-1]]["uses"]):
            acc.counters["histories_sharing_an_argument_object"] += 1
        check_history(acc, hist)
    if hists:
        acc.sample({"kind": "history", "hist": list(hists[len(hists) // 2])})
    return acc


# ------------------------------------------------------------------------------------------ caller-side edits
# A caller may legitimately edit its own data between two calls.  For every descriptor d that uses an editable pool
# object X:   [fresh pool; d; edit X in place; d]  must give the same second result as  [fresh pool; edit X; d]
# (a memo keyed by object identity, a cached view, a stale pre-computed table would make them differ).
def _edit_pat(x):
    x[0][0][1] = (x[0][0][1][0], x[0][0][1][1] + 7.0)


def _edit_list0(x):
    x[0] = x[-1]


def _edit_arr(x):
    x[-1] = x[-1] * 1.25 + 0.125


def _edit_frames(x):
    if len(x[0]):
        x[0][0] = x[0][0] * 2.0


EDITS = {"pat_r": _edit_pat, "pat_r2": _edit_pat, "pat_e": _edit_pat, "s_rl": _edit_list0, "s_el": _edit_list0,
         "ch_rl": _edit_list0, "ch_xl": _edit_list0, "h_rl": (lambda x: _edit_list0(x[1])), "beats_e": _edit_arr,
         "onsets_e": _edit_arr, "m_ef": _edit_arr, "n_ep": _edit_arr, "n_ev": _edit_arr, "mp_ef": _edit_frames,
         "al_e": _edit_arr, "tempi_e": _edit_arr, "lab3": _edit_list0, "sch_l": _edit_list0}


def check_edit(acc, name, obj):
    _ensure_initial_state()
    P1 = make_pool()
    EDITS[obj](P1[obj])
    acc.transitions += 1
    want = do_call(name, P1)
    _ensure_initial_state()
    P2 = make_pool()
    acc.transitions += 2
    do_call(name, P2)
    EDITS[obj](P2[obj])
    got = do_call(name, P2)
    if heap(P1) != heap(P2):
        acc.violation("inputs-unmodified", name, {"kind": "edit", "name": name, "obj": obj},
                      observed="pools differ after the same edit")
        return
    acc.counters["edit_histories"] += 1
    if want != baseline(name):
        acc.counters["edit_changes_the_result"] += 1
    if got != want:
        acc.violation("repeatable", name, {"kind": "edit", "name": name, "obj": obj},
                      observed={"call_edit_call": got, "edit_call": want},
                      note="second call after the caller edited %s in place differs from a first call on the edited "
                           "data" % obj)


def shard_edit(arg):
    acc = core.Acc(PID)
    for name, obj in arg:
        acc.states += 1
        acc.nontrivial += 1
        acc.tick({"kind": "edit", "name": name, "obj": obj})
        check_edit(acc, name, obj)
    return acc


# ------------------------------------------------------------------------------------------ poison seam
def check_poison(acc, name):
    """the environment's answer to every np.empty / np.empty_like inside mir_eval is enumerated over two poison
    fills (all task modules at once); results must be identical to each other and to the unpoisoned baseline"""
    import contextlib
    from mc import env
    outs = []
    used = 0
    for poison in env.POISONS:
        P = make_pool()
        with contextlib.ExitStack() as st:
            proxies = [st.enter_context(env.poisoned_empty(m, poison)) for m in MODULES if hasattr(m, "np")]
            acc.transitions += 1
            outs.append(do_call(name, P))
            used += sum(p.calls for p in proxies)
    if used:
        acc.counters["poison.descriptors_that_allocate_with_np_empty"] += 1
    if outs[0] != outs[1] or outs[0] != baseline(name):
        acc.violation("no-uninitialised-memory", name, {"kind": "poison", "name": name},
                      observed={"poison_a": outs[0], "poison_b": outs[1], "unpoisoned": baseline(name)})
    acc.counters["poison_pairs_compared"] += 1


def shard_poison(arg):
    acc = core.Acc(PID)
    for name in arg:
        acc.states += 1
        acc.nontrivial += 1
        acc.tick({"kind": "poison", "name": name})
        check_poison(acc, name)
    return acc


# ------------------------------------------------------------------------------------------ two-process layer
def layer_main(order):
    names = [n for n in desc()]
    if order == "reversed":
        names = names[::-1]
    out = {}
    P = make_pool()
    for n in names:
        out[n] = do_call(n, P)
    print(json.dumps(out))


def two_process_layer(run):
    res = {}
    for order in ("forward", "reversed"):
        r = subprocess.run([sys.executable, "-W", "ignore", "-c",
                            "import sys; sys.path.insert(0, %r); from props import C15; C15.layer_main(%r)" % (
                                core.VERIF, order)],
                           capture_output=True, text=True, env=dict(os.environ), cwd=core.VERIF)
        if r.returncode != 0:
            raise core.HarnessError("layer subprocess failed: " + r.stderr[-1500:])
        res[order] = json.loads(r.stdout.strip().splitlines()[-1])
    acc = core.Acc(PID)
    for n in res["forward"]:
        acc.states += 1
        acc.transitions += 2
        if res["forward"][n] != res["reversed"][n] or res["forward"][n] != baseline(n):
            acc.violation("repeatable", n, {"kind": "layer", "name": n},
                          observed={"forward": res["forward"][n], "reversed": res["reversed"][n],
                                    "in_process_baseline": baseline(n)})
    run.merge(acc)
    run.spaces.append({"name": "two-process depth-1 layer (forward vs reversed order)", "shards": 2,
                       "states": acc.states, "transitions": acc.transitions, "wall_s": 0.0, "exhaustive": True})


# ------------------------------------------------------------------------------------------ driver
def replay(case, acc):
    k = case["kind"]
    if k == "history":
        check_history(acc, case["hist"])
    elif k == "poison":
        check_poison(acc, case["name"])
    elif k == "edit":
        check_edit(acc, case["name"], case["obj"])
    elif k == "layer":
        # re-run both orders in fresh interpreters
        class R(object):
            spaces = []

            def merge(self, a):
                acc.viol.extend(a.viol)
        two_process_layer(R())
    else:
        raise core.HarnessError("unknown case kind %r" % k)


def run(run):
    thorough = run.tier == "thorough"
    D = desc()
    names = list(D)
    light = [n for n in names if not D[n]["heavy"]]
    heavy = [n for n in names if D[n]["heavy"]]
    risky = [n for n in names if D[n]["risky"]]
    run.rule = ("call histories over %d call descriptors (every public function of the task modules, util, sonify, "
                "separation; 1-4 argument shapes each) with arguments taken from one shared pool: depth 1 (all), "
                "depth 2 (all ordered pairs of non-heavy descriptors + heavy ones paired with every risky one), depth "
                "3 over the aliasing-prone subset; a history is non-trivial when it has >=2 calls" % len(names))
    run.assumptions = [
        "the heap digest covers the pool objects (arrays by dtype/shape/bytes, containers recursively, dict order) "
        "and every module-level container / array / scalar of mir_eval.*; state hidden elsewhere (closures, C "
        "extensions) is only observable through result changes, which the depth-2/3 histories and the two-process "
        "forward/reversed layer look for",
        "results are compared bit for bit including container and scalar types",
        "exceptions are results too (type only): a call that raises must raise the same way from every heap",
    ]
    for n in names:
        baseline(n)
    # workers inherit _BASE through fork
    d1 = [(n,) for n in names]
    run.explore("depth-1", __name__, "shard_hist", core.chunks(d1, 16))
    d2 = [(a, b) for a in light for b in light]
    d2 += [(a, b) for a in heavy for b in risky] + [(a, b) for a in risky for b in heavy]
    run.explore("depth-2 (ordered pairs)", __name__, "shard_hist", core.chunks(d2, 64))
    r3 = risky if thorough else [n for n in risky if n.split(".")[0] in ("util", "melody", "chord", "segment")]
    d3 = [h for h in itertools.product(r3, repeat=3)]
    run.explore("depth-3 (aliasing-prone subset, %d descriptors)" % len(r3), __name__, "shard_hist",
                core.chunks(d3, 64))
    run.explore("np.empty poison x2 (all modules, all descriptors)", __name__, "shard_poison",
                core.chunks(light, 12) + [[n] for n in heavy])
    edits = [(n, o) for n in names for o in D[n]["uses"] if o in EDITS and not D[n]["heavy"]]
    run.explore("caller-side edits between two calls (%d descriptor/object pairs)" % len(edits), __name__,
                "shard_edit", core.chunks(edits, 16))
    two_process_layer(run)
    run.require_nonvacuous("histories_sharing_an_argument_object", "edit_histories")
    n_raise = sum(1 for n in names if baseline(n).startswith("raised"))
    run.total.counters["descriptors"] = len(names)
    run.total.counters["descriptors_raising_on_initial_heap"] = n_raise
