"""C10 - chord labels: total parsing, sound encoding, split/join round trip.

Spaces (every one enumerated completely, nothing sampled):
  grammar-d1   root(35) x [shorthand](27) x [one degree](79) x [bass](40) (+N, X) x reduce x strict
  grammar-d2   (thorough) the same with every ordered pair of degrees, for one spelling of each of the 12 roots
  strings      every string of length <= 4 (quick) / <= 5 (thorough) over a 24-character alphabet
  mutants      every single-character deletion / insertion / substitution of a 3000-label core
  set-order    labels with 2-3 listed degrees (plus shorthand extensions) under every scheduled iteration order of
               the degree set (the name `set` in mir_eval.chord is rebound to an ordered-set class, then restored)
  hashseed     the set-order core with the builtin set in fresh interpreters under other PYTHONHASHSEEDs
Oracle: mc/spec/chord.py (independent recursive-descent recogniser + encoder).
Clauses: totality, acceptance, encoding, round-trip, sentinel, set-order.
"""
import itertools
import json
import math
import os
import signal
import subprocess
import sys

import numpy as np

from mc import core
from mc.spec import chord as spec

PID = "C10"
LEVEL = "model_checking"

from mir_eval import chord  # noqa: E402

ICE = chord.InvalidChordException
ALLFLAGS = ((False, False), (False, True), (True, False), (True, True))

LETTERS = "CDEFGAB"
ROOTS = [a + m for a in LETTERS for m in ("", "b", "#", "bb", "##")]                       # 35
SHORTHANDS = [None] + sorted(spec.SHORTHANDS)                                                # 27
DEGS = [o + m + str(n) for o in ("", "*") for m in ("", "b", "#") for n in range(1, 14)]    # 78
BASSES = [""] + ["/" + m + str(n) for m in ("", "b", "#") for n in range(1, 14)]            # 40


def selftest():
    spec.selftest()
    assert len(ROOTS) == 35 and len(SHORTHANDS) == 27 and len(DEGS) == 78 and len(BASSES) == 40


def tail(sh, deglist, bass):
    t = ""
    if sh is not None or deglist:
        t = ":" + (sh or "")
    if deglist:
        t += "(" + deglist + ")"
    return t + bass


# --------------------------------------------------------------------------- the seam for `set`
def _kth_permutation(items, k):
    items = list(items)
    n = len(items)
    k %= math.factorial(n) if n else 1
    out = []
    for i in range(n, 0, -1):
        f = math.factorial(i - 1)
        j, k = divmod(k, f)
        out.append(items.pop(j))
    return out


class ScheduledSet(object):
    """Ordered-set stand-in bound to the name ``set`` inside mir_eval.chord.  Iteration order is the
    ``schedule``-th lexicographic permutation of the sorted elements (0 = sorted)."""
    schedule = 0
    __hash__ = None

    def __init__(self, it=()):
        self._d = {}
        for x in it:
            self._d[x] = None

    def add(self, x):
        self._d[x] = None

    def update(self, *others):
        for o in others:
            for x in o:
                self._d[x] = None

    def discard(self, x):
        self._d.pop(x, None)

    def __contains__(self, x):
        return x in self._d

    def __len__(self):
        return len(self._d)

    def __iter__(self):
        return iter(_kth_permutation(sorted(self._d), ScheduledSet.schedule))

    def __eq__(self, other):
        try:
            return frozenset(self._d) == frozenset(other)
        except TypeError:
            return NotImplemented

    def __repr__(self):
        return "ScheduledSet(%r)" % (list(self),)


class seam(object):
    """with seam(k): the library builds ScheduledSets with schedule k; always restored."""

    def __init__(self, k):
        self.k = k

    def __enter__(self):
        if "set" in chord.__dict__:
            raise core.HarnessError("mir_eval.chord already has a module-level name `set`")
        ScheduledSet.schedule = self.k
        chord.__dict__["set"] = ScheduledSet
        return self

    def __exit__(self, *a):
        chord.__dict__.pop("set", None)
        ScheduledSet.schedule = 0
        return False


# --------------------------------------------------------------------------- one label through the oracle
def _call(fn, *a):
    try:
        return "ok", fn(*a)
    except ICE as e:
        return "ice", str(e)
    except Exception as e:  # noqa
        return "exc", "raised %s: %s" % (type(e).__name__, e)


def _norm(res):
    """encode() result -> (root, bitmap tuple, bass) of python ints, or a string describing the malformation."""
    if not isinstance(res, tuple) or len(res) != 3:
        return "not a 3-tuple: %r" % (res,)
    root, bm, bass = res
    for x in (root, bass):
        if isinstance(x, bool) or not isinstance(x, (int, np.integer)):
            return "root/bass not an integer: %r" % ((root, bass),)
    bm = np.asarray(bm)
    if bm.shape != (12,) or bm.dtype.kind not in "iu":
        return "bitmap is not 12 integers: shape %r dtype %s" % (bm.shape, bm.dtype)
    return (int(root), tuple(bm.tolist()), int(bass))


class Many(object):
    """Collector for the vectorised encode_many conformance (flushes in blocks)."""

    def __init__(self, acc, schedule=None, block=256):
        self.acc = acc
        self.block = block
        self.schedule = schedule
        self.buf = {False: [], True: []}

    def add(self, r, label, expect):
        b = self.buf[r]
        b.append((label, expect))
        if len(b) >= self.block:
            self.flush(r)

    def flush(self, r=None):
        for rr in ((False, True) if r is None else (r,)):
            b, self.buf[rr] = self.buf[rr], []
            if b:
                _check_many(self.acc, [x[0] for x in b], [x[1] for x in b], rr, self.schedule)


def _check_many(acc, labels, expects, r, schedule):
    acc.transitions += 1
    st, res = _call(chord.encode_many, list(labels), r)
    if st != "ok":
        if len(labels) == 1:
            acc.violation("totality" if st == "exc" else "encoding", "chord.encode_many",
                          _case(labels[0], r, False, schedule), observed=res, expected=expects[0])
        else:       # localise
            for l, e in zip(labels, expects):
                _check_many(acc, [l], [e], r, schedule)
        return
    ok = isinstance(res, tuple) and len(res) == 3
    if ok:
        roots, semis, basses = (np.asarray(x) for x in res)
        ok = roots.shape == (len(labels),) and basses.shape == (len(labels),) and semis.shape == (len(labels), 12)
    if not ok:
        acc.violation("encoding", "chord.encode_many", _case(labels[0], r, False, schedule),
                      observed="malformed result", expected="(n,), (n,12), (n,) arrays")
        return
    roots, semis, basses = roots.tolist(), semis.tolist(), basses.tolist()
    for i, (l, e) in enumerate(zip(labels, expects)):
        acc.conform += 1
        got = (roots[i], tuple(semis[i]), basses[i])
        if got != e:
            acc.violation("encoding", "chord.encode_many", _case(l, r, False, schedule), observed=got, expected=e)


def _case(l, r=None, s=None, schedule=None):
    c = {"kind": "label", "label": l, "reduce": r, "strict": s}
    if schedule is not None:
        c["schedule"] = schedule
    return c


def _matches(obs, e):
    """lib encoding (root, bitmap, bass) against model Enc with status ok; returns reason or None."""
    root, bm, bass = obs
    if not (0 <= root <= 11 and 0 <= bass <= 11):
        return "root/bass outside 0..11"
    if any(v not in (0, 1) for v in bm):
        return "bitmap value outside {0,1}"
    if bm[bass] != 1:
        return "bitmap does not contain the bass interval"
    if root != e.root:
        return "root"
    if bass != e.bass:
        return "bass"
    for i in range(12):
        if bm[i] != e.bitmap[i] and (i not in e.dontcare or i == e.bass):
            return "bitmap position %d" % i
    return None


def check_label(acc, l, flags=ALLFLAGS, schedule=None, many=None, observed=None):
    """Run one string through validate / split / join / encode (/ encode_many) for the given flag settings."""
    m = spec.parse(l)
    acc.transitions += 1
    acc.conform += 1
    st, v = _call(chord.validate_chord_label, l)
    if st == "exc":
        acc.violation("totality", "chord.validate_chord_label", _case(l, schedule=schedule), observed=v,
                      expected="return or InvalidChordException")
    elif (st == "ok") != (m is not None):
        acc.violation("acceptance", "chord.validate_chord_label", _case(l, schedule=schedule),
                      observed="accepted" if st == "ok" else "rejected",
                      expected="accepted" if m is not None else "rejected")
    is_chord = m is not None and m.kind == "chord"
    for r in (False, True):
        ss = [s for (rr, s) in flags if rr == r]
        if not ss:
            continue
        # ---- split / join
        acc.transitions += 1
        st, parts = _call(chord.split, l, r)
        joined = None
        if st == "exc":
            acc.violation("totality", "chord.split", _case(l, r, None, schedule), observed=parts,
                          expected="return or InvalidChordException")
        elif m is None:
            pass
        elif st == "ice":
            if not spec.encode(m, r, False).raise_optional:
                acc.violation("round-trip", "chord.split", _case(l, r, None, schedule),
                              observed="InvalidChordException: " + parts, expected="the four parts")
        elif not isinstance(parts, (list, tuple)) or len(parts) != 4:
            acc.violation("round-trip", "chord.split", _case(l, r, None, schedule), observed=repr(parts),
                          expected="the four parts")
        else:
            acc.transitions += 1
            stj, joined = _call(chord.join, *parts)
            if stj == "exc":
                acc.violation("totality", "chord.join", _case(l, r, None, schedule), observed=joined,
                              expected="return or InvalidChordException")
                joined = None
            elif stj == "ice":
                if m.kind == "X":
                    acc.counters["roundtrip.X_join_raises_InvalidChordException"] += 1
                else:
                    acc.violation("round-trip", "chord.join", _case(l, r, None, schedule),
                                  observed="InvalidChordException: " + joined, expected="a label")
                joined = None
            elif not isinstance(joined, str) or (joined != l and spec.parse(joined) is None):
                acc.violation("round-trip", "chord.join", _case(l, r, None, schedule), observed=repr(joined),
                              expected="a grammatical label")
                joined = None
        # ---- encode
        loose = None
        for s in ss:
            acc.states += 1
            acc.transitions += 1
            st, res = _call(chord.encode, l, r, s)
            obs = None
            if st == "exc":
                acc.violation("totality", "chord.encode", _case(l, r, s, schedule), observed=res,
                              expected="return or InvalidChordException")
                continue
            if st == "ok":
                obs = _norm(res)
            if observed is not None:
                observed.setdefault((r, s), []).append(obs if st == "ok" else "ICE")
            if m is None:
                acc.outcome(("invalid", st))
                continue
            acc.conform += 1
            e = spec.encode(m, r, s)
            for note in e.notes:
                acc.counters["enc." + note] += 1
            if e.status == "ok":
                if st == "ice":
                    if e.raise_optional or (s and e.strict_open):
                        acc.counters["enc.open_case_library_raises"] += 1
                    else:
                        acc.violation("encoding", "chord.encode", _case(l, r, s, schedule),
                                      observed="InvalidChordException: " + res,
                                      expected=[e.root, list(e.bitmap), e.bass])
                elif isinstance(obs, str):
                    acc.violation("encoding", "chord.encode", _case(l, r, s, schedule), observed=obs,
                                  expected=[e.root, list(e.bitmap), e.bass])
                else:
                    why = _matches(obs, e)
                    acc.outcome(obs)
                    if why is not None:
                        acc.violation("encoding", "chord.encode", _case(l, r, s, schedule), observed=obs,
                                      expected=[e.root, list(e.bitmap), e.bass], note=why)
            elif e.status in ("N", "X"):
                exp = (-1, e.bitmap, -1)
                acc.counters["sentinel." + e.status] += 1
                if st != "ok" or obs != exp:
                    acc.violation("sentinel", "chord.encode", _case(l, r, s, schedule),
                                  observed=obs if st == "ok" else "InvalidChordException: " + res, expected=exp)
            else:       # unsupported shorthand / strict bass absent: documented to raise InvalidChordException
                acc.counters["enc.expected_raise." + e.status] += 1
                acc.outcome(("ice", e.status))
                if st != "ice":
                    acc.violation("encoding", "chord.encode", _case(l, r, s, schedule), observed=obs,
                                  expected="InvalidChordException (%s)" % e.status)
            if not s:
                loose = (st, obs, e)
            # ---- round trip through join
            if joined is not None and is_chord:
                if joined == l:
                    acc.counters["roundtrip.identity"] += 1
                else:
                    acc.counters["roundtrip.rewritten"] += 1
                    acc.transitions += 1
                    acc.conform += 1
                    stj, resj = _call(chord.encode, joined, r, s)
                    if stj == "exc":
                        acc.violation("totality", "chord.encode", _case(joined, r, s, schedule), observed=resj)
                    else:
                        a = obs if st == "ok" else "ICE"
                        b = _norm(resj) if stj == "ok" else "ICE"
                        if a != b:
                            acc.violation("round-trip", "chord.join", _case(l, r, s, schedule),
                                          observed={"joined": joined, "encoding": b}, expected=a)
        # ---- encode_many (no strict flag)
        if many is not None and False in ss:
            if loose is not None and loose[0] == "ok" and loose[2].status in ("ok", "N", "X") \
                    and not isinstance(loose[1], str):
                many.add(r, l, loose[1])
            else:
                acc.transitions += 1
                stm, resm = _call(chord.encode_many, [l], r)
                if stm == "exc":
                    acc.violation("totality", "chord.encode_many", _case(l, r, False, schedule), observed=resm,
                                  expected="return or InvalidChordException")
                elif loose is not None and (stm == "ok") != (loose[0] == "ok"):
                    acc.violation("encoding", "chord.encode_many", _case(l, r, False, schedule),
                                  observed=stm, expected="same outcome as encode: " + loose[0])
    return m


# --------------------------------------------------------------------------- shards
def _count_label(acc, l, m):
    if m is None:
        acc.counters["accept.model_rejects"] += 1
        if l.endswith("\n") and spec.parse(l[:-1]) is not None:
            acc.counters["accept.valid_label_plus_trailing_newline"] += 1
    else:
        acc.counters["accept.model_accepts"] += 1
        if m.kind == "chord" and (m.shorthand is not None or m.degrees is not None or m.bass is not None):
            acc.nontrivial += 1


DEFAULT_ONLY = ((False, False),)


def shard_grammar(arg):
    roots_all, roots_default, shorthands, depth, d1_slice, with_nx = arg
    acc = core.Acc(PID)
    many = Many(acc)
    if depth == 1:
        deglists = [""] + DEGS
    else:
        deglists = [a + "," + b for a in DEGS[d1_slice[0]:d1_slice[1]] for b in DEGS]
    if with_nx:
        for l in ("N", "X"):
            acc.tick(lambda: _case(l))
            m = check_label(acc, l, ALLFLAGS, None, many)
            _count_label(acc, l, m)
    plan = [(r, ALLFLAGS) for r in roots_all] + [(r, DEFAULT_ONLY) for r in roots_default]
    l = None
    for sh in shorthands:
        for dl in deglists:
            for b in BASSES:
                t = tail(sh, dl, b)
                for root, flags in plan:
                    l = root + t
                    acc.tick(lambda: _case(l))
                    m = check_label(acc, l, flags, None, many)
                    _count_label(acc, l, m)
    many.flush()
    acc.sample(_case(l))
    return acc


def shard_strings(arg):
    prefixes, sigma, maxlen, with_short = arg
    acc = core.Acc(PID)
    many = Many(acc)

    def one(l):
        acc.tick(lambda: _case(l))
        m = check_label(acc, l, ALLFLAGS, None, many)
        _count_label(acc, l, m)
        if m is None and len(l) > 1 and spec.parse(l[:-1]) is not None:
            acc.nontrivial += 1          # one character past a valid label

    if with_short:
        one("")
        for c in sigma:
            one(c)
    for p in prefixes:
        for n in range(0, maxlen - len(p) + 1):
            for t in itertools.product(sigma, repeat=n):
                one(p + "".join(t))
    many.flush()
    acc.sample(_case(prefixes[-1] + sigma[0]))
    return acc


def mutants(l, sigma):
    out = set()
    n = len(l)
    for i in range(n):
        out.add(l[:i] + l[i + 1:])
        for c in sigma:
            if c != l[i]:
                out.add(l[:i] + c + l[i + 1:])
    for i in range(n + 1):
        for c in sigma:
            out.add(l[:i] + c + l[i:])
    out.discard(l)
    return sorted(out)


def shard_mutants(arg):
    labels, sigma = arg
    acc = core.Acc(PID)
    many = Many(acc)
    seen = set()
    for l0 in labels:
        if spec.parse(l0) is None:
            raise core.HarnessError("mutation core label %r is not grammatical" % l0)
        for l in mutants(l0, sigma):
            if l in seen:
                continue
            seen.add(l)
            acc.tick(lambda: _case(l))
            m = check_label(acc, l, ALLFLAGS, None, many)
            _count_label(acc, l, m)
            if m is None:
                acc.nontrivial += 1
                acc.counters["mutants.invalid_neighbour_of_valid_label"] += 1
            else:
                acc.counters["mutants.valid_neighbour_of_valid_label"] += 1
    many.flush()
    acc.sample(_case(labels[-1]))
    return acc


def _schedules(n):
    f = math.factorial(n)
    ks = set(range(min(f, 24)))
    ks.update(f - 1 - i for i in range(min(f, 24)))
    return sorted(ks)


def check_seam_label(acc, l):
    """Every scheduled iteration order of the degree set: identical encodings, each conforming to the model."""
    # schedule 0 first: read the number of elements the library's set holds from split itself
    sizes = {}
    for r in (False, True):
        with seam(0):
            st, parts = _call(chord.split, l, r)
        sizes[r] = len(parts[2]) if st == "ok" and isinstance(parts[2], ScheduledSet) else 0
        if st == "ok" and not isinstance(parts[2], ScheduledSet):
            # this tree builds the degree collection without the builtin `set` the seam replaces (a refactor to a
            # literal, a frozenset, a sorted list ...): the schedule dimension is degenerate here, not an error; order
            # dependence of real sets is then covered by the hash-seed repetition layer only
            acc.counters["seam.not_effective_plain_collection_returned"] += 1
    first = {}
    for r in (False, True):
        for k in _schedules(sizes[r]):
            obs = {}
            acc.tick(lambda: _case(l, r, None, k))
            acc.counters["seam.schedules"] += 1
            if k:
                acc.counters["seam.non_sorted_schedules"] += 1
            with seam(k):
                check_label(acc, l, [(r, False), (r, True)], k, Many(acc, k, block=1), obs)
            for key, val in obs.items():
                if key not in first:
                    first[key] = (k, val)
                elif first[key][1] != val:
                    acc.violation("set-order", "chord.encode", _case(l, key[0], key[1], k), observed=val,
                                  expected={"schedule": first[key][0], "encoding": first[key][1]})
    if "set" in chord.__dict__:
        raise core.HarnessError("seam not restored")


def shard_seam(arg):
    labels = arg
    acc = core.Acc(PID)
    for l in labels:
        m = spec.parse(l)
        if m is None:
            raise core.HarnessError("seam core label %r is not grammatical" % l)
        acc.nontrivial += 1
        if spec.encode(m, True, False).dontcare or spec.encode(m, False, False).dontcare:
            acc.counters["seam.labels_with_add_omit_conflict"] += 1
        check_seam_label(acc, l)
    acc.sample(_case(labels[-1]))
    return acc


# --------------------------------------------------------------------------- hash-seed repetition
def _child_main():
    """Run in a fresh interpreter with another PYTHONHASHSEED: labels (JSON list on stdin) through the oracle
    with the builtin set; prints violations and a digest of the observed encodings."""
    labels = json.load(sys.stdin)
    acc = core.Acc(PID)
    obs = {}
    for l in labels:
        check_label(acc, l, ALLFLAGS, None, None, obs)
    print(json.dumps({"viol": acc.viol, "known": dict(acc.known), "digest": core.digest(
        [[list(k), v] for k, v in sorted(obs.items())]), "states": acc.states, "transitions": acc.transitions,
        "conform": acc.conform, "hashseed": os.environ.get("PYTHONHASHSEED")}))


def _run_child(labels, seed):
    env = dict(os.environ)
    env["PYTHONHASHSEED"] = str(seed)
    code = "import sys; sys.path.insert(0, %r); from props import C10; C10._child_main()" % core.VERIF
    # starting an interpreter is harness work, not an execution of the code under test: the per-call watchdog is
    # disarmed while waiting and replaced by a generous timeout that surfaces as a harness error, never a verdict
    signal.setitimer(signal.ITIMER_REAL, 0)
    try:
        r = subprocess.run([sys.executable, "-W", "ignore", "-c", code], input=json.dumps(labels), env=env,
                           cwd=core.VERIF, capture_output=True, text=True, timeout=900)
    except subprocess.TimeoutExpired:
        raise core.HarnessError("hash-seed child did not finish within 900 s")
    if r.returncode != 0:
        raise core.HarnessError("hash-seed child failed: " + r.stderr[-2000:])
    return json.loads(r.stdout.strip().splitlines()[-1])


def shard_hashseed(arg):
    labels, seeds = arg
    acc = core.Acc(PID)
    for lo in range(0, len(labels), 400):        # small pieces: each child stays well inside the watchdog budget
        piece = labels[lo:lo + 400]
        base = None
        for seed in seeds:
            acc.tick(lambda: {"kind": "hashseed", "labels": piece[:3], "hashseed": seed, "against": seeds[0]})
            out = _run_child(piece, seed)
            acc.states += out["states"]
            acc.transitions += out["transitions"]
            acc.conform += out["conform"]
            acc.nontrivial += len(piece)
            acc.counters["hashseed.interpreters"] += 1
            for fid, n in out["known"].items():
                acc.known[fid] += n
                acc.known_example.setdefault(fid, {"case": {"kind": "hashseed", "hashseed": seed},
                                                   "observed": None})
            for v in out["viol"]:
                c = dict(v["case"])
                c["hashseed"] = seed
                acc.violation(v["clause"], v["site"], c, observed=v["observed"], expected=v["expected"])
            if base is None:
                base = (seed, out["digest"])
            elif out["digest"] != base[1]:
                acc.violation("set-order", "chord.encode", {"kind": "hashseed", "labels": piece,
                                                            "hashseed": seed, "against": base[0]},
                              observed=out["digest"], expected=base[1])
    return acc


# --------------------------------------------------------------------------- cores and alphabets
def sigma_for(phase):
    """24-character alphabet; phase 0 is the design's alphabet, other phases rename root letters / digits."""
    letters = ("ACG", "BDF")[(phase // 4) % 2]
    digits = (("1", "3", "7"), ("1", "3", "9"), ("1", "5", "6"), ("1", "0", "3"))[phase % 4]
    return list(letters) + ["H", "b", "#", ":", "(", ")", "*", ",", "/"] + list(digits) + \
        ["m", "a", "j", "i", "n", "N", "X", " ", "\n"]


def mutation_core(phase, n_d1=2800, n_d2=200):
    tails = [tail(sh, dl, b) for sh in SHORTHANDS for dl in [""] + DEGS for b in BASSES]
    out = []
    for i in range(n_d1):
        out.append(ROOTS[(3 * i + phase) % 35] + tails[(phase + 29 * i) % len(tails)])
    shs = [s for s in SHORTHANDS]
    for i in range(n_d2):
        dl = DEGS[(7 * i + phase) % 78] + "," + DEGS[(11 * i + 5) % 78]
        if i % 4 == 0:
            dl += "," + DEGS[(13 * i + 2) % 78]
        out.append(ROOTS[(5 * i + phase) % 35] + tail(shs[i % 27], dl, BASSES[(3 * i) % 40]))
    seen, core_ = set(), []
    for l in out:
        if l not in seen:
            seen.add(l)
            core_.append(l)
    return core_


def seam_core(phase, thorough):
    toks = ["3", "*3", "b3", "*5", "#5", "7", "b7", "9", "*9", "#11", "13", "*1", "10", "*b7", "b9", "#9",
            "*11", "b13", "6", "*8"]
    k = phase % len(toks)
    toks = toks[k:] + toks[:k]
    toks = toks[:(16 if thorough else 11)]
    shs = [None, "maj", "min7", "sus4", "9", "13", "min11", "minmaj7", "1", "maj13"]
    if not thorough:
        shs = shs[:8]
    root = ROOTS[(5 * phase + 1) % 35]
    basses = ["", "/5", "/b7"] if thorough else ["", "/b7"]
    out = []
    for sh in shs:
        for n in (2, 3):
            for combo in itertools.combinations(toks, n):
                for b in basses:
                    out.append(root + tail(sh, ",".join(combo), b))
    return out


# --------------------------------------------------------------------------- driver
def replay(case, acc):
    k = case["kind"]
    if k == "label":
        l = case["label"]
        if case.get("hashseed") is not None:
            out = _run_child([l], case["hashseed"])
            for v in out["viol"]:
                c = dict(v["case"])
                c["hashseed"] = case["hashseed"]
                acc.violation(v["clause"], v["site"], c, observed=v["observed"], expected=v["expected"])
        elif case.get("schedule") is not None:
            check_seam_label(acc, l)
        else:
            many = Many(acc, block=1)
            check_label(acc, l, ALLFLAGS, None, many)
            many.flush()
    elif k == "hashseed":
        sub = shard_hashseed((case["labels"], [case["against"], case["hashseed"]]))
        for v in sub.viol:
            acc.violation(v["clause"], v["site"], v["case"], observed=v["observed"], expected=v["expected"])
    else:
        raise core.HarnessError("unknown case kind %r" % k)


def run(run):
    thorough = run.tier == "thorough"
    ph = run.phase
    mod = __name__
    run.rule = ("each state is a distinct (string, reduce_extended_chords, strict_bass_intervals) triple "
                "(set-order space: x scheduled iteration order); a state is non-trivial when the model accepts the "
                "string and it has at least one optional part (shorthand, degree list, bass), or when it is a "
                "rejected string one edit away from an accepted label")
    run.assumptions = [
        "syntax = Harte's grammar as cited by the module docstring, with homogeneous modifier runs (b* | #*) as in "
        "every documented spelling ('C#', 'Gbb', 'b6', '#5'); Harte's BNF literally also derives mixed runs "
        "('C#b'), which mir_eval rejects - treated as not part of the documented syntax",
        "shorthands aug7 and maj11 are grammatical but have no documented semitone content (absent from "
        "QUALITIES): encode is expected to raise InvalidChordException for them",
        "a degree below the root (b1) denotes the pitch class below it (wrapped), like root spellings (Cb = 11)",
        "a bitmap position that is both added and omitted by the degree list (e.g. C:maj(3,*3)) is left open "
        "by the documentation: its value is not compared (counter enc.add-omit-conflict), but it must not "
        "depend on the set iteration order",
        "an omission without a shorthand (C:(*3)) is grammatical; split's comment says it MUST have a quality: "
        "both raising InvalidChordException and encoding with the omission applied are accepted",
        "N and X are excluded from the split/join round trip (join(*split('X')) raises InvalidChordException)",
        "thorough depth-2 degree lists are enumerated for one spelling of each of the 12 roots (spelling chosen "
        "by the seed phase; 3 roots under all flag settings, 9 under the default flags); all 35 spellings x all "
        "flag settings are enumerated at depth <= 1 (quick: 12 spellings x all flag settings + the other 23 under "
        "the default flags)",
    ]
    # (a) grammar, depth <= 1: all 35 spellings; thorough: x all four flag settings; quick: one spelling of each
    # of the 12 pitch classes x all four flag settings, the other 23 spellings under the default flags
    spell = [["C", "B#", "Dbb"], ["C#", "Db", "B##"], ["D", "C##", "Ebb"], ["Eb", "D#", "Fbb"],
             ["E", "Fb", "D##"], ["F", "E#", "Gbb"], ["F#", "Gb", "E##"], ["G", "F##", "Abb"],
             ["Ab", "G#"], ["A", "G##", "Bbb"], ["Bb", "A#", "Cbb"], ["B", "Cb", "A##"]]
    roots12 = [s[ph % len(s)] for s in spell]
    roots = ROOTS[ph:] + ROOTS[:ph]
    if thorough:
        plan = [(rch, []) for rch in core.chunks(roots, 5)]
        name = "grammar depth<=1 (35x27x79x40 +N,X) x4 flags"
    else:
        rest = [r for r in roots if r not in roots12]
        plan = [(a, b) for a, b in zip(core.chunks(roots12, 4), core.chunks(rest, 4))]
        name = "grammar depth<=1 (27x79x40 +N,X) x (12 roots x4 flags + 23 roots default flags)"
    shards = []
    for i, sh in enumerate(SHORTHANDS):
        for j, (ra, rd) in enumerate(plan):
            shards.append((ra, rd, [sh], 1, None, i == 0 and j == 0))
    run.explore(name, mod, "shard_grammar", shards)
    # (a2) grammar, depth 2 (thorough)
    if thorough:
        full = [roots12[(ph + 4 * i) % 12] for i in range(3)]
        rest = [r for r in roots12 if r not in full]
        shards = []
        for sh in SHORTHANDS:
            for lo in range(0, 78, 13):
                shards.append((full, rest, [sh], 2, (lo, lo + 13), False))
        run.explore("grammar depth 2 (27x6084x40 x (3 roots x4 flags + 9 roots default flags))", mod,
                    "shard_grammar", shards)
        run.cuts.append("depth-2 degree lists: 12 of the 35 root spellings (one per pitch class), 3 of them under "
                        "all four flag settings and 9 under the default flags; the design's full 35-root "
                        "product (233 M labels x 4) does not fit the 20-minute budget")
    # (b) all strings
    sigma = sigma_for(ph)
    maxlen = 5 if thorough else 4
    prefixes = [a + b for a in sigma for b in sigma]
    pch = core.chunks(prefixes, 64)
    run.explore("all strings len<=%d over 24 chars" % maxlen, mod, "shard_strings",
                [(ch, sigma, maxlen, i == 0) for i, ch in enumerate(pch)])
    # (c) single-edit mutants
    mc = mutation_core(ph)
    run.explore("1-edit mutants of %d-label core" % len(mc), mod, "shard_mutants",
                [(ch, sigma) for ch in core.chunks(mc, 64)])
    # (d) set-order seam
    sc = seam_core(ph, thorough)
    run.explore("set-order seam (%d labels)" % len(sc), mod, "shard_seam", core.chunks(sc, 64))
    # (e) hash seeds
    hs = sc[::(1 if thorough else 4)]
    seeds = [[0, 1], [0, 2]] if thorough else [[0, 1]]
    run.explore("hash-seed repetition (%d labels)" % len(hs), mod, "shard_hashseed",
                [(ch, s) for s in seeds for ch in core.chunks(hs, 8)])
    run.require_nonvacuous(
        "accept.model_accepts", "accept.model_rejects", "accept.valid_label_plus_trailing_newline",
        "enc.omission-removes-tone", "enc.degree-beyond-octave", "enc.extended-shorthand",
        "enc.bass-not-a-chord-tone", "enc.expected_raise.bass-absent", "enc.expected_raise.unsupported",
        "enc.add-omit-conflict", "enc.omission-without-shorthand", "enc.degree-below-root", "enc.bass-folded",
        "sentinel.N", "sentinel.X", "roundtrip.rewritten", "roundtrip.identity",
        "mutants.valid_neighbour_of_valid_label", "mutants.invalid_neighbour_of_valid_label",
        "seam.labels_with_add_omit_conflict", "hashseed.interpreters")
    if run.total.counters.get("seam.not_effective_plain_collection_returned", 0):
        run.assumptions.append("set-order seam degenerate on this tree: chord.split does not build its degree "
                               "collection through the builtin `set`; iteration-order dependence is covered by the "
                               "hash-seed repetition layer only")
