"""C07 - looser criteria never lower a score; nested criteria are ordered."""
from mc import core, generic
from mc.tasks import base

PID = "C07"
LEVEL = "model_checking"


def replay(case, acc):
    generic.replay_rel(case, acc, "mono")


def run(run):
    run.rule = ("for every pair state: every tolerance chain (ascending values of one tolerance, the others at "
                "their defaults; each adjacent link is an edge) and every nested metric pair; non-trivial = both "
                "sides >= 2 items and differ")
    run.assumptions = ["tolerance alphabets contain both sides of, and exactly, each lattice distance; ratios "
                       "compared with 1e-12 slack"]
    for name in base.tasks():
        task = base.load(name)
        if not (any(f.mono or f.nested for f in task.funcs) or getattr(task, "cross_nested", None)):
            continue
        run.explore("%s chains+nested" % name, "mc.generic", "shard_mono",
                    generic.shard_plan(name, "pair", run.tier, run.phase, 64))
    # mono.strict_increase_edges / nested.strict_states are output-side: reported in the evidence, not required
    # (a defect that flattens every score must surface as a violation or as silence, never as a harness error)
    run.require_nonvacuous("chains_evaluated")
