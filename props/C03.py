"""C03 - evaluate() is exactly the documented bundle of the individual metrics.

For every task: a panel of input states (empty sides, singletons, non-trivial pairs, span mismatches) x all
subsets of size <=2 (thorough <=3) of the keyword parameters of the underlying functions (each at one in-range
non-default value) plus an unrelated keyword.  Oracle: a bundle table written from the docstrings - key set and
order, real scalar values, and each value bit-identical to the corresponding public function called directly on
the documented pre-processing of the same inputs with the documented forced parameter; other keywords are
forwarded iff the callee's signature (inspect.signature, not util.filter_kwargs) accepts them.  Second space: the
same oracle after one other task's evaluate() ran first (all ordered pairs of tasks), from a restored module state.
"""
import collections
import inspect
import itertools
import math
import numbers
import warnings

import numpy as np

from mc import core

PID = "C03"
LEVEL = "model_checking"

import mir_eval
from mir_eval import (alignment, beat, chord, hierarchy, key, melody, multipitch, onset, pattern, segment, tempo,
                      transcription, transcription_velocity, util)

A = np.array


def accepted(fn, kw):
    sig = inspect.signature(fn)
    if any(p.kind == p.VAR_KEYWORD for p in sig.parameters.values()):
        return dict(kw)
    return {k: v for k, v in kw.items() if k in sig.parameters}


def direct(fn, args, kw, forced=None):
    k = accepted(fn, kw)
    if forced:
        k.update(forced)
    return fn(*args, **k)


def put(out, keys, val):
    if len(keys) == 1:
        out[keys[0]] = val
    else:
        val = tuple(val)
        if len(val) != len(keys):
            raise core.HarnessError("bundle table arity mismatch for %r" % (keys,))
        for k, v in zip(keys, val):
            out[k] = v


# ------------------------------------------------------------------------------------------ bundle tables
def exp_beat(args, kw):
    r, e = args
    r = direct(beat.trim_beats, (r,), kw)
    e = direct(beat.trim_beats, (e,), kw)
    o = collections.OrderedDict()
    put(o, ["F-measure"], direct(beat.f_measure, (r, e), kw))
    put(o, ["Cemgil", "Cemgil Best Metric Level"], direct(beat.cemgil, (r, e), kw))
    put(o, ["Goto"], direct(beat.goto, (r, e), kw))
    put(o, ["P-score"], direct(beat.p_score, (r, e), kw))
    put(o, ["Correct Metric Level Continuous", "Correct Metric Level Total", "Any Metric Level Continuous",
            "Any Metric Level Total"], direct(beat.continuity, (r, e), kw))
    put(o, ["Information gain"], direct(beat.information_gain, (r, e), kw))
    return o


def exp_onset(args, kw):
    o = collections.OrderedDict()
    put(o, ["F-measure", "Precision", "Recall"], direct(onset.f_measure, args, kw))
    return o


def exp_tempo(args, kw):
    o = collections.OrderedDict()
    put(o, ["P-score", "One-correct", "Both-correct"], direct(tempo.detection, args, kw))
    return o


def exp_key(args, kw):
    o = collections.OrderedDict()
    put(o, ["Weighted Score"], key.weighted_score(*args))
    return o


def exp_alignment(args, kw):
    o = collections.OrderedDict()
    put(o, ["pc"], direct(alignment.percentage_correct, args, kw))
    put(o, ["mae", "aae"], alignment.absolute_error(*args))
    put(o, ["pcs"], direct(alignment.percentage_correct_segments, args, kw))
    put(o, ["perceptual"], alignment.karaoke_perceptual_metric(*args))
    return o


def exp_melody(args, kw):
    rt, rf, et, ef, ev, rr = args
    rv, rc, ev2, ec = direct(melody.to_cent_voicing, (rt, rf, et, ef, ev, rr), kw)
    o = collections.OrderedDict()
    put(o, ["Voicing Recall"], direct(melody.voicing_recall, (rv, ev2), kw))
    put(o, ["Voicing False Alarm"], direct(melody.voicing_false_alarm, (rv, ev2), kw))
    put(o, ["Raw Pitch Accuracy"], direct(melody.raw_pitch_accuracy, (rv, rc, ev2, ec), kw))
    put(o, ["Raw Chroma Accuracy"], direct(melody.raw_chroma_accuracy, (rv, rc, ev2, ec), kw))
    put(o, ["Overall Accuracy"], direct(melody.overall_accuracy, (rv, rc, ev2, ec), kw))
    return o


MP_KEYS = ["Precision", "Recall", "Accuracy", "Substitution Error", "Miss Error", "False Alarm Error",
           "Total Error", "Chroma Precision", "Chroma Recall", "Chroma Accuracy", "Chroma Substitution Error",
           "Chroma Miss Error", "Chroma False Alarm Error", "Chroma Total Error"]


def exp_multipitch(args, kw):
    o = collections.OrderedDict()
    put(o, MP_KEYS, direct(multipitch.metrics, args, kw))
    return o


def exp_transcription(args, kw):
    ri, rp, ei, ep = args
    o = collections.OrderedDict()
    ratio = kw.get("offset_ratio", 0.2)
    kw2 = dict(kw)
    kw2["offset_ratio"] = ratio
    if ratio is not None:
        put(o, ["Precision", "Recall", "F-measure", "Average_Overlap_Ratio"],
            direct(transcription.precision_recall_f1_overlap, args, kw2))
    put(o, ["Precision_no_offset", "Recall_no_offset", "F-measure_no_offset", "Average_Overlap_Ratio_no_offset"],
        direct(transcription.precision_recall_f1_overlap, args, kw2, {"offset_ratio": None}))
    put(o, ["Onset_Precision", "Onset_Recall", "Onset_F-measure"],
        direct(transcription.onset_precision_recall_f1, (ri, ei), kw2))
    if ratio is not None:
        put(o, ["Offset_Precision", "Offset_Recall", "Offset_F-measure"],
            direct(transcription.offset_precision_recall_f1, (ri, ei), kw2))
    return o


def exp_velocity(args, kw):
    o = collections.OrderedDict()
    ratio = kw.get("offset_ratio", 0.2)
    kw2 = dict(kw)
    kw2["offset_ratio"] = ratio
    if ratio is not None:
        put(o, ["Precision", "Recall", "F-measure", "Average_Overlap_Ratio"],
            direct(transcription_velocity.precision_recall_f1_overlap, args, kw2))
    put(o, ["Precision_no_offset", "Recall_no_offset", "F-measure_no_offset", "Average_Overlap_Ratio_no_offset"],
        direct(transcription_velocity.precision_recall_f1_overlap, args, kw2, {"offset_ratio": None}))
    return o


def exp_segment(args, kw):
    ri, rl, ei, el = args
    ri, rl = util.adjust_intervals(ri, labels=rl, t_min=0.0)
    ei, el = util.adjust_intervals(ei, labels=el, t_min=0.0, t_max=ri.max())
    o = collections.OrderedDict()
    put(o, ["Precision@0.5", "Recall@0.5", "F-measure@0.5"], direct(segment.detection, (ri, ei), kw, {"window": 0.5}))
    put(o, ["Precision@3.0", "Recall@3.0", "F-measure@3.0"], direct(segment.detection, (ri, ei), kw, {"window": 3.0}))
    put(o, ["Ref-to-est deviation", "Est-to-ref deviation"], direct(segment.deviation, (ri, ei), kw))
    lab = (ri, rl, ei, el)
    put(o, ["Pairwise Precision", "Pairwise Recall", "Pairwise F-measure"], direct(segment.pairwise, lab, kw))
    put(o, ["Rand Index"], direct(segment.rand_index, lab, kw))
    put(o, ["Adjusted Rand Index"], direct(segment.ari, lab, kw))
    put(o, ["Mutual Information", "Adjusted Mutual Information", "Normalized Mutual Information"],
        direct(segment.mutual_information, lab, kw))
    put(o, ["NCE Over", "NCE Under", "NCE F-measure"], direct(segment.nce, lab, kw))
    put(o, ["V Precision", "V Recall", "V-measure"], direct(segment.vmeasure, lab, kw))
    return o


CHORD_FNS = ["thirds", "thirds_inv", "triads", "triads_inv", "tetrads", "tetrads_inv", "root", "mirex", "majmin",
             "majmin_inv", "sevenths", "sevenths_inv"]


def exp_chord(args, kw):
    ri, rl, ei, el = args
    ei, el = util.adjust_intervals(ei, el, ri.min(), ri.max(), chord.NO_CHORD, chord.NO_CHORD)
    mr = chord.merge_chord_intervals(ri, rl)
    me = chord.merge_chord_intervals(ei, el)
    iv, rl2, el2 = util.merge_labeled_intervals(ri, rl, ei, el)
    dur = util.intervals_to_durations(iv)
    o = collections.OrderedDict()
    for f in CHORD_FNS:
        o[f] = chord.weighted_accuracy(getattr(chord, f)(rl2, el2), dur)
    o["underseg"] = chord.underseg(mr, me)
    o["overseg"] = chord.overseg(mr, me)
    o["seg"] = min(o["overseg"], o["underseg"])
    return o


def exp_pattern(args, kw):
    o = collections.OrderedDict()
    put(o, ["F", "P", "R"], direct(pattern.standard_FPR, args, kw))
    put(o, ["F_est", "P_est", "R_est"], direct(pattern.establishment_FPR, args, kw))
    put(o, ["F_occ.5", "P_occ.5", "R_occ.5"], direct(pattern.occurrence_FPR, args, kw, {"thres": 0.5}))
    put(o, ["F_occ.75", "P_occ.75", "R_occ.75"], direct(pattern.occurrence_FPR, args, kw, {"thres": 0.75}))
    put(o, ["F_3", "P_3", "R_3"], direct(pattern.three_layer_FPR, args, kw))
    kwn = dict(kw)
    kwn.setdefault("n", 5)
    put(o, ["FFP"], direct(pattern.first_n_three_layer_P, args, kwn))
    put(o, ["FFTP_est"], direct(pattern.first_n_target_proportion_R, args, kwn))
    return o


def exp_hierarchy(args, kw):
    ri, rl, ei, el = args
    _, t_end = hierarchy._hierarchy_bounds(ri)
    ri, rl = hierarchy._align_intervals(ri, rl, t_min=0.0, t_max=None)
    ei, el = hierarchy._align_intervals(ei, el, t_min=0.0, t_max=t_end)
    o = collections.OrderedDict()
    put(o, ["T-Precision reduced", "T-Recall reduced", "T-Measure reduced"],
        direct(hierarchy.tmeasure, (ri, ei), kw, {"transitive": False}))
    put(o, ["T-Precision full", "T-Recall full", "T-Measure full"],
        direct(hierarchy.tmeasure, (ri, ei), kw, {"transitive": True}))
    put(o, ["L-Precision", "L-Recall", "L-Measure"], direct(hierarchy.lmeasure, (ri, rl, ei, el), kw))
    return o


# ------------------------------------------------------------------------------------------ panels
def ev(*x):
    return lambda: A(x, dtype=float)


def iv(*x):
    return lambda: A(x, dtype=float).reshape(-1, 2)


def ls(*x):
    return lambda: list(x)


def frames(*x):
    return lambda: [A(f, dtype=float) for f in x]


def const(x):
    return lambda: x


def hier(*levels):
    return lambda: [A(l, dtype=float).reshape(-1, 2) for l in levels]


def hlab(*levels):
    return lambda: [list(l) for l in levels]


def pat(*patterns):
    return lambda: [[list(map(tuple, occ)) for occ in p] for p in patterns]


def panels(phase):
    sh = phase / 4.0
    P = {}
    b = lambda *k: ev(*[5.0 + sh + v for v in k])  # noqa
    P["beat"] = [
        (b(), b()), (b(), b(0, .5, 1)), (b(0, .5), b()), (b(0), b(0)),
        (b(0, .5, 1, 1.5, 2, 2.5), b(0, .5, 1, 1.5, 2, 2.5)),
        (b(0, .5, 1, 1.5, 2, 2.5), b(0, .5625, 1, 1.5, 2.125)),
        (b(0, .5, 1, 1.5, 2, 2.5, 3), b(.25, .75, 1.25, 1.75, 2.25)),
        (ev(4.5 + sh, 4.75 + sh, 5.0 + sh, 5.5 + sh, 6.0 + sh, 6.5 + sh), ev(4.875 + sh, 5.0625 + sh, 5.5 + sh, 6.0 + sh)),
        (b(0, .4375, 1, 1.5625, 2), b(0, .25, .5, 1, 1.25, 1.5, 2)),
        (b(0, 0, .5), b(0, .5, .5)),
    ]
    o = lambda *k: ev(*[sh + v for v in k])  # noqa
    P["onset"] = [(o(), o()), (o(), o(0, 1)), (o(0), o()), (o(0, .5, 1), o(.0625, .5, 2)), (o(0, .5, 1), o(.125, .625)),
                  (o(0, 0, 1), o(0, 1, 1))]
    P["tempo"] = [(ev(60, 120), const(.25), ev(64, 120)), (ev(60, 120), const(0.0), ev(120, 60)),
                  (ev(0, 120), const(.5), ev(0, 125)), (ev(72, 144), const(1.0), ev(64, 150)),
                  (ev(60, 180), const(.5), ev(66, 190)),
                  # tempi listed fast-first (order is free) with an asymmetric weight: exactly one reference tempo hit
                  (ev(120, 60), const(.25), ev(120, 200)), (ev(140, 70), const(.75), ev(35, 70)),
                  (ev(60, 120), const(.25), ev(200, 60))]
    P["key"] = [(const("C major"), const("c major")), (const("C major"), const("G major")),
                (const("A minor"), const("C major")), (const("X"), const("x")), (const("Db other"), const("C# minor"))]
    P["alignment"] = [(o(.5), o(.5)), (o(.5, 1, 2), o(.5, 1.25, 2.5)), (o(0, 1, 2, 3), o(.25, 1.3125, 2, 3.5)),
                      (o(1, 2), o(2, 3))]
    hz = 220.0 * 2 ** (phase / 12.0)
    P["melody"] = [
        (ev(0, .25, .5, .75), ev(0, hz, hz, 0), ev(0, .25, .5, .75), ev(0, hz, -hz * 1.03, hz / 2), const(None), const(None)),
        (ev(0, .25, .5, .75), ev(0, hz, hz, 0), ev(.125, .375, .625), ev(hz, 0, hz * 1.029), const(None), const(None)),
        (ev(0, .25, .5, .75), ev(0, hz, hz, 0), ev(0, .25, .5, .75), ev(0, hz, -hz * 1.03, hz / 2),
         ev(.5, 1, .5, 1), ev(1, .5, 1, 1)),
        (ev(0, .25, .5, .75), ev(0, 0, 0, 0), ev(0, .25, .5), ev(hz, 0, hz), const(None), const(None)),
        (ev(.25, .5, .75, 1.0), ev(hz, hz * 2, hz, hz), ev(0, .5, 1.0, 1.5), ev(hz, hz, 0, hz), const(None), const(None)),
        # estimate on its own time base with a pitch that moves between samples: at t=.25 linear interpolation
        # gives 48 cents (hit), nearest / zero-order hold give 60 cents (miss) - the `kind` keyword is observable
        (ev(0, .25, .5, .75), ev(hz, hz, hz, hz), ev(0, .2, .45, .7),
         ev(hz, hz * 2 ** (60 / 1200.0), hz, hz * 2 ** (60 / 1200.0)), const(None), const(None)),
    ]
    P["multipitch"] = [
        (ev(0, .25, .5), frames([440, 660], [], [220]), ev(0, .25, .5), frames([440], [330], [220, 440])),
        (ev(0, .25, .5), frames([440, 660], [], [220]), ev(.125, .375), frames([440], [226])),
        (ev(0, .25), frames([440], [220]), ev(), frames()),
        (ev(), frames(), ev(0, .25), frames([440], [220])),
        (ev(0, .25, .5), frames([440, 453], [880], [220]), ev(0, .25, .5), frames([446.5], [440], [])),
    ]
    ni = lambda *x: iv(*[(a + sh, c + sh) for a, c in x])  # noqa
    P["transcription"] = [
        (ni(), ev(), ni(), ev()), (ni(), ev(), ni((0, .5)), ev(440)), (ni((0, .5)), ev(440), ni(), ev()),
        (ni((0, .5), (.5, 1), (1, 2)), ev(440, 220, 330), ni((.04, .5), (.5, 1.25), (1.5, 2)), ev(442, 220, 330)),
        (ni((0, .5), (.5, 1), (1, 2)), ev(440, 220, 330), ni((.05, .56), (.56, 1.0), (1.06, 2.3)), ev(440, 226, 330)),
        (ni((0, 1), (0, 1)), ev(440, 440), ni((0, 1.2)), ev(440)),
    ]
    P["transcription_velocity"] = [
        (ni(), ev(), ev(), ni(), ev(), ev()),
        (ni((0, .5), (.5, 1), (1, 2)), ev(440, 220, 330), ev(64, 100, 30), ni((.04, .5), (.5, 1.25), (1.5, 2)),
         ev(442, 220, 330), ev(60, 90, 30)),
        (ni((0, .5), (.5, 1), (1, 2)), ev(440, 220, 330), ev(64, 100, 30), ni((.05, .56), (.56, 1.0), (1.06, 2.3)),
         ev(440, 226, 330), ev(20, 127, 30)),
        (ni((0, .5)), ev(440), ev(64), ni(), ev(), ev()),
    ]
    P["segment"] = [
        (iv((0, 1), (1, 2.5), (2.5, 4)), ls("a", "b", "a"), iv((0, 1.5), (1.5, 4)), ls("x", "Y")),
        (iv((0, 1), (1, 2.5), (2.5, 4)), ls("a", "b", "a"), iv((.5, 2), (2, 5)), ls("x", "y")),
        (iv((0, 1), (1, 2.5), (2.5, 4)), ls("a", "b", "a"), iv((0, 1), (1, 4), (4, 6)), ls("x", "y", "z")),
        (iv((0, 4)), ls("a"), iv((0, 1), (1, 2), (2, 3), (3, 4)), ls("a", "b", "c", "d")),
        (iv((0, 1), (1, 2.5), (2.5, 4)), ls("a", "b", "a"), iv(), ls()),
        (iv((0, 2), (2, 10)), ls("A", "a"), iv((0, 5.25), (5.25, 10)), ls("q", "r")),
    ]
    P["chord"] = [
        (iv((0, 1), (1, 2), (2, 3)), ls("C:maj", "G:7/3", "N"), iv((0, 1.5), (1.5, 3)), ls("C", "G:maj(9)")),
        (iv((0, 1), (1, 2), (2, 3)), ls("C:maj", "G:7/3", "N"), iv((.5, 2), (2, 5)), ls("C", "G")),
        (iv((1, 2), (2, 3)), ls("A:min7", "X"), iv((0, 1), (1, 3)), ls("A:min", "D:sus4")),
        (iv((0, 1), (1, 2)), ls("C", "C:maj"), iv((0, 2)), ls("B#")),
        (iv((0, 1), (1, 2)), ls("N", "X"), iv((0, 2)), ls("N")),
        (iv((0, 1), (1, 2), (2, 3)), ls("C:maj", "G:7/3", "N"), iv(), ls()),
    ]
    o1 = ((0.0 + sh, 60.0), (0.5 + sh, 62.0), (1.0 + sh, 64.0), (1.5 + sh, 65.0))
    o2 = tuple((t + 4.0, p) for t, p in o1)
    o3 = o1[:3]
    o4 = tuple((t, p + 5.0) for t, p in o1)
    o5 = ((9.0 + sh, 70.0), (9.5 + sh, 71.0))
    o6 = (o1[0], o1[1], (2.0 + sh, 70.0), (2.5 + sh, 71.0))       # shares 2 of 4 notes with o1: cardinality 0.5
    P["pattern"] = [
        (pat(), pat()), (pat(), pat([o1])), (pat([o1]), pat()),
        (pat([o1, o2], [o3]), pat([o2], [o3, o1])),
        (pat([o1, o2], [o5]), pat([o3], [o4], [o5, o1])),
        (pat([o1], [o2]), pat([o1])),
        (pat([o1]), pat([o3], [o4], [o5], [o2], [o1], [o1, o2])),
        (pat([o1, o2]), pat([o6, o2], [o3])),
        (pat([o1], [o5]), pat([o6])),
    ]
    P["hierarchy"] = [
        (hier([(0, 4)], [(0, 2), (2, 4)]), hlab(["a"], ["b", "c"]), hier([(0, 4)], [(0, 1), (1, 4)]), hlab(["a"], ["b", "b"])),
        (hier([(0, 4)], [(0, 2), (2, 4)], [(0, 1), (1, 2), (2, 3), (3, 4)]), hlab(["a"], ["b", "c"], ["d", "e", "d", "e"]),
         hier([(0, 4)], [(0, 1), (1, 3), (3, 4)]), hlab(["a"], ["x", "y", "x"])),
        (hier([(0, 4)], [(0, 2), (2, 4)]), hlab(["a"], ["b", "c"]), hier([(0, 6)], [(0, 3), (3, 6)]), hlab(["a"], ["b", "c"])),
        (hier([(0, 4)]), hlab(["a"]), hier([(0, 4)], [(0, 2), (2, 4)]), hlab(["a"], ["b", "b"])),
        # longer than the default 15 s T-measure window: window=None (whole track) differs from the default
        (hier([(0, 20)], [(0, 8), (8, 20)], [(0, 4), (4, 8), (8, 14), (14, 20)]),
         hlab(["a"], ["b", "c"], ["d", "e", "f", "g"]),
         hier([(0, 20)], [(0, 5), (5, 20)], [(0, 5), (5, 12), (12, 20)]), hlab(["a"], ["x", "y"], ["p", "q", "r"])),
    ]
    return P


KW = {
    "beat": {"min_beat_time": 5.5, "f_measure_threshold": 0.125, "cemgil_sigma": 0.1, "goto_threshold": 0.2,
             "goto_mu": 0.1, "goto_sigma": 0.1, "p_score_threshold": 0.1, "continuity_phase_threshold": 0.3,
             "continuity_period_threshold": 0.1, "bins": 5},
    "onset": {"window": 0.125},
    "tempo": {"tol": 0.125},
    "key": {},
    "alignment": {"window": 0.25, "duration": 4.0},
    "melody": {"cent_tolerance": 60, "hop": 0.125, "base_frequency": 20.0, "kind": "nearest"},
    "multipitch": {"window": 0.25},
    "transcription": {"onset_tolerance": 0.0625, "pitch_tolerance": 30.0, "offset_ratio": 0.5,
                      "offset_min_tolerance": 0.25, "strict": True, "beta": 2.0},
    "transcription_velocity": {"onset_tolerance": 0.0625, "pitch_tolerance": 30.0, "offset_ratio": 0.5,
                               "offset_min_tolerance": 0.25, "strict": True, "beta": 2.0, "velocity_tolerance": 0.3},
    "segment": {"frame_size": 0.5, "beta": 2.0, "trim": True, "marginal": True, "window": 1.0},
    "chord": {},
    "pattern": {"n": 1, "thres": 0.6, "tol": 1.0, "similarity_metric": "cardinality_score"},
    "hierarchy": {"frame_size": 0.5, "window": 2.0, "beta": 2.0, "transitive": True},
}
EXTRA = {"transcription": [{"offset_ratio": None}, {"offset_ratio": None, "strict": True}],
         "transcription_velocity": [{"offset_ratio": None}],
         "pattern": [{"n": 5}, {"n": 2, "thres": 0.5}],
         # None is a documented value (window=None: the whole track), not "keyword absent"
         "hierarchy": [{"window": None}, {"window": None, "frame_size": 0.5}]}

EVAL = {"beat": beat.evaluate, "onset": onset.evaluate, "tempo": tempo.evaluate, "key": key.evaluate,
        "alignment": alignment.evaluate, "melody": melody.evaluate, "multipitch": multipitch.evaluate,
        "transcription": transcription.evaluate, "transcription_velocity": transcription_velocity.evaluate,
        "segment": segment.evaluate, "chord": chord.evaluate, "pattern": pattern.evaluate,
        "hierarchy": hierarchy.evaluate}
EXP = {"beat": exp_beat, "onset": exp_onset, "tempo": exp_tempo, "key": exp_key, "alignment": exp_alignment,
       "melody": exp_melody, "multipitch": exp_multipitch, "transcription": exp_transcription,
       "transcription_velocity": exp_velocity, "segment": exp_segment, "chord": exp_chord, "pattern": exp_pattern,
       "hierarchy": exp_hierarchy}


def kw_subsets(task, tier):
    uni = dict(KW[task])
    uni["__bogus__"] = 1
    names = sorted(uni)
    out = [{}]
    for r in range(1, (3 if tier == "thorough" else 2) + 1):
        for c in itertools.combinations(names, r):
            out.append({k: uni[k] for k in c})
    out += EXTRA.get(task, [])
    return out


def same(a, b):
    fa, fb = float(a), float(b)
    if fa != fa and fb != fb:
        return True
    return fa == fb


def is_real_scalar(v):
    if isinstance(v, bool):
        return True
    if isinstance(v, numbers.Real):
        return True
    if isinstance(v, np.generic) and np.ndim(v) == 0 and np.issubdtype(v.dtype, np.number):
        return True
    if isinstance(v, np.bool_):
        return True
    return False


def check_bundle(acc, task, phase, idx, kw, prev=None):
    makers = panels(phase)[task][idx]
    case = {"kind": "bundle", "task": task, "phase": phase, "panel": idx, "kw": kw}
    if prev is not None:
        case = {"kind": "after", "prev": prev, "task": task, "phase": phase, "panel": idx, "kw": kw}
    site = "%s.evaluate" % task
    with warnings.catch_warnings():
        warnings.simplefilter("ignore")
        exp_exc = None
        try:
            want = EXP[task](tuple(m() for m in makers), dict(kw))
        except Exception as ex:  # noqa  (direct call of a public function raised: evaluate must raise alike)
            want, exp_exc = None, ex
        acc.transitions += 1
        acc.conform += 1
        try:
            args = tuple(m() for m in makers)
            if task == "melody":
                got = EVAL[task](*args[:4], est_voicing=args[4], ref_reward=args[5], **dict(kw))
            else:
                got = EVAL[task](*args, **dict(kw))
        except Exception as ex:  # noqa
            if exp_exc is not None and type(ex) is type(exp_exc):
                acc.counters["both_raise_same_type"] += 1
                return
            acc.violation("bundle-value", site, case, observed="raised %s: %s" % (type(ex).__name__, ex),
                          expected=("raises %s" % type(exp_exc).__name__) if exp_exc else "a mapping")
            return
    if exp_exc is not None:
        acc.violation("bundle-value", site, case, observed="returned a mapping",
                      expected="direct call raises %s: %s" % (type(exp_exc).__name__, exp_exc))
        return
    acc.outcome(tuple(got.keys()))
    if list(got.keys()) != list(want.keys()):
        acc.violation("key-set", site, case, observed=list(got.keys()), expected=list(want.keys()))
        return
    for k in want:
        if not is_real_scalar(got[k]):
            acc.violation("real-scalar", site, case, observed={k: repr(got[k])[:80]}, expected="real scalar")
            return
        if not is_real_scalar(want[k]):
            acc.violation("real-scalar", "%s (direct call)" % site, case, observed={k: repr(want[k])[:80]},
                          expected="real scalar")
            return
    for k in want:
        if not same(got[k], want[k]):
            acc.violation("bundle-value", site, case, observed={k: float(got[k])}, expected={k: float(want[k])})
            return


def shard(arg):
    task, phase, tier, idxs = arg
    acc = core.Acc(PID)
    subsets = kw_subsets(task, tier)
    for idx in idxs:
        for kw in subsets:
            acc.states += 1
            if kw:
                acc.nontrivial += 1
            acc.tick({"kind": "bundle", "task": task, "phase": phase, "panel": idx, "kw": kw})
            check_bundle(acc, task, phase, idx, kw)
    acc.sample({"kind": "bundle", "task": task, "phase": phase, "panel": idxs[0], "kw": subsets[-1]})
    return acc


# ------------------------------------------------------------------------------------------ bundles after a history
# "Start from non-initial states": the same bundle oracle after ONE other task's evaluate() has run in the process
# (forwarding helpers shared between the task modules - util.filter_kwargs - must not remember the previous callee).
# Every history starts from the module state as imported: module-level containers are restored and functools caches
# cleared, so a verdict never depends on which shard ran before in this worker.
_MODS = [alignment, beat, chord, hierarchy, key, melody, multipitch, onset, pattern, segment, tempo, transcription,
         transcription_velocity, util]


def _snapshot():
    import copy
    return {(m, n): copy.deepcopy(v) for m in _MODS for n, v in list(vars(m).items())
            if not n.startswith("__") and isinstance(v, (dict, list, set))}


_SNAP = _snapshot()


def _reset_modules():
    import copy
    for m in _MODS:
        for n, v in list(vars(m).items()):
            if n.startswith("__"):
                continue
            if isinstance(v, (dict, list, set)):
                if (m, n) not in _SNAP:
                    delattr(m, n)
                    continue
                if v != _SNAP[(m, n)]:
                    v.clear()
                    (v.extend if isinstance(v, list) else v.update)(copy.deepcopy(_SNAP[(m, n)]))
            elif callable(getattr(v, "cache_clear", None)):
                v.cache_clear()


PRELUDE_PANEL = {"hierarchy": 1}      # a short non-trivial panel (the last hierarchy panel is the 20 s track)


def run_prelude(prev, phase):
    makers = panels(phase)[prev][PRELUDE_PANEL.get(prev, -1)]
    with warnings.catch_warnings():
        warnings.simplefilter("ignore")
        try:
            args = tuple(m() for m in makers)
            if prev == "melody":
                EVAL[prev](*args[:4], est_voicing=args[4], ref_reward=args[5])
            else:
                EVAL[prev](*args)
        except Exception:  # noqa  (the prelude's own result is another state's business)
            pass


def kw_singletons(task):
    return [{}] + [{k: v} for k, v in sorted(KW[task].items())]


def shard_after(arg):
    prev, phase, tier = arg
    acc = core.Acc(PID)
    pan = panels(phase)
    for task in sorted(pan):
        if task == prev:
            continue
        for idx in range(len(pan[task])):
            for kw in kw_singletons(task):
                acc.states += 1
                acc.nontrivial += 1
                case = {"kind": "after", "prev": prev, "task": task, "phase": phase, "panel": idx, "kw": kw}
                acc.tick(case)
                acc.counters["bundles_after_another_evaluate"] += 1
                _reset_modules()
                run_prelude(prev, phase)
                acc.transitions += 1
                check_bundle(acc, task, phase, idx, kw, prev=prev)
    _reset_modules()
    return acc


def replay(case, acc):
    if case.get("kind") == "after":
        _reset_modules()
        run_prelude(case["prev"], case["phase"])
        check_bundle(acc, case["task"], case["phase"], case["panel"], case["kw"], prev=case["prev"])
        return
    check_bundle(acc, case["task"], case["phase"], case["panel"], case["kw"])


def run(run):
    run.rule = ("per task: every panel input x every subset of size <=2 (thorough <=3) of the keyword parameters of "
                "the underlying functions (one in-range non-default value each) + an unrelated keyword; "
                "non-trivial = at least one keyword given")
    run.assumptions = [
        "the expected bundle calls the library's own public metric and pre-processing functions directly "
        "(a defect inside them shows under C04/C13/C14, not here); forwarding is decided with inspect.signature",
        "separation.evaluate is documented to return lists per source and is covered by C19, not here",
        "transcription*.evaluate(offset_ratio=None) documents/implements a reduced key set; accepted as coded",
    ]
    pan = panels(run.phase)
    shards = []
    for task in sorted(pan):
        for i in range(len(pan[task])):
            shards.append((task, run.phase, run.tier, [i]))
    run.explore("evaluate bundles (13 tasks)", __name__, "shard", shards)
    run.explore("bundles after one other task's evaluate() (13 x 12 ordered pairs, keyword subsets of size <= 1)",
                __name__, "shard_after", [(prev, run.phase, run.tier) for prev in sorted(pan)])
    run.require_nonvacuous("bundles_after_another_evaluate")
