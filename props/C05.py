"""C05 - hit counts come from a valid, maximum one-to-one matching.

Spaces (all enumerated completely, nothing sampled):
  graphs   every bipartite graph with |U|<=4,|V|<=5 (thorough: <=5x5) through util._bipartite_match
  orders   every graph <=3x3 under every key insertion order x neighbour-list order (+ empty-list keys)
  events   util.match_events on all pairs of event multisets over a dyadic lattice x windows x input orders
  chroma   the distance=_outer_distance_mod_n path on a quarter-semitone lattice incl. wrap pairs
  notes    transcription.match_notes / match_note_onsets / match_note_offsets / velocity.match_notes
  mpframe  multipitch.compute_num_true_positives per frame
Oracle: returned pairing in range, one-to-one, every pair satisfies the exact predicate,
size == brute-force maximum (bitmask DP); identical size under every input order.
"""
import itertools
import math
from fractions import Fraction as Fr

import numpy as np

from mc import core, lib

PID = "C05"
LEVEL = "model_checking"

import mir_eval
from mir_eval import util, transcription, transcription_velocity, multipitch


# --------------------------------------------------------------------------- graphs
def _graph_dict(nu, nv, rows, key_order=None, nbr_desc=False, empty_keys=False):
    g = {}
    for u in (key_order if key_order is not None else range(nu)):
        nb = [v for v in range(nv) if rows[u] >> v & 1]
        if nbr_desc:
            nb.reverse()
        if nb or empty_keys:
            g[u] = nb
    return g


def check_graph(acc, nu, nv, rows, key_order=None, nbr_desc=False, empty_keys=False, nbr_perm=None):
    g = _graph_dict(nu, nv, rows, key_order, nbr_desc, empty_keys)
    if nbr_perm is not None:
        # explicit neighbour-list permutation index per key (<=3 neighbours)
        for u in list(g):
            perms = list(itertools.permutations(g[u]))
            g[u] = list(perms[nbr_perm % len(perms)])
    expect = lib.max_matching(rows, nv)
    acc.transitions += 1
    acc.conform += 1
    case = None
    try:
        m = util._bipartite_match({k: list(v) for k, v in g.items()})
        items = list(m.items())
        why = None
        seen_u = set()
        for v, u in items:
            if not (0 <= u < nu and 0 <= v < nv):
                why = "vertex out of range (%r,%r)" % (u, v)
            elif not (rows[u] >> v & 1):
                why = "pair (u=%d,v=%d) is not an edge" % (u, v)
            elif u in seen_u:
                why = "u=%d matched twice" % u
            seen_u.add(u)
        size = len(items)
    except Exception as e:  # noqa
        why, size, m = "raised %s: %s" % (type(e).__name__, e), None, None
    acc.outcome((nu, nv, size))
    if why is not None or size != expect:
        case = {"kind": "graph", "nu": nu, "nv": nv, "rows": list(rows), "key_order": key_order,
                "nbr_desc": nbr_desc, "empty_keys": empty_keys, "nbr_perm": nbr_perm}
        if why is not None:
            acc.violation("valid-pairing", "util._bipartite_match", case, observed=why)
        else:
            acc.violation("maximum", "util._bipartite_match", case, observed=size, expected=expect)


def shard_graphs(arg):
    nu, nv, lo, hi, max_edges = arg
    acc = core.Acc(PID)
    mask = (1 << nv) - 1
    for code in range(lo, hi):
        if max_edges is not None and bin(code).count("1") > max_edges:
            continue
        rows = [(code >> (u * nv)) & mask for u in range(nu)]
        acc.states += 1
        acc.tick(lambda: {"kind": "graph", "nu": nu, "nv": nv, "rows": rows})
        ne = bin(code).count("1")
        if ne >= 2:
            acc.nontrivial += 1
        check_graph(acc, nu, nv, rows)
        if code == lo and lo > 0:
            acc.sample({"kind": "graph", "nu": nu, "nv": nv, "rows": rows})
    return acc


def shard_orders(arg):
    nu, nv = arg
    acc = core.Acc(PID)
    mask = (1 << nv) - 1
    for code in range(1 << (nu * nv)):
        rows = [(code >> (u * nv)) & mask for u in range(nu)]
        for key_order in itertools.permutations(range(nu)):
            for nbr_perm in range(6 if nv >= 3 else (2 if nv == 2 else 1)):
                for empty_keys in (False, True):
                    acc.states += 1
                    acc.nontrivial += 1
                    acc.tick(lambda: {"kind": "graph", "nu": nu, "nv": nv, "rows": rows,
                                      "key_order": list(key_order), "empty_keys": empty_keys,
                                      "nbr_perm": nbr_perm})
                    check_graph(acc, nu, nv, rows, list(key_order), False, empty_keys, nbr_perm)
    return acc


# --------------------------------------------------------------------------- events
def check_events(acc, ref, est, window, chroma=False, site=None, dtypes=("float", "float")):
    """ref/est: lists of floats in the order supplied to the library; dtypes: element types of the two arrays
    (whole-second annotations may arrive integer-typed)."""
    r = np.array(ref, dtype=dtypes[0])
    e = np.array(est, dtype=dtypes[1])
    w = Fr(window)
    if chroma:
        def pred(i, j):
            a = Fr(ref[i]) % 12
            b = Fr(est[j]) % 12
            d = abs(a - b)
            return min(d, 12 - d) <= w
        site = site or "util.match_events[mod12]"
    else:
        def pred(i, j):
            return abs(Fr(ref[i]) - Fr(est[j])) <= w
        site = site or "util.match_events"
    expect = lib.max_matching_pred(len(ref), len(est), pred)
    acc.transitions += 1
    acc.conform += 1
    try:
        if chroma:
            m = util.match_events(r, e, window, distance=util._outer_distance_mod_n)
        else:
            m = util.match_events(r, e, window)
        why = lib.check_pairing(m, len(ref), len(est), pred)
        size = len(m)
    except Exception as ex:  # noqa
        why, size = "raised %s: %s" % (type(ex).__name__, ex), None
    acc.outcome((len(ref), len(est), size))
    if why is not None or size != expect:
        case = {"kind": "events", "ref": list(ref), "est": list(est), "window": window, "chroma": chroma,
                "dtypes": list(dtypes)}
        if why is not None:
            acc.violation("valid-pairing", site, case, observed=why)
        else:
            acc.violation("maximum", site, case, observed=size, expected=expect)
    return expect


def _orders(t, mode):
    """Input orders of a tuple: 'all' permutations (distinct), or sorted+reversed."""
    if mode == "all" and len(t) <= 4:
        return sorted(set(itertools.permutations(t)))
    if len(t) >= 2 and t[0] != t[-1]:
        return [t, tuple(reversed(t))]
    return [t]


def shard_events(arg):
    refs, ests, windows, mode, chroma = arg[:5]
    dtypes = tuple(arg[5]) if len(arg) > 5 else ("float", "float")
    acc = core.Acc(PID)
    for ref in refs:
        for est in ests:
            for w in windows:
                acc.states += 1
                acc.tick(lambda: {"kind": "events", "ref": list(ref), "est": list(est), "window": w,
                                  "chroma": chroma})
                if len(ref) >= 2 and len(est) >= 2:
                    acc.nontrivial += 1
                # exact-threshold counter (input side)
                if any(abs(Fr(a) - Fr(b)) == Fr(w) for a in ref for b in est):
                    acc.counters["events.distance_exactly_window"] += 1
                if len(set(ref)) < len(ref) or len(set(est)) < len(est):
                    acc.counters["events.duplicates"] += 1
                # all orders of the reference with the estimate sorted, and vice versa
                if dtypes != ("float", "float"):
                    acc.counters["events.integer_typed_side"] += 1
                for ro in _orders(ref, mode):
                    check_events(acc, ro, est, w, chroma, dtypes=dtypes)
                for eo in _orders(est, mode)[1:]:
                    check_events(acc, ref, eo, w, chroma, dtypes=dtypes)
    if refs and ests:
        acc.sample({"kind": "events", "ref": list(refs[-1]), "est": list(ests[-1]), "window": windows[0],
                    "chroma": chroma})
    return acc


# --------------------------------------------------------------------------- notes
def note_alphabet(tier):
    f0 = 440.0
    pitches = [f0, f0 * 2 ** (49 / 1200.0), f0 * 2 ** (51 / 1200.0), 2 * f0]
    pitches = pitches[:3]
    onsets = [0.0, 0.05, 0.06]
    durs = [0.25, 1.0]
    notes = []
    for on in onsets:
        for d in durs:
            for p in pitches:
                notes.append((on, round(on + d, 10), p))
    # 18 notes: onset gaps 0.05 (exactly the tolerance), 0.06, 0.01; offset gaps likewise.  Plus notes whose OFFSET
    # distance to a lattice note is exactly the offset tolerance while onset and pitch are strictly inside
    # (ref [0,1] tol 0.2 vs est [0,1.2] / [0,0.8]; ref [0,.25] tol .05 vs est [0,.30]) - decides strict on the
    # offset criterion alone
    notes += [(0.0, 0.3, pitches[0]), (0.0, 1.2, pitches[0]), (0.0, 0.8, pitches[1]), (0.04, 0.29, pitches[0])]
    return notes


def _cents(p, q):
    return 1200.0 * abs(math.log2(p) - math.log2(q))


def note_pred(ref, est, onset_tol, pitch_tol, offset_ratio, offset_min, strict, use_onset=True,
              use_pitch=True, use_offset=True):
    cmp_ = (lambda a, b: a < b) if strict else (lambda a, b: a <= b)

    def pred(i, j):
        r, e = ref[i], est[j]
        if use_onset and not cmp_(lib.d4(abs(Fr(r[0]) - Fr(e[0]))), onset_tol):
            return False
        if use_pitch and not cmp_(_cents(r[2], e[2]), pitch_tol):
            return False
        if use_offset and offset_ratio is not None:
            tol = max(offset_ratio * (r[1] - r[0]), offset_min)
            if not cmp_(lib.d4(abs(Fr(r[1]) - Fr(e[1]))), tol):
                return False
        return True
    return pred


def pitch_near_threshold(ref, est, pitch_tol):
    for r in ref:
        for e in est:
            if abs(_cents(r[2], e[2]) - pitch_tol) < 1e-6:
                return True
    return False


NOTE_FNS = ("match_notes", "match_note_onsets", "match_note_offsets", "velocity.match_notes")


def check_notes(acc, fn, ref, est, onset_tol, pitch_tol, offset_ratio, offset_min, strict, vel_tol=0.1):
    """ref/est: list of (onset, offset, pitch[, velocity])."""
    ri = np.array([[n[0], n[1]] for n in ref], dtype=float).reshape(-1, 2)
    ei = np.array([[n[0], n[1]] for n in est], dtype=float).reshape(-1, 2)
    rp = np.array([n[2] for n in ref], dtype=float)
    ep = np.array([n[2] for n in est], dtype=float)
    case = lambda: {"kind": "notes", "fn": fn, "ref": [list(n) for n in ref], "est": [list(n) for n in est],  # noqa
                    "onset_tol": onset_tol, "pitch_tol": pitch_tol, "offset_ratio": offset_ratio,
                    "offset_min": offset_min, "strict": strict, "vel_tol": vel_tol}
    if fn in ("match_notes", "velocity.match_notes") and pitch_near_threshold(ref, est, pitch_tol):
        acc.counters["notes.pitch_near_threshold_excluded"] += 1
        return
    acc.transitions += 1
    acc.conform += 1
    site = "transcription." + fn if not fn.startswith("velocity") else "transcription_velocity.match_notes"
    try:
        if fn == "match_notes":
            pred = note_pred(ref, est, onset_tol, pitch_tol, offset_ratio, offset_min, strict)
            m = transcription.match_notes(ri, rp, ei, ep, onset_tolerance=onset_tol, pitch_tolerance=pitch_tol,
                                          offset_ratio=offset_ratio, offset_min_tolerance=offset_min,
                                          strict=strict)
        elif fn == "match_note_onsets":
            pred = note_pred(ref, est, onset_tol, pitch_tol, None, offset_min, strict, use_pitch=False,
                             use_offset=False)
            m = transcription.match_note_onsets(ri, ei, onset_tolerance=onset_tol, strict=strict)
        elif fn == "match_note_offsets":
            if offset_ratio is None:
                return
            pred = note_pred(ref, est, onset_tol, pitch_tol, offset_ratio, offset_min, strict,
                             use_onset=False, use_pitch=False)
            m = transcription.match_note_offsets(ri, ei, offset_ratio=offset_ratio,
                                                 offset_min_tolerance=offset_min, strict=strict)
        else:
            pred = note_pred(ref, est, onset_tol, pitch_tol, offset_ratio, offset_min, strict)
            rv = np.array([n[3] for n in ref], dtype=float)
            ev = np.array([n[3] for n in est], dtype=float)
            m = transcription_velocity.match_notes(ri, rp, rv, ei, ep, ev, onset_tolerance=onset_tol,
                                                   pitch_tolerance=pitch_tol, offset_ratio=offset_ratio,
                                                   offset_min_tolerance=offset_min, strict=strict,
                                                   velocity_tolerance=vel_tol)
        why = lib.check_pairing(m, len(ref), len(est), pred)
        size = len(m)
    except Exception as ex:  # noqa
        acc.violation("valid-pairing", site, case(), observed="raised %s: %s" % (type(ex).__name__, ex))
        return
    expect = lib.max_matching_pred(len(ref), len(est), pred)
    acc.outcome((fn, len(ref), len(est), size))
    if why is not None:
        acc.violation("valid-pairing", site, case(), observed=why)
    elif fn == "velocity.match_notes":
        # documented as a filter applied after the note matching: must be a sub-pairing, never larger
        if size > expect:
            acc.violation("maximum", site, case(), observed=size, expected="<= %d" % expect)
        # and with every velocity identical (ref range clamps to 1, error 0) nothing may be filtered
        if len(set(n[3] for n in ref)) <= 1 and len(set(n[3] for n in est)) <= 1 and \
                all(abs(n[3] - ref[0][3]) == 0 for n in est) and ref and ref[0][3] in (0.0, 1.0) and size != expect:
            acc.violation("maximum", site, case(), observed=size, expected=expect)
    elif size != expect:
        acc.violation("maximum", site, case(), observed=size, expected=expect)


def shard_notes(arg):
    refs, ests, tier = arg
    acc = core.Acc(PID)
    configs = []
    for strict in (False, True):
        for offset_ratio in (None, 0.2, 0.5):
            configs.append((0.05, 50.0, offset_ratio, 0.05, strict))
    if tier == "thorough":
        configs += [(0.01, 50.0, 0.2, 0.05, False), (0.05, 1200.0 + 25, 0.2, 0.1, False),
                    (0.1, 25.0, None, 0.05, True)]
    for ref in refs:
        for est in ests:
            for cfg in configs:
                acc.states += 1
                acc.tick(lambda: {"kind": "notes", "fn": "match_notes", "ref": [list(n) for n in ref],
                                  "est": [list(n) for n in est], "onset_tol": cfg[0], "pitch_tol": cfg[1],
                                  "offset_ratio": cfg[2], "offset_min": cfg[3], "strict": cfg[4]})
                if len(ref) >= 2 and len(est) >= 2:
                    acc.nontrivial += 1
                if any(lib.d4(abs(Fr(r[0]) - Fr(e[0]))) == cfg[0] for r in ref for e in est):
                    acc.counters["notes.onset_distance_exactly_tolerance"] += 1
                if cfg[2] is not None and any(
                        lib.d4(abs(Fr(r[1]) - Fr(e[1]))) == max(cfg[2] * (r[1] - r[0]), cfg[3])
                        and lib.d4(abs(Fr(r[0]) - Fr(e[0]))) < cfg[0] for r in ref for e in est):
                    acc.counters["notes.offset_exactly_tolerance_onset_strictly_inside"] += 1
                for fn in ("match_notes", "match_note_onsets", "match_note_offsets"):
                    check_notes(acc, fn, ref, est, *cfg)
                    if len(est) >= 2 and est[0] != est[-1]:
                        check_notes(acc, fn, ref, tuple(reversed(est)), *cfg)
                    if len(ref) >= 2 and ref[0] != ref[-1]:
                        check_notes(acc, fn, tuple(reversed(ref)), est, *cfg)
    return acc


def shard_onset_tolerances(arg):
    """One reference note, one estimated note whose onset distance is k ms (and one 0.1 ms tick either side), for
    every tolerance on the millisecond lattice: the documented rule compares the distance rounded to 4 decimals with
    the tolerance itself, whatever the tolerance's own decimal expansion looks like in binary."""
    acc = core.Acc(PID)
    for k in arg:
        t = k / 1000.0
        for b in (0.0, 1.0):
            for dk in (-1, 0, 1):
                d = (10 * k + dk) / 10000.0
                ref = ((b, b + 1.0, 440.0),)
                for est in (((b + d, b + d + 1.0, 440.0),), ((b + d, b + d + 1.0, 440.0), (b + 2 * t + 0.01, b + 3.0, 440.0))):
                    for tol, strict in ((t, False), (t, True), (t + 5e-5, True), (t + 5e-5, False)):
                        acc.states += 1
                        acc.nontrivial += 1
                        if dk == 0 and tol == t:
                            acc.counters["notes.onset_distance_exactly_tolerance"] += 1
                        for fn in ("match_note_onsets", "match_notes"):
                            check_notes(acc, fn, ref, est, tol, 50.0, None, 0.05, strict)
                            check_notes(acc, fn, est, ref, tol, 50.0, None, 0.05, strict)
    return acc


def shard_velocity(arg):
    refs, ests = arg
    acc = core.Acc(PID)
    vels = (0.0, 40.0, 127.0)
    for ref in refs:
        for est in ests:
            if not ref:
                continue       # velocity matching takes min() of the reference velocities
            for rv in itertools.product(vels, repeat=len(ref)):
                for ev in itertools.product(vels, repeat=len(est)):
                    r = tuple(n + (v,) for n, v in zip(ref, rv))
                    e = tuple(n + (v,) for n, v in zip(est, ev))
                    for strict in (False, True):
                        for vt in (0.1, 0.5):
                            acc.states += 1
                            acc.nontrivial += 1
                            acc.tick(lambda: {"kind": "notes", "fn": "velocity.match_notes",
                                              "ref": [list(n) for n in r], "est": [list(n) for n in e],
                                              "onset_tol": 0.05, "pitch_tol": 50.0, "offset_ratio": 0.2,
                                              "offset_min": 0.05, "strict": strict, "vel_tol": vt})
                            check_notes(acc, "velocity.match_notes", r, e, 0.05, 50.0, 0.2, 0.05, strict, vt)
    return acc


# --------------------------------------------------------------------------- multipitch frames
def shard_mpframe(arg):
    frames_ref, frames_est, windows = arg
    acc = core.Acc(PID)
    for ref in frames_ref:
        for est in frames_est:
            for w in windows:
                for chroma in (False, True):
                    acc.states += 1
                    acc.tick({"kind": "mpframe", "ref": list(ref), "est": list(est), "window": w,
                              "chroma": chroma})
                    if ref and est:
                        acc.nontrivial += 1
                    check_mpframe(acc, ref, est, w, chroma)
    return acc


def check_mpframe(acc, ref, est, w, chroma):
    if chroma:
        rr = [Fr(x) % 12 for x in ref]
        ee = [Fr(x) % 12 for x in est]

        def pred(i, j):
            d = abs(rr[i] - ee[j])
            return min(d, 12 - d) <= Fr(w)
        rin = [np.mod(np.array(ref, dtype=float), 12)]
        ein = [np.mod(np.array(est, dtype=float), 12)]
    else:
        def pred(i, j):
            return abs(Fr(ref[i]) - Fr(est[j])) <= Fr(w)
        rin = [np.array(ref, dtype=float)]
        ein = [np.array(est, dtype=float)]
    expect = lib.max_matching_pred(len(ref), len(est), pred)
    acc.transitions += 1
    acc.conform += 1
    case = {"kind": "mpframe", "ref": list(ref), "est": list(est), "window": w, "chroma": chroma}
    try:
        tp = multipitch.compute_num_true_positives(rin, ein, window=w, chroma=chroma)
        got = float(tp[0])
        ok = (len(tp) == 1)
    except Exception as ex:  # noqa
        acc.violation("valid-pairing", "multipitch.compute_num_true_positives", case,
                      observed="raised %s: %s" % (type(ex).__name__, ex))
        return
    acc.outcome((len(ref), len(est), got))
    if not ok or got != expect:
        acc.violation("maximum", "multipitch.compute_num_true_positives", case, observed=got, expected=expect)


# --------------------------------------------------------------------------- driver
def replay(case, acc):
    k = case["kind"]
    if k == "graph":
        check_graph(acc, case["nu"], case["nv"], case["rows"], case.get("key_order"),
                    case.get("nbr_desc", False), case.get("empty_keys", False), case.get("nbr_perm"))
    elif k == "events":
        check_events(acc, case["ref"], case["est"], case["window"], case.get("chroma", False),
                     dtypes=tuple(case.get("dtypes", ("float", "float"))))
    elif k == "notes":
        check_notes(acc, case["fn"], [tuple(n) for n in case["ref"]], [tuple(n) for n in case["est"]],
                    case["onset_tol"], case["pitch_tol"], case["offset_ratio"], case["offset_min"],
                    case["strict"], case.get("vel_tol", 0.1))
    elif k == "mpframe":
        check_mpframe(acc, case["ref"], case["est"], case["window"], case["chroma"])
    else:
        raise core.HarnessError("unknown case kind %r" % k)


def run(run):
    tier = run.tier
    thorough = tier == "thorough"
    mod = __name__
    run.rule = ("every bipartite graph / event multiset pair / note-set pair of the stated bounds is "
                "enumerated; a state is non-trivial when both sides have >=2 items (graphs: >=2 edges); "
                "each state is distinct by construction (canonical enumeration)")
    run.assumptions = [
        "small-scope hypothesis: matching defects manifest on graphs with <=5x5 vertices and event sets <=6",
        "time lattices are dyadic (exact in binary64); note onsets use the decimal lattice with the documented "
        "4-decimal rounding rule; pitch differences are >=1 cent away from the tolerance (counter "
        "notes.pitch_near_threshold_excluded must be 0)",
        "velocity matching is documented as a filter after note matching: checked as valid sub-pairing, "
        "maximal only when all velocities coincide",
    ]
    # (1) graphs
    shards = []
    umax, vmax = (5, 5) if thorough else (4, 5)
    for nu in range(1, umax + 1):
        for nv in range(1, vmax + 1):
            total = 1 << (nu * nv)
            nsh = 1 if total < 4096 else (64 if total > (1 << 22) else 16)
            step = (total + nsh - 1) // nsh
            for lo in range(0, total, step):
                shards.append((nu, nv, lo, min(total, lo + step), None))
    run.explore("graphs<=%dx%d" % (umax, vmax), mod, "shard_graphs", shards)
    # (1b) orders
    run.explore("graph-orders<=3x3", mod, "shard_orders", [(nu, nv) for nu in (1, 2, 3) for nv in (1, 2, 3)])
    # (2) events
    ph = run.phase
    base = Fr(ph, 4)     # seed phase: shift the whole lattice by ph/4 s (exact)
    pts8 = [float(base + Fr(k, 16)) for k in (0, 1, 2, 3, 4, 5, 6, 8)]
    pts6 = [float(base + Fr(k, 16)) for k in (0, 1, 2, 3, 4, 6)]
    windows = [0.0, 1 / 16.0, 0.07, 1 / 8.0, 3 / 16.0]
    if thorough:
        ms = list(lib.multisets(pts8, 4))
        run.explore("events<=4 over 8pts, all orders", mod, "shard_events",
                    [(ch, ms, windows, "all", False) for ch in core.chunks(ms, 64)])
        ms6 = list(lib.multisets(pts6, 6))
        run.explore("events<=6 over 6pts", mod, "shard_events",
                    [(ch, ms6, windows, "rev", False) for ch in core.chunks(ms6, 64)])
    else:
        ms = list(lib.multisets(pts8, 3))
        run.explore("events<=3 over 8pts, all orders", mod, "shard_events",
                    [(ch, ms, windows, "all", False) for ch in core.chunks(ms, 32)])
        ms6 = list(lib.multisets(pts6, 4))
        run.explore("events<=4 over 6pts", mod, "shard_events",
                    [(ch, ms6, windows, "rev", False) for ch in core.chunks(ms6, 32)])
    # (2a) dense clusters: 5-6 events on each side over 4 adjacent lattice points, so that one estimate can see five or
    # more references inside a single window (candidate lists longer than any of the spaces above produce)
    pts4 = [float(base + Fr(k, 16)) for k in (0, 1, 2, 3)]
    md = list(lib.multisets(pts4, 7 if thorough else 6, 5))
    run.explore("dense events 5-%d over 4pts" % (7 if thorough else 6), mod, "shard_events",
                [(ch, md, windows, "rev", False) for ch in core.chunks(md, 32)])
    # (2b) one side integer-typed (whole seconds), the other on the quarter-second lattice
    zi = list(lib.multisets([float(ph + k) for k in (0, 1, 2)], 3))
    zf = list(lib.multisets([ph + k / 4.0 for k in (0, 1, 2, 3, 4, 6)], 3))
    run.explore("events, integer-typed reference", mod, "shard_events",
                [(ch, zf, [0.25, 0.5, 0.75], "rev", False, ("int64", "float")) for ch in core.chunks(zi, 8)])
    run.explore("events, integer-typed estimate", mod, "shard_events",
                [(ch, zi, [0.25, 0.5, 0.75], "rev", False, ("float", "int64")) for ch in core.chunks(zf, 16)])
    # (3) chroma path
    cpts = [0.0, 0.25, 0.5, 1.0, 6.0, 11.5, 11.75] + ([12.25, 23.75] if thorough else [])
    cms = list(lib.multisets(cpts, 3))
    run.explore("chroma<=3", mod, "shard_events",
                [(ch, cms, [0.25, 0.5, 1.0], "all", True) for ch in core.chunks(cms, 32)])
    # (4) notes
    notes = note_alphabet(tier)
    nsets = list(lib.multisets(notes, 2))
    run.explore("notes<=2 x <=2", mod, "shard_notes", [(ch, nsets, tier) for ch in core.chunks(nsets, 64)])
    if thorough:
        n3 = list(lib.multisets(notes, 3, 3))
        run.explore("notes 3 x <=2", mod, "shard_notes", [(ch, nsets, tier) for ch in core.chunks(n3, 64)])
        run.explore("notes <=2 x 3", mod, "shard_notes", [(nsets, ch, tier) for ch in core.chunks(n3, 64)])
    ks = list(range(1, 151))
    run.explore("onset distance == tolerance, 1..150 ms", mod, "shard_onset_tolerances", core.chunks(ks, 16))
    vnotes = [n for n in notes if n[0] in (0.0, 0.05) and n[1] - n[0] < 0.3 and n[2] in (notes[0][2], notes[1][2])]
    vsets = list(lib.multisets(vnotes, 2))
    run.explore("velocity-notes<=2", mod, "shard_velocity", [(ch, vsets) for ch in core.chunks(vsets, 32)])
    # (5) multipitch frames (MIDI lattice, dyadic)
    # both sides of the chroma wrap (59.5, 59.75, 71.75 -> 11.5, 11.75) so that one pitch class can be reached from
    # above and from below the octave seam
    mp = [59.5, 59.75, 60.0, 60.25, 60.5, 60.75, 61.0, 71.75, 72.0, 72.5]
    fr = list(lib.subsets(mp, 4 if thorough else 3))
    run.explore("multipitch-frames", mod, "shard_mpframe",
                [(ch, fr, [0.25, 0.5, 1.0]) for ch in core.chunks(fr, 32)])
    run.require_nonvacuous("events.distance_exactly_window", "events.duplicates",
                           "notes.onset_distance_exactly_tolerance",
                           "notes.offset_exactly_tolerance_onset_strictly_inside")
    if run.total.counters.get("notes.pitch_near_threshold_excluded", 0):
        raise core.HarnessError("pitch lattice has a near-threshold pair")
