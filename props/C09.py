"""C09 - pitch spelling, joint transposition and octave are handled as documented.

Spaces
  key     ALL key pairs (every tonic spelling x {major, minor, other} + X; complete) x 12 transpositions x sharp/flat
          spelling of the transposed tonics: key.weighted_score unchanged
  chord   label panel (every quality shorthand x bass/degree variants; two reference roots, several estimate
          roots) x all 12 joint transpositions x two spellings, and the enharmonic respelling alphabet: all 12
          comparison functions return identical vectors; chord.evaluate on small interval sequences is unchanged
  pitch   melody / multipitch / transcription adapters: edges provided by the adapters (Task.edges kinds
          "pitchscale" - both sides multiplied by a common factor, "octave" - estimate only shifted by whole
          octaves, "negate" - estimated melody frequencies negated) with the keys each edge must preserve
"""
import itertools
import warnings

import numpy as np

from mc import core, generic
from mc.tasks import base

PID = "C09"
LEVEL = "model_checking"

from mir_eval import chord, key

A = np.array
SHARP = ["C", "C#", "D", "D#", "E", "F", "F#", "G", "G#", "A", "A#", "B"]
FLAT = ["C", "Db", "D", "Eb", "E", "F", "Gb", "G", "Ab", "A", "Bb", "B"]
RESPELL = {"C#": "Db", "D#": "Eb", "F#": "Gb", "G#": "Ab", "A#": "Bb", "B#": "C", "Cb": "B", "E#": "F", "Fb": "E",
           "F##": "G", "Abb": "G"}
RESPELL.update({v: k for k, v in list(RESPELL.items())})
# double accidentals that cross the octave break (B## = C#, Cbb = Bb) and their neighbours; kept in a second table
# because C#, Bb, F#, Eb already have a partner above
RESPELL2 = {"B##": "C#", "Cbb": "Bb", "E##": "F#", "Fbb": "Eb", "A##": "B", "Dbb": "C"}
RESPELL2.update({v: k for k, v in list(RESPELL2.items())})
LETTER = {"C": 0, "D": 2, "E": 4, "F": 5, "G": 7, "A": 9, "B": 11}


def pc(name):
    """pitch class of a spelled note name (computed here, not taken from the library)"""
    n = LETTER[name[0].upper()]
    for ch in name[1:]:
        n += 1 if ch == "#" else -1
    return n % 12


# ------------------------------------------------------------------------------------------ key
def key_strings():
    tonics = sorted(set(k for k in key.KEY_TO_SEMITONE if k[0] in "abcdefg"))
    out = ["X"]
    for t in tonics:
        name = t[0].upper() + t[1:]
        for mode in ("major", "minor", "other"):
            out.append("%s %s" % (name, mode))
    return out


def transpose_key(k, t, table):
    if k.lower() == "x":
        return k
    tonic, mode = k.split()
    return "%s %s" % (table[(pc(tonic) + t) % 12], mode)


def check_key(acc, r, e, t, tname):
    table = SHARP if tname == "sharp" else FLAT
    r2, e2 = transpose_key(r, t, table), transpose_key(e, t, table)
    case = {"kind": "key", "ref": r, "est": e, "t": t, "spelling": tname}
    acc.transitions += 2
    try:
        a = key.weighted_score(r, e)
    except Exception:  # noqa
        acc.counters["key.source_raises"] += 1
        return
    try:
        b = key.weighted_score(r2, e2)
    except Exception as ex:  # noqa
        acc.violation("key-transposition", "key.weighted_score", case,
                      observed="transposed pair (%s, %s) raised %s: %s" % (r2, e2, type(ex).__name__, ex))
        return
    acc.outcome(a)
    if a != b:
        acc.violation("key-transposition", "key.weighted_score", case, observed={"orig": a, "(%s,%s)" % (r2, e2): b})


def shard_key(arg):
    refs, keys = arg
    acc = core.Acc(PID)
    for r in refs:
        for e in keys:
            acc.states += 1
            if r != e:
                acc.nontrivial += 1
            acc.tick({"kind": "key", "ref": r, "est": e, "t": 0, "spelling": "sharp"})
            for t in range(12):
                for tname in ("sharp", "flat"):
                    check_key(acc, r, e, t, tname)
    return acc


# ------------------------------------------------------------------------------------------ chord labels
COMPARE = ["thirds", "thirds_inv", "triads", "triads_inv", "tetrads", "tetrads_inv", "root", "mirex", "majmin",
           "majmin_inv", "sevenths", "sevenths_inv"]


def bodies(tier):
    quals = [q for q in sorted(chord.QUALITIES) + sorted(chord.EXTENDED_QUALITY_REDUX) if q]
    var = ["", "/3", "/b7", "(9)", "(*5)", "/5"] + (["(b9,11)/5", "(*3,4)", "/b3", "(#11)"] if tier == "thorough" else [])
    out = ["", "/5", ":(3,5)", ":(b3,5,b7)/b3"]
    for q in quals:
        for v in var:
            out.append(":%s%s" % (q, v))
    ok = []
    for b in out:          # keep grammar-valid, encodable bodies only (some reduction-table keys are not shorthands)
        try:
            chord.encode("C" + b)
            ok.append(b)
        except chord.InvalidChordException:
            pass
    return ok


def label(root, body):
    return root + body


def transpose_label(l, t, table):
    if l in ("N", "X"):
        return l
    i = 1
    while i < len(l) and l[i] in "#b":
        i += 1
    return table[(pc(l[:i]) + t) % 12] + l[i:]


def respell_label(l, table=None):
    if l in ("N", "X"):
        return None
    i = 1
    while i < len(l) and l[i] in "#b":
        i += 1
    alt = (table or RESPELL).get(l[:i])
    if alt is None and table is None:
        alt = RESPELL2.get(l[:i])
    return None if alt is None else alt + l[i:]


def vectors(ref_labels, est_labels):
    out = {}
    with warnings.catch_warnings():
        warnings.simplefilter("ignore")
        for f in COMPARE:
            out[f] = getattr(chord, f)(list(ref_labels), list(est_labels))
    return out


def localise_block_failure(acc, clause, rl, el, r2, e2, tag, ex):
    """a block of panel labels raised (some label of it is not accepted by this tree): the block is evaluated pair by
    pair instead; the first (function, pair) that behaves differently before and after the transformation (different
    values, value vs exception, or different exception types) is reported as a replayable pair"""
    with warnings.catch_warnings():
        warnings.simplefilter("ignore")
        for f in COMPARE:
            for i in range(len(rl)):
                a, b = _pair_value(f, rl[i], el[i]), _pair_value(f, r2[i], e2[i])
                if a != b:
                    acc.violation(clause, "chord.%s" % f,
                                  {"kind": "chordpair", "fn": f, "ref": rl[i], "est": el[i], "ref2": r2[i],
                                   "est2": e2[i], "tag": tag}, observed={"orig": a, "transformed": b})
                    return
    # every pair behaves alike before and after the transformation (same value or same exception type): whether these
    # labels must be accepted at all is C10's question, not a spelling / transposition matter
    acc.counters["chord.blocks_raising_alike_before_and_after"] += 1


def check_chord_block(acc, ref_labels, est_labels, transform, tag):
    """compare all 12 comparison vectors of the block with the jointly transformed block"""
    r2 = [transform(l) for l in ref_labels]
    e2 = [transform(l) for l in est_labels]
    acc.transitions += 2 * len(COMPARE)
    try:
        v1 = vectors(ref_labels, est_labels)
    except Exception as ex:  # noqa  (the panel was validated label by label at construction: this must not raise)
        acc.counters["chord.source_block_raises"] += 1
        localise_block_failure(acc, "chord-%s" % tag.split(":")[0], ref_labels, est_labels, r2, e2, tag, ex)
        return
    try:
        v2 = vectors(r2, e2)
    except Exception as ex:  # noqa
        localise_block_failure(acc, "chord-%s" % tag.split(":")[0], ref_labels, est_labels, r2, e2, tag, ex)
        return
    for f in COMPARE:
        a, b = np.asarray(v1[f]), np.asarray(v2[f])
        bad = np.flatnonzero(a != b)
        if len(bad):
            i = int(bad[0])
            acc.violation("chord-%s" % tag.split(":")[0], "chord.%s" % f,
                          {"kind": "chordpair", "fn": f, "ref": ref_labels[i], "est": est_labels[i], "ref2": r2[i],
                           "est2": e2[i], "tag": tag}, observed={"orig": float(a[i]), "transformed": float(b[i])})
            return
    acc.outcome((tag, float(np.asarray(v1["mirex"]).sum())))


def shard_chord(arg):
    tier, phase, t, tname = arg
    acc = core.Acc(PID)
    bd = bodies(tier)
    ref_roots = [["C", "G#"], ["D", "Bb"], ["E", "F#"], ["A", "Eb"]][phase % 4]
    est_roots = ["C", "G", "Ab", "E", "F#"] if tier == "thorough" else ["C", "G", "Ab"]
    est_bodies = ["", ":min", ":7", ":maj7", ":min7", ":dim", ":aug", ":sus4", ":maj/3", ":min/b3", ":7/b7",
                  ":maj6", ":hdim7", ":9", ":maj(9)", ":min(*5)", ":5", ":1"]
    table = SHARP if tname == "sharp" else FLAT
    for rr in ref_roots:
        refs = [label(rr, b) for b in bd] + ["N", "X"]
        for er in est_roots:
            ests = [label(er, b) for b in est_bodies] + ["N", "X"]
            rl = [r for r in refs for _ in ests]
            el = [e for _ in refs for e in ests]
            acc.states += len(rl)
            acc.nontrivial += len(rl)
            acc.tick({"kind": "chordblock", "tag": "transpose:%d:%s" % (t, tname), "ref": rl[:3], "est": el[:3]})
            check_chord_block(acc, rl, el, lambda l: transpose_label(l, t, table), "transpose:%d:%s" % (t, tname))
            acc.counters["chord.transposition_blocks"] += 1
    return acc


def shard_respell(arg):
    tier, phase, ref_roots = arg
    acc = core.Acc(PID)
    bd = bodies(tier)
    table = RESPELL2 if ref_roots[0] in RESPELL2 and ref_roots[0] not in RESPELL else RESPELL
    if len(ref_roots) > 1 and ref_roots[1] == "table2":
        table, ref_roots = RESPELL2, ref_roots[:1]
    roots = sorted(table)
    est_bodies = ["", ":min", ":7", ":maj7", ":min7/b3", ":sus4", ":maj/3", ":9"]
    for rr in ref_roots:
        refs = [label(rr, b) for b in bd]
        for er in roots[phase % 3::3]:
            ests = [label(er, b) for b in est_bodies]
            rl = [r for r in refs for _ in ests]
            el = [e for _ in refs for e in ests]
            acc.states += len(rl)
            acc.nontrivial += len(rl)
            acc.tick({"kind": "chordblock", "tag": "respell", "ref": rl[:3], "est": el[:3]})
            # respell only the reference, only the estimate, and both
            for who in ("ref", "est", "both"):
                r2 = [respell_label(l, table) if who in ("ref", "both") else l for l in rl]
                e2 = [respell_label(l, table) if who in ("est", "both") else l for l in el]
                acc.transitions += 2 * len(COMPARE)
                try:
                    v1 = vectors(rl, el)
                    v2 = vectors(r2, e2)
                except Exception as ex:  # noqa
                    localise_block_failure(acc, "chord-respell", rl, el, r2, e2, "respell:" + who, ex)
                    acc.counters["chord.respelling_blocks"] += 1
                    continue
                for f in COMPARE:
                    a, b = np.asarray(v1[f]), np.asarray(v2[f])
                    bad = np.flatnonzero(a != b)
                    if len(bad):
                        i = int(bad[0])
                        acc.violation("chord-respell", "chord.%s" % f,
                                      {"kind": "chordpair", "fn": f, "ref": rl[i], "est": el[i], "ref2": r2[i],
                                       "est2": e2[i], "tag": "respell:" + who},
                                      observed={"orig": float(a[i]), "transformed": float(b[i])})
                        break
                acc.counters["chord.respelling_blocks"] += 1
    return acc


def _pair_value(f, r, e):
    try:
        return float(getattr(chord, f)([r], [e])[0])
    except Exception as ex:  # noqa
        return "raised %s" % type(ex).__name__


def check_chord_pair(acc, case):
    f = case["fn"]
    with warnings.catch_warnings():
        warnings.simplefilter("ignore")
        a = _pair_value(f, case["ref"], case["est"])
        b = _pair_value(f, case["ref2"], case["est2"])
    if a != b:        # a value vs another value, a value vs an exception, or two different exception types
        acc.violation("chord-%s" % case["tag"].split(":")[0], "chord.%s" % f, case,
                      observed={"orig": a, "transformed": b})


SEQS = [((0.0, 1.0), (1.0, 2.5), (2.5, 4.0)), ((0.0, 2.0), (2.0, 4.0)), ((0.5, 1.5), (1.5, 3.0), (3.0, 3.5), (3.5, 5.0))]


def check_eval(acc, ri, rl, ei, el, t, tname):
    table = SHARP if tname == "sharp" else FLAT
    case = {"kind": "chordeval", "ri": ri, "rl": rl, "ei": ei, "el": el, "t": t, "spelling": tname}
    acc.transitions += 2
    with warnings.catch_warnings():
        warnings.simplefilter("ignore")
        try:
            a = chord.evaluate(A(ri, dtype=float), list(rl), A(ei, dtype=float), list(el))
        except Exception:  # noqa
            acc.counters["chord.source_raises"] += 1
            return
        try:
            b = chord.evaluate(A(ri, dtype=float), [transpose_label(l, t, table) for l in rl], A(ei, dtype=float),
                               [transpose_label(l, t, table) for l in el])
        except Exception as ex:  # noqa
            acc.violation("chord-transpose", "chord.evaluate", case, observed="raised %s: %s" % (type(ex).__name__, ex))
            return
    for k in a:
        if not (abs(float(a[k]) - float(b[k])) <= 1e-12):
            acc.violation("chord-transpose", "chord.evaluate", case, observed={k: [float(a[k]), float(b[k])]})
            return
    acc.outcome(tuple(round(float(v), 9) for v in a.values())[:5])


def check_eval_respell(acc, ri, rl, ei, el, which, pos):
    """respell ONE occurrence of a label (reference or estimate side, interval `pos`): no chord.evaluate score may
    change, in particular over/under-segmentation, which merges equal neighbours"""
    case = {"kind": "chordrespell", "ri": ri, "rl": rl, "ei": ei, "el": el, "which": which, "pos": pos}
    rl2, el2 = list(rl), list(el)
    tgt = rl2 if which == "ref" else el2
    alt = respell_label(tgt[pos])
    if alt is None:
        return
    tgt[pos] = alt
    acc.transitions += 2
    with warnings.catch_warnings():
        warnings.simplefilter("ignore")
        try:
            a = chord.evaluate(A(ri, dtype=float), list(rl), A(ei, dtype=float), list(el))
        except Exception:  # noqa
            acc.counters["chord.source_raises"] += 1
            return
        try:
            b = chord.evaluate(A(ri, dtype=float), rl2, A(ei, dtype=float), el2)
        except Exception as ex:  # noqa
            acc.violation("chord-respell", "chord.evaluate", case, observed="raised %s: %s" % (type(ex).__name__, ex))
            return
    acc.counters["chord.evaluate_respelled_occurrences"] += 1
    for k in a:
        if not (abs(float(a[k]) - float(b[k])) <= 1e-12):
            acc.violation("chord-respell", "chord.evaluate", case, observed={k: [float(a[k]), float(b[k])]})
            return


def shard_eval_respell(arg):
    roots, bodies_ = arg
    acc = core.Acc(PID)
    for r in roots:
        for b in bodies_:
            lab = r + b
            for other in ("N", "G:7", lab):
                # the label occurs in two consecutive intervals (and once more later): one occurrence is respelled
                for seq in ((lab, lab, other), (other, lab, lab), (lab, other, lab)):
                    for ri, ei in ((SEQS[0], SEQS[1]), (SEQS[0], SEQS[0])):
                        el = (lab, other, lab)[:len(ei)]
                        acc.states += 1
                        acc.nontrivial += 1
                        acc.tick({"kind": "chordrespell", "ri": ri, "rl": seq, "ei": ei, "el": el, "which": "ref", "pos": 1})
                        for pos in range(3):
                            check_eval_respell(acc, ri, seq, ei, el, "ref", pos)
                        for pos in range(len(el)):
                            check_eval_respell(acc, ei if len(ei) == 3 else SEQS[0], el if len(el) == 3 else seq,
                                               ri, seq, "est", pos if len(el) == 3 else min(pos, 2))
    return acc


def shard_eval(arg):
    tier, phase, labelsets = arg
    acc = core.Acc(PID)
    for rl_all in labelsets:
        for ri in SEQS[:2]:
            for ei in SEQS:
                for el_all in labelsets[::5]:
                    rl, el = rl_all[:len(ri)], el_all[:len(ei)]
                    acc.states += 1
                    acc.nontrivial += 1
                    acc.tick({"kind": "chordeval", "ri": ri, "rl": rl, "ei": ei, "el": el, "t": 1, "spelling": "sharp"})
                    for t in (1, 5, 6, 11) if tier != "thorough" else range(1, 12):
                        for tname in ("sharp", "flat"):
                            check_eval(acc, ri, rl, ei, el, t, tname)
    return acc


# ------------------------------------------------------------------------------------------ driver
def _t(x):
    return tuple(_t(v) for v in x) if isinstance(x, list) else x


def replay(case, acc):
    k = case["kind"]
    if k == "key":
        check_key(acc, case["ref"], case["est"], case["t"], case["spelling"])
    elif k == "chordpair":
        check_chord_pair(acc, case)
    elif k == "chordrespell":
        check_eval_respell(acc, _t(case["ri"]), _t(case["rl"]), _t(case["ei"]), _t(case["el"]), case["which"],
                           case["pos"])
    elif k == "chordeval":
        check_eval(acc, _t(case["ri"]), _t(case["rl"]), _t(case["ei"]), _t(case["el"]), case["t"], case["spelling"])
    elif k == "pair":
        generic.replay_edge(case, acc, PID)
    elif k == "chordblock":
        raise core.HarnessError("block-level failure (labels raised): re-run the check")
    else:
        raise core.HarnessError("unknown case kind %r" % k)


def run(run):
    tier, ph = run.tier, run.phase
    run.rule = ("key: all key pairs x 12 transpositions x 2 spellings (complete); chord: label panel (all quality "
                "shorthands x bass/degree variants, 2 reference roots x 3-5 estimate roots) x 12 transpositions x 2 "
                "spellings + respelling alphabet on reference / estimate / both, through all 12 comparison functions; "
                "chord.evaluate on small sequences; pitch edges from the melody / multipitch / transcription adapters")
    run.assumptions = [
        "pitch classes of spelled names are computed by the harness (letter + accidentals), not read from the library",
        "frequency scaling: every pitch difference stays >= 1 cent from the tolerance in use (adapter lattices), "
        "scores then equal to 1e-12",
    ]
    ks = key_strings()
    run.explore("key pairs x transpositions", __name__, "shard_key", [(ch, ks) for ch in core.chunks(ks, 32)])
    run.explore("chord comparisons under joint transposition", __name__, "shard_chord",
                [(tier, ph, t, tn) for t in range(12) for tn in ("sharp", "flat")])
    run.explore("chord comparisons under enharmonic respelling", __name__, "shard_respell",
                [(tier, ph, [r]) for r in sorted(RESPELL)] + [(tier, ph, [r, "table2"]) for r in sorted(RESPELL2)])
    pool = ["C:maj", "G:7/3", "A:min7", "N", "D:sus4", "F#:dim", "X", "Bb:maj6", "E:min/b3", "Ab:9", "C#:hdim7", "B:aug",
            "Eb:maj7", "G", "D:min(9)"]
    labelsets = [tuple(pool[(i + j * 3) % len(pool)] for j in range(4)) for i in range(len(pool))]
    run.explore("chord.evaluate under joint transposition", __name__, "shard_eval",
                [(tier, ph, ch) for ch in core.chunks(labelsets, 15)])
    rroots = sorted(r for r in RESPELL if len(r) <= 2)
    run.explore("chord.evaluate with one occurrence respelled", __name__, "shard_eval_respell",
                [([r], ["", ":maj", ":min", ":7", ":min7/b3", ":sus4"]) for r in rroots])
    for name in base.tasks():
        task = base.load(name)
        kinds = [k for k in ("pitchscale", "octave", "negate") if k in getattr(task, "edges", {})]
        if kinds:
            run.explore("%s %s edges" % (name, "/".join(kinds)), "mc.generic", "shard_edges",
                        generic.edge_plan(PID, name, tier, ph, kinds))
    run.require_nonvacuous("chord.transposition_blocks", "chord.respelling_blocks",
                           "chord.evaluate_respelled_occurrences")
