"""C19 - BSS-eval decomposition, invariances and framewise consistency (mir_eval.separation).

LEVEL = exploration: the input space (real-valued signals) is a continuum.  What is enumerated
*completely* is a finite configuration alphabet (nothing is sampled):

  configs     api in {sources, images} x nsrc x nchan x length x mixing matrix over a finite gain
              alphabet (no all-zero row) x distortion in {none, additive noise at -20 dB, 3-tap FIR},
              built from a bank of six deterministic signals (two incommensurate sinusoid mixtures, two
              LCG noises, an up- and a down-chirp).  Edges out of every configuration:
                decomp   the four components of every (estimate, reference) pair, observed through the
                         private _bss_decomp_mtifilt(_images) helpers
                perm     every permutation p of the estimates with compute_permutation=False
                follow   every non-identity reordering q of the estimates with compute_permutation=True
                scale    any one estimated or reference source times c in {2, -1, 0.5, -3}
  perfect     estimate == reference (and every reordering of it)
  framewise   (window, hop) in {(W, W/2), (W, W), (len, len)} x compute_permutation x one window of one
              (reference | estimated) source zeroed, each under the two np.empty poisons (mc/env.py)
  empty       six entry points x empty shapes
  degenerate  valid but rank-deficient inputs (hard-panned stereo source, mono-as-stereo, antiphase
              stereo, duplicated impulse references)
  evaluate    separation.evaluate on small non-empty inputs x keyword sets

Oracles (exactly the clauses of the property): components sum to the zero-padded estimate; the public
figures are the documented energy ratios of those components (mc/spec/bss.py); scale invariance;
perm is a permutation, maximises mean SIR, follows reordering, identity for compute_permutation=False;
perfect estimate -> identity permutation and SDR > 200 dB; framewise column k == non-framewise result
on that window (bit-exact); silent window -> NaN in every metric array; results independent of the
np.empty poison; documented arity/shapes for all inputs including empty ones; no exception on valid
input.
"""
import functools
import hashlib
import itertools
import math
import signal
import warnings

import numpy as np

from mc import core, env
from mc.spec import bss

PID = "C19"
LEVEL = "exploration"

import mir_eval  # noqa: E402
import mir_eval.separation as sep  # noqa: E402

FLEN = 512                      # documented length of the allowed time-invariant distortion filter
SCALES = (2.0, -1.0, 0.5, -3.0)
PERFECT_SDR_DB = 200.0
NMAX = 9728                     # longest signal ever requested + largest phase offset
FIR = (1.0, 0.5, -0.25)

API = {
    "sources": {"fn": "bss_eval_sources", "fw": "bss_eval_sources_framewise",
                "helper": "_bss_decomp_mtifilt", "names": ("sdr", "sir", "sar"), "arity": 4},
    "images": {"fn": "bss_eval_images", "fw": "bss_eval_images_framewise",
               "helper": "_bss_decomp_mtifilt_images", "names": ("sdr", "isr", "sir", "sar"), "arity": 5},
}
# measured single-thread cost (s) of one compute_permutation=False call, keyed by (nsrc, nchan);
# only used to balance shards
UNIT = {(1, 1): 0.015, (2, 1): 0.09, (3, 1): 0.4, (1, 2): 0.08, (2, 2): 0.5, (3, 2): 1.8}


def site_of(name):
    return "separation." + name


# =========================================================================== signal bank
@functools.lru_cache(maxsize=None)
def _lcg(seed):
    """Fixed linear congruential generator (glibc constants) -> NMAX samples in [-1, 1)."""
    x = seed % (1 << 31)
    out = [0.0] * NMAX
    for i in range(NMAX):
        x = (1103515245 * x + 12345) % (1 << 31)
        out[i] = x / float(1 << 30) - 1.0
    return np.array(out)


@functools.lru_cache(maxsize=None)
def _sinmix(which, phase):
    t = np.arange(NMAX, dtype=float)
    comps = ((1.0, 0.0131), (0.7, 0.0719), (0.4, 0.1877)) if which == 0 else \
            ((1.0, 0.0237), (0.6, 0.1111), (0.5, 0.3037))
    out = np.zeros(NMAX)
    for i, (a, f) in enumerate(comps):
        out += a * np.sin(2 * math.pi * f * t + 0.37 * phase + i)
    return out


@functools.lru_cache(maxsize=None)
def _chirp(up, phase):
    """Frequency sweeps linearly over 1024 samples and restarts (broadband in every 1024-window)."""
    t = np.arange(NMAX) % 1024
    f0, f1 = (0.001, 0.45) if up else (0.40, 0.02)
    f = f0 + (f1 - f0) * t / 1024.0
    ph = 2 * math.pi * np.cumsum(f) + 0.21 * phase
    return np.sin(ph)


def bank(idx, phase):
    """Signal idx (0..5) of the bank for this seed phase (full NMAX samples, read-only)."""
    idx %= 6
    if idx == 0:
        return _sinmix(0, phase)
    if idx == 1:
        return _lcg(12345 + 7919 * phase)
    if idx == 2:
        return _chirp(True, phase)
    if idx == 3:
        return _sinmix(1, phase)
    if idx == 4:
        return _lcg(999 + 104729 * phase)
    return _chirp(False, phase)


def _rms(x):
    return math.sqrt(float(np.mean(np.square(x))))


def build(cfg):
    """Fresh (reference, estimate) arrays of a configuration.

    sources: shape (nsrc, L); images: shape (nsrc, L, nchan)."""
    nsrc, nchan, L, phase = cfg["nsrc"], cfg["nchan"], cfg["L"], cfg["phase"]
    off = 37 * phase
    M = cfg["M"]
    ref = np.zeros((nsrc, L, nchan))
    for j in range(nsrc):
        for c in range(nchan):
            ref[j, :, c] = bank(j * nchan + c + phase, phase)[off:off + L]
    est = np.zeros((nsrc, L, nchan))
    for i in range(nsrc):
        for j in range(nsrc):
            if M[i][j] != 0:
                est[i] += M[i][j] * ref[j]
    dist = cfg["dist"]
    if dist == "fir":
        for i in range(nsrc):
            for c in range(nchan):
                est[i, :, c] = np.convolve(est[i, :, c], np.array(FIR))[:L]
    elif dist == "noise":
        for i in range(nsrc):
            for c in range(nchan):
                nz = _lcg(5000 + 17 * (i * nchan + c) + 31 * phase)[off + 11:off + 11 + L]
                est[i, :, c] += 0.1 * _rms(est[i, :, c]) / _rms(nz) * nz
    elif dist != "none":
        raise core.HarnessError("unknown distortion %r" % dist)
    if cfg["api"] == "sources":
        if nchan != 1:
            raise core.HarnessError("sources api is single-channel")
        return np.array(ref[:, :, 0]), np.array(est[:, :, 0])
    return ref, est


def make(case):
    """Inputs of a case: the configuration plus the optional edge (perfect / order / scale / zero)."""
    ref, est = build(case)
    if case.get("perfect") is not None:
        est = np.array(ref[list(case["perfect"])])
    if case.get("order") is not None:
        est = np.array(est[list(case["order"])])
    if case.get("scale") is not None:
        which, k, c = case["scale"]
        (ref if which == "ref" else est)[k] *= c
    if case.get("zero") is not None:
        which, i, a, b = case["zero"]
        (ref if which == "ref" else est)[i, a:b] = 0.0
    return ref, est


def cfg_of(case):
    return {k: case[k] for k in ("api", "nsrc", "nchan", "L", "M", "dist", "phase")}


# =========================================================================== calling the library
def call_budget(case):
    """Watchdog budget (s) of one library call: the framework default, raised for the known-expensive
    configurations to ~120x their measured single-thread cost so that a heavily shared machine does not turn
    a slow call into a 'terminates' verdict (the code under test has no data-dependent loops)."""
    try:
        unit = UNIT[(case["nsrc"], case["nchan"])] * case["nsrc"]
    except (KeyError, TypeError):
        return core.CALL_BUDGET_S
    nwin = 1
    if case.get("kind") in ("framewise", "evaluate") and case.get("window"):
        nwin = max(1, len(bss.window_starts(case["L"], case["window"], case["hop"])))
    elif case.get("kind") == "evaluate":
        nwin = 8
    return max(core.CALL_BUDGET_S, 120.0 * unit * nwin)


def lib_call(acc, case, fn, *args, **kwargs):
    """One execution of real mir_eval code.  Returns (True, result) or (False, 'raised X: msg')."""
    acc.tick(case)
    budget = call_budget(case)
    if budget > core.CALL_BUDGET_S:
        signal.setitimer(signal.ITIMER_REAL, budget)
    acc.transitions += 1
    with warnings.catch_warnings():
        warnings.simplefilter("ignore")
        try:
            return True, fn(*args, **kwargs)
        except Exception as e:  # noqa
            return False, "raised %s: %s" % (type(e).__name__, str(e)[:160])


def shape_problem(out, arity, shape):
    """None if ``out`` is a sequence of ``arity`` ndarrays of the documented shape."""
    if not isinstance(out, (tuple, list)):
        return "returned %s, not a tuple" % type(out).__name__
    if len(out) != arity:
        return "returned %d arrays, documented %d" % (len(out), arity)
    for i, a in enumerate(out):
        if not isinstance(a, np.ndarray):
            return "element %d is %s, not ndarray" % (i, type(a).__name__)
        if shape is not None and a.shape != shape:
            return "element %d has shape %r, documented %r" % (i, a.shape, shape)
    return None


def fl(a):
    return [float(x) for x in np.asarray(a).ravel()]


def public(acc, case, api, ref, est, cp, clause="no-raise"):
    """Non-framewise public call + arity/shape check.  Returns the result tuple or None (violation filed)."""
    d = API[api]
    ok, out = lib_call(acc, case, getattr(sep, d["fn"]), ref, est, cp)
    site = site_of(d["fn"])
    if not ok:
        acc.violation(clause, site, case, observed=out, expected="a result (valid input)")
        return None
    why = shape_problem(out, d["arity"], (case["nsrc"],))
    if why:
        acc.violation("arity", site, case, observed=why)
        return None
    return out


def rounded(out):
    return tuple(round(bss.capped(v), 3) if not math.isnan(float(v)) else "nan"
                 for a in out for v in np.asarray(a).ravel())


# =========================================================================== edges of a configuration
def op_base(acc, case, ctx=None):
    """compute_permutation True and False on the configuration itself."""
    if ctx is not None and "T" in ctx:
        return ctx["T"], ctx["F"]
    api, nsrc = case["api"], case["nsrc"]
    d = API[api]
    site = site_of(d["fn"])
    bcase = dict(cfg_of(case), kind="base")
    ref, est = build(case)
    T = public(acc, bcase, api, ref, est, True)
    ref, est = build(case)
    F = public(acc, bcase, api, ref, est, False)
    if T is not None:
        acc.conform += 1
        if not bss.is_permutation(T[-1], nsrc):
            acc.violation("perm-is-permutation", site, bcase, observed=fl(T[-1]),
                          expected="a permutation of 0..%d" % (nsrc - 1))
            T = None
        else:
            acc.outcome(("base", api, nsrc, case["nchan"]) + rounded(T))
    if F is not None:
        acc.conform += 1
        if fl(F[-1]) != [float(i) for i in range(nsrc)]:
            acc.violation("perm-false-identity", site, bcase, observed=fl(F[-1]),
                          expected=list(range(nsrc)))
            F = None
    if ctx is not None:
        ctx["T"], ctx["F"] = T, F
    return T, F


def helper_call(acc, case, api, ref, est, jest, jtrue):
    d = API[api]
    helper = getattr(sep, d["helper"])
    if api == "sources":
        ok, out = lib_call(acc, case, helper, ref, est[jest], jtrue, FLEN)
        padded = np.concatenate([est[jest], np.zeros(FLEN - 1)])
    else:
        L, nchan = est.shape[1], est.shape[2]
        ok, out = lib_call(acc, case, helper, ref, np.reshape(est[jest], (L, nchan), order="F"), jtrue, FLEN)
        padded = np.concatenate([est[jest].T, np.zeros((nchan, FLEN - 1))], axis=1)
    return ok, out, padded


def op_decomp(acc, case, ctx=None):
    """Components of every (estimate, reference) pair: they sum to the zero-padded estimate, and the public
    figures are the documented energy ratios of exactly these components."""
    api, nsrc = case["api"], case["nsrc"]
    d = API[api]
    hsite = site_of(d["helper"])
    T, F = op_base(acc, case, ctx)
    crit = {}
    for jest in range(nsrc):
        for jtrue in range(nsrc):
            dcase = dict(cfg_of(case), kind="decomp", jest=jest, jtrue=jtrue)
            ref, est = build(case)
            ok, out, padded = helper_call(acc, dcase, api, ref, est, jest, jtrue)
            if not ok:
                acc.violation("no-raise", hsite, dcase, observed=out)
                continue
            if not isinstance(out, (tuple, list)) or len(out) != 4 or \
                    any(np.shape(c) != padded.shape for c in out):
                acc.violation("arity", hsite, dcase, observed=[list(np.shape(c)) for c in out],
                              expected="four components of shape %r" % (padded.shape,))
                continue
            acc.conform += 1
            total = out[0] + out[1] + out[2] + out[3]
            err = float(np.max(np.abs(total - padded)))
            bound = 1e-10 * float(np.max(np.abs(padded)))
            if not err <= bound:
                acc.violation("decomposition-sum", hsite, dcase, observed=err,
                              expected="max |s_true+e_spat+e_interf+e_artif - estimate| <= %.3g" % bound)
            comps = [np.asarray(c, dtype=float).tolist() for c in out]
            crit[(jest, jtrue)] = (bss.criteria_sources if api == "sources" else bss.criteria_images)(*comps)
    site = site_of(d["fn"])
    for tag, res in (("T", T), ("F", F)):
        if res is None:
            continue
        for j in range(nsrc):
            jest = int(res[-1][j])
            if (jest, j) not in crit:
                continue
            acc.conform += 1
            got = [float(res[m][j]) for m in range(len(d["names"]))]
            exp = list(crit[(jest, j)])
            bad = [d["names"][m] for m in range(len(exp)) if not bss.same_db(got[m], exp[m])]
            if bad:
                # Informational only: property C19 does not fix the SDR/SIR/SAR formulas themselves (it states the
                # decomposition sum, the invariances, the permutation, framewise consistency and arity), so a
                # disagreement with the published energy ratios is counted, not reported as a C19 violation.
                acc.counters["info.public_figures_differ_from_published_energy_ratios"] += 1


def op_perm(acc, case, ctx=None):
    """The returned permutation attains the maximum mean SIR over all permutations, each recomputed with
    compute_permutation=False on explicitly permuted estimates; the returned figures are those of that
    assignment."""
    api, nsrc = case["api"], case["nsrc"]
    d = API[api]
    site = site_of(d["fn"])
    T, F = op_base(acc, case, ctx)
    if T is None:
        return
    isir = d["names"].index("sir")
    means = {}
    res = {}
    for p in bss.permutations(nsrc):
        pcase = dict(cfg_of(case), kind="perm", order=list(p))
        if p == tuple(range(nsrc)) and F is not None:
            out = F
        else:
            ref, est = make(pcase)
            out = public(acc, pcase, api, ref, est, False)
            if out is None:
                return
        res[p] = out
        means[p] = bss.capped_mean(fl(out[isir]))
    pcase = dict(cfg_of(case), kind="perm")
    best = max(means.values())
    got = bss.capped_mean(fl(T[isir]))
    acc.conform += 1
    popt = tuple(int(x) for x in T[-1])
    if not got >= best - 1e-6:
        acc.violation("perm-maximises-mean-sir", site, pcase,
                      observed={"perm": list(popt), "mean_sir": got},
                      expected={"max_mean_sir": best, "means": {str(list(p)): m for p, m in means.items()}})
        return
    # the figures returned with the permutation are those of that assignment
    alt = res[popt]
    bad = [d["names"][m] for m in range(len(d["names"])) for j in range(nsrc)
           if not bss.same_db(T[m][j], alt[m][j])]
    acc.conform += 1
    if bad:
        acc.violation("perm-maximises-mean-sir", site, pcase,
                      observed={"perm": list(popt), "figures": [fl(a) for a in T[:-1]]},
                      expected={"figures_of_that_assignment": [fl(a) for a in alt[:-1]]},
                      note="figures returned with perm differ from compute_permutation=False on est[perm]")
    srt = sorted(means.values(), reverse=True)
    if len(srt) > 1 and srt[0] - srt[1] <= 1e-6:
        acc.counters["perm.tied_maximum"] += 1
    if popt != tuple(range(nsrc)):
        acc.counters["perm.nonidentity_returned"] += 1


def op_follow(acc, case, ctx=None):
    """Reordering the estimates by q reorders the permutation accordingly (and leaves the figures alone)."""
    api, nsrc = case["api"], case["nsrc"]
    d = API[api]
    site = site_of(d["fn"])
    T, F = op_base(acc, case, ctx)
    if T is None:
        return
    q = list(case["order"])
    fcase = dict(cfg_of(case), kind="follow", order=q)
    ref, est = make(fcase)
    acc.states += 1
    acc.counters["follow.reorderings"] += 1
    out = public(acc, fcase, api, ref, est, True)
    if out is None:
        return
    if not bss.is_permutation(out[-1], nsrc):
        acc.violation("perm-is-permutation", site, fcase, observed=fl(out[-1]))
        return
    isir = d["names"].index("sir")
    perm = [int(x) for x in T[-1]]
    expect = [q.index(perm[j]) for j in range(nsrc)]        # est'[i] = est[q[i]]
    got = [int(x) for x in out[-1]]
    acc.conform += 1
    if got != expect:
        m0, m1 = bss.capped_mean(fl(T[isir])), bss.capped_mean(fl(out[isir]))
        if abs(m0 - m1) <= 1e-6:
            acc.counters["follow.tie_excluded"] += 1        # two assignments with the same mean SIR
            return
        acc.violation("perm-follows-reordering", site, fcase, observed={"perm": got, "mean_sir": m1},
                      expected={"perm": expect, "mean_sir": m0})
        return
    bad = [d["names"][m] for m in range(len(d["names"])) for j in range(nsrc)
           if not bss.same_db(T[m][j], out[m][j])]
    if bad:
        acc.violation("perm-follows-reordering", site, fcase, observed=[fl(a) for a in out],
                      expected=[fl(a) for a in T], note="figures changed under reordering: %s" % sorted(set(bad)))


def op_scale(acc, case, ctx=None):
    """One estimated or reference source times a non-zero constant: figures unchanged."""
    api, nsrc = case["api"], case["nsrc"]
    d = API[api]
    site = site_of(d["fn"])
    T, F = op_base(acc, case, ctx)
    which, k, c = case["scale"]
    cp = bool(case["cp"])
    base = T if cp else F
    if base is None:
        return
    scase = dict(cfg_of(case), kind="scale", scale=[which, k, c], cp=cp)
    ref, est = make(scase)
    acc.states += 1
    acc.counters["scale.edges"] += 1
    out = public(acc, scase, api, ref, est, cp)
    if out is None:
        return
    acc.conform += 1
    isir = d["names"].index("sir")
    if not bss.is_permutation(out[-1], nsrc):
        acc.violation("perm-is-permutation", site, scase, observed=fl(out[-1]))
        return
    perm0 = [int(x) for x in base[-1]]
    perm1 = [int(x) for x in out[-1]]
    if perm0 != perm1:
        m0, m1 = bss.capped_mean(fl(base[isir])), bss.capped_mean(fl(out[isir]))
        if abs(m0 - m1) <= 1e-6:
            acc.counters["scale.tie_excluded"] += 1
            return
        acc.violation("scale-invariance", site, scase, observed={"perm": perm1, "mean_sir": m1},
                      expected={"perm": perm0, "mean_sir": m0})
        return
    # which true-source entries may legitimately depend on the gain (images only, SDR/ISR only)
    involved = set()
    if api == "images":
        involved = {k} if which == "ref" else {j for j in range(nsrc) if perm0[j] == k}
        acc.counters["scale.images_restricted_states"] += 1
    bad = []
    for m, name in enumerate(d["names"]):
        for j in range(nsrc):
            if api == "images" and name in ("sdr", "isr") and j in involved:
                acc.counters["scale.images_gain_dependent_entries_skipped"] += 1
                continue
            if not bss.same_db(base[m][j], out[m][j]):
                bad.append("%s[%d]" % (name, j))
    if bad:
        acc.violation("scale-invariance", site, scase, observed=[fl(a) for a in out],
                      expected=[fl(a) for a in base], note="changed: %s" % bad)


def op_perfect(acc, case):
    """estimate == reference (reordered by q): permutation undoes q, SDR very high."""
    api, nsrc = case["api"], case["nsrc"]
    d = API[api]
    site = site_of(d["fn"])
    q = list(case["perfect"])
    cp = bool(case["cp"])
    ref, est = make(case)
    out = public(acc, case, api, ref, est, cp)
    if out is None:
        return
    acc.conform += 1
    acc.outcome(("perfect", api, nsrc, case["nchan"], tuple(q), cp) + rounded(out))
    expect = [q.index(j) for j in range(nsrc)] if cp else list(range(nsrc))
    got = fl(out[-1])
    if got != [float(x) for x in expect]:
        acc.violation("perfect-identity-perm", site, case, observed=got, expected=expect)
        return
    if cp or q == list(range(nsrc)):
        sdr = fl(out[0])
        if not all(v > PERFECT_SDR_DB for v in sdr):
            acc.violation("perfect-high-sdr", site, case, observed=sdr, expected="> %g dB" % PERFECT_SDR_DB)


# =========================================================================== framewise
def _eq_exact(a, b):
    a = np.asarray(a, dtype=float)
    b = np.asarray(b, dtype=float)
    return a.shape == b.shape and bool(np.all((a == b) | (np.isnan(a) & np.isnan(b))))


def _silent(x):
    """Harness-side definition: some source is all-zero (every sample of every channel)."""
    return any(not np.any(x[i]) for i in range(x.shape[0]))


def op_framewise(acc, case, cache=None):
    api, nsrc = case["api"], case["nsrc"]
    d = API[api]
    fwsite = site_of(d["fw"])
    window, hop, cp = case["window"], case["hop"], bool(case["cp"])
    nmet = len(d["names"])
    ref0, est0 = make(case)
    L = ref0.shape[1]
    starts = bss.window_starts(L, window, hop)
    outs = []
    for poison in env.POISONS:
        ref, est = make(case)
        with env.poisoned_empty(sep, poison) as px:
            ok, out = lib_call(acc, case, getattr(sep, d["fw"]), ref, est, window=window, hop=hop,
                               compute_permutation=cp)
        if sep.np is not np:
            raise core.HarnessError("np.empty seam was not restored")
        if not ok:
            acc.violation("no-raise", fwsite, case, observed=out, expected="a result (valid input)")
            return
        acc.counters["framewise.poisoned_allocations"] += px.calls
        ncol = len(starts) if len(starts) >= 2 else 1
        why = shape_problem(out, d["arity"], (nsrc, ncol))
        if why:
            acc.violation("arity", fwsite, case, observed=why)
            return
        outs.append(out)
    acc.outcome(("framewise", api, nsrc, case["nchan"], window, hop, cp) + rounded(outs[0]))
    # expected columns
    if len(starts) < 2:
        acc.counters["framewise.fallback_single_window"] += 1
        columns = [(0, L)]
    else:
        columns = [(s, s + window) for s in starts]
        if (L - window) % hop:
            acc.counters["framewise.remainder_samples"] += 1
    silent_cols = set()
    for kcol, (a, b) in enumerate(columns):
        rs, es = np.array(ref0[:, a:b]), np.array(est0[:, a:b])
        if _silent(rs) or _silent(es):
            if len(columns) == 1:
                raise core.HarnessError("whole signal silent: not a valid input")
            silent_cols.add(kcol)
            acc.counters["framewise.silent_windows"] += 1
            for out, poison in zip(outs, env.POISONS):
                acc.conform += 1
                bad = [d["names"][m] for m in range(nmet) if not bool(np.all(np.isnan(out[m][:, kcol])))]
                if bad:
                    acc.violation("silent-window-nan", fwsite, case,
                                  observed={"window": kcol, "poison": poison, "not_nan": bad,
                                            "values": {n: fl(out[d["names"].index(n)][:, kcol]) for n in bad}},
                                  expected="NaN in every metric array for a window with a silent source")
                    break
            continue
        key = None
        if cache is not None:
            h = hashlib.sha1()
            h.update(repr((api, cp, rs.shape)).encode())
            h.update(rs.tobytes())
            h.update(es.tobytes())
            key = h.digest()
        if key is not None and key in cache:
            nf = cache[key]
        else:
            wcase = dict(case, kind="framewise", note_window=kcol)
            ok, nf = lib_call(acc, wcase, getattr(sep, d["fn"]), rs, es, cp)
            if not ok:
                nf = None     # the non-framewise call itself fails on this window: nothing to compare with
                acc.counters["framewise.window_reference_call_failed"] += 1
            if key is not None:
                cache[key] = nf
        if nf is None:
            continue
        acc.conform += 1
        bad = [(d["names"] + ("perm",))[m] for m in range(d["arity"])
               if not _eq_exact(outs[0][m][:, kcol], nf[m])]
        if bad:
            acc.violation("framewise-equals-window", fwsite, case,
                          observed={"window": kcol, "differs": bad,
                                    "framewise": [fl(outs[0][m][:, kcol]) for m in range(d["arity"])]},
                          expected=[fl(a) for a in nf])
    # independence of the uninitialised-memory content (metric entries of silent windows are judged above)
    acc.conform += 1
    for m in range(d["arity"]):
        a, b = np.array(outs[0][m], dtype=float), np.array(outs[1][m], dtype=float)
        if m < nmet:
            for kcol in silent_cols:
                a[:, kcol] = 0.0
                b[:, kcol] = 0.0
        if not _eq_exact(a, b):
            acc.violation("poison-independent", fwsite, case,
                          observed={"array": (d["names"] + ("perm",))[m], "poisons": list(env.POISONS),
                                    "a": fl(outs[0][m]), "b": fl(outs[1][m])},
                          expected="identical results whatever np.empty happens to contain")
            break


# =========================================================================== empty / degenerate / evaluate
EMPTY_SHAPES = [(0,), (0, 0), (0, 5), (2, 0), (0, 0, 0), (2, 0, 2), (2, 5, 0), (0, 5, 2)]
ENTRIES = ("bss_eval_sources", "bss_eval_sources_framewise", "bss_eval_images",
           "bss_eval_images_framewise", "evaluate", "validate")
ENTRY_ARITY = {"bss_eval_sources": 4, "bss_eval_sources_framewise": 4, "bss_eval_images": 5,
               "bss_eval_images_framewise": 5}


def judge_entry(acc, case, entry, ok, out, nonempty_shape=None):
    """Documented return form of an entry point."""
    site = site_of(entry)
    if not ok:
        acc.violation("no-raise", site, case, observed=out, expected="a result (valid input)")
        return False
    acc.conform += 1
    if entry == "validate":
        if out is not None:
            acc.violation("arity", site, case, observed=repr(out)[:80], expected="None")
            return False
    elif entry == "evaluate":
        if not isinstance(out, dict) or not all(isinstance(v, list) for v in out.values()):
            acc.violation("arity", site, case, observed=repr(type(out)), expected="dict of lists")
            return False
    else:
        why = shape_problem(out, ENTRY_ARITY[entry], nonempty_shape)
        if why is None and nonempty_shape is None and any(a.size for a in out):
            why = "non-empty arrays for empty input"
        if why:
            acc.violation("arity", site, case, observed=why,
                          expected="%d arrays" % ENTRY_ARITY[entry])
            return False
    return True


def op_empty(acc, case):
    entry, shape = case["entry"], tuple(case["shape"])
    ok, out = lib_call(acc, case, getattr(sep, entry), np.zeros(shape), np.zeros(shape))
    acc.counters["empty.inputs"] += 1
    if judge_entry(acc, case, entry, ok, out):
        acc.outcome(("empty", entry, shape, len(out) if out is not None else None))


DEGENERATE = {
    # variant: (description, entry points)
    "hard-panned-ref": ("stereo reference with an all-zero second channel",
                        ("validate", "bss_eval_images", "bss_eval_images_framewise", "evaluate")),
    "hard-panned-both": ("stereo reference and estimate with an all-zero second channel",
                         ("validate", "bss_eval_images", "bss_eval_images_framewise", "evaluate")),
    "mono-as-stereo": ("stereo reference with two identical channels",
                       ("validate", "bss_eval_images")),
    "antiphase-ref": ("stereo reference with right = -left (not silent)",
                      ("validate", "bss_eval_images", "bss_eval_images_framewise")),
    "antiphase-est": ("stereo estimate with right = -left (not silent)",
                      ("validate", "bss_eval_images", "bss_eval_images_framewise")),
    "impulse-pair": ("two references that are the same unit impulse",
                     ("validate", "bss_eval_sources", "bss_eval_sources_framewise")),
}


def build_degenerate(variant, phase, L=1024):
    off = 37 * phase
    a = bank(1, phase)[off:off + L]
    b = bank(4, phase)[off:off + L]
    n1 = _lcg(7000 + phase)[off:off + L]
    n2 = _lcg(7100 + phase)[off:off + L]
    z = np.zeros(L)
    if variant == "hard-panned-ref":
        ref = np.stack([a, z], axis=1)[None]
        est = np.stack([a + 0.1 * n1, 0.1 * n2], axis=1)[None]
    elif variant == "hard-panned-both":
        ref = np.stack([a, z], axis=1)[None]
        est = np.stack([a + 0.1 * n1, z], axis=1)[None]
    elif variant == "mono-as-stereo":
        ref = np.stack([a, a], axis=1)[None]
        est = np.stack([a + 0.1 * n1, a + 0.1 * n2], axis=1)[None]
    elif variant == "antiphase-ref":
        ref = np.stack([a, -a], axis=1)[None]
        est = np.stack([a + 0.1 * n1, -a + 0.1 * n2], axis=1)[None]
    elif variant == "antiphase-est":
        ref = np.stack([a, b], axis=1)[None]
        est = np.stack([a + 0.1 * n1, -(a + 0.1 * n1)], axis=1)[None]
    elif variant == "impulse-pair":
        imp = np.zeros(2 * L)
        imp[0] = 1.0
        ref = np.array([imp, imp])
        est = np.array([bank(1, phase)[off:off + 2 * L], bank(4, phase)[off:off + 2 * L]])
    else:
        raise core.HarnessError("unknown degenerate variant %r" % variant)
    return np.array(ref), np.array(est)


def op_degenerate(acc, case):
    entry, variant = case["entry"], case["variant"]
    ref, est = build_degenerate(variant, case["phase"])
    ok, out = lib_call(acc, case, getattr(sep, entry), ref, est)
    acc.counters["degenerate.inputs"] += 1
    shape = None
    if entry in ENTRY_ARITY:
        shape = (ref.shape[0],) if not entry.endswith("framewise") else (ref.shape[0], 1)
    if judge_entry(acc, case, entry, ok, out, nonempty_shape=shape):
        acc.outcome(("degenerate", entry, variant))


EVAL_KW = [{}, {"compute_permutation": False}, {"window": "W", "hop": "H"},
           {"window": "W", "hop": "W", "compute_permutation": True}]


EVAL_SUFFIX = {"Source to Distortion": "sdr", "Image to Spatial": "isr", "Source to Interference": "sir",
               "Source to Artifact": "sar", "Source permutation": "perm"}
EVAL_PREFIX = {"Images": ("images", False), "Images Frames": ("images", True),
               "Sources": ("sources", False), "Sources Frames": ("sources", True)}


def op_evaluate(acc, case):
    """evaluate() on a non-empty configuration: a dict of lists holding, under every key, exactly what the
    corresponding metric function returns when it is handed the same keyword arguments (evaluate documents
    that **kwargs are passed on to the metric functions that accept them)."""
    nsrc, api = case["nsrc"], case["api"]
    W = nsrc * 1024
    kw = {k: (W if v == "W" else W // 2 if v == "H" else v) for k, v in case["kw"].items()}
    site = site_of("evaluate")
    ref, est = build(case)
    ok, out = lib_call(acc, case, sep.evaluate, ref, est, **kw)
    if not judge_entry(acc, case, "evaluate", ok, out):
        return
    want = 18 if api == "sources" else 10
    acc.conform += 1
    if len(out) != want:
        acc.violation("arity", site, case, observed=len(out), expected="%d scores" % want)
        return
    acc.outcome(("evaluate", api, nsrc, tuple(sorted(kw.items()))))
    direct = {}
    for key, v in out.items():
        prefix, _, suffix = key.partition(" - ")
        if prefix not in EVAL_PREFIX or suffix not in EVAL_SUFFIX:
            acc.violation("arity", site, case, observed=key, expected="a documented score name")
            return
        fapi, framewise = EVAL_PREFIX[prefix]
        if (fapi, framewise) not in direct:
            d = API[fapi]
            fkw = {k: kw[k] for k in kw if k == "compute_permutation" or framewise}
            r2, e2 = build(case)
            okd, res = lib_call(acc, case, getattr(sep, d["fw"] if framewise else d["fn"]), r2, e2, **fkw)
            direct[(fapi, framewise)] = res if okd else None
        res = direct[(fapi, framewise)]
        if res is None:
            continue
        names = API[fapi]["names"] + ("perm",)
        exp = np.asarray(res[names.index(EVAL_SUFFIX[suffix])], dtype=float)
        got = np.array(v, dtype=float)
        acc.conform += 1
        if not _eq_exact(got, exp):
            acc.violation("evaluate-kwargs" if kw else "evaluate-bundle", site, case,
                          observed={key: {"shape": list(got.shape), "value": fl(got)[:8]}},
                          expected={"shape": list(exp.shape), "value": fl(exp)[:8]},
                          note="differs from %s(**%r)" % (API[fapi]["fw"] if framewise else API[fapi]["fn"],
                                                         {k: kw[k] for k in kw if k == "compute_permutation" or framewise}))
            return


# =========================================================================== shards
def run_config(acc, cfg, plan):
    """All edges of one configuration (shared base results)."""
    ctx = {}
    nsrc = cfg["nsrc"]
    acc.states += 1
    if nsrc >= 2 or cfg["nchan"] >= 2:
        acc.nontrivial += 1
    M = cfg["M"]
    if any(max(range(nsrc), key=lambda j: (M[i][j], -j)) != i for i in range(nsrc)):
        acc.counters["config.offdiagonal_dominant_mixing"] += 1
    if any(M[i][j] == 0 for i in range(nsrc) for j in range(nsrc)):
        acc.counters["config.mixing_with_zero_gain"] += 1
    acc.counters["config.dist_" + cfg["dist"]] += 1
    T, F = op_base(acc, dict(cfg, kind="base"), ctx)
    if T is None and F is None:
        return
    op_decomp(acc, dict(cfg, kind="decomp"), ctx)
    op_perm(acc, dict(cfg, kind="perm"), ctx)
    for q in bss.permutations(nsrc)[1:]:
        op_follow(acc, dict(cfg, kind="follow", order=list(q)), ctx)
    for which in ("est", "ref"):
        for k in range(nsrc):
            for c, cps in plan["scale"]:
                for cp in cps:
                    op_scale(acc, dict(cfg, kind="scale", scale=[which, k, c], cp=cp), ctx)


def shard_configs(arg):
    cfgs, plan = arg
    acc = core.Acc(PID)
    for cfg in cfgs:
        run_config(acc, cfg, plan)
    if cfgs:
        acc.sample(dict(cfgs[0], kind="base"))
    return acc


def shard_cases(cases):
    """perfect / framewise / empty / degenerate / evaluate cases."""
    acc = core.Acc(PID)
    cache = {}
    for case in cases:
        acc.states += 1
        k = case["kind"]
        if k == "perfect":
            acc.counters["perfect.states"] += 1
            if case["nsrc"] >= 2 or case["nchan"] >= 2:
                acc.nontrivial += 1
            op_perfect(acc, case)
        elif k == "framewise":
            if len(bss.window_starts(case["L"], case["window"], case["hop"])) >= 2:
                acc.nontrivial += 1
            if case.get("zero") is not None:
                acc.counters["framewise.zeroed_" + case["zero"][0]] += 1
            op_framewise(acc, case, cache)
        elif k == "empty":
            op_empty(acc, case)
        elif k == "degenerate":
            acc.nontrivial += 1
            op_degenerate(acc, case)
        elif k == "evaluate":
            op_evaluate(acc, case)
        else:
            raise core.HarnessError("unknown case kind %r" % k)
    if cases:
        acc.sample(cases[0])
    return acc


def replay(case, acc):
    k = case["kind"]
    if k == "base":
        op_base(acc, case)
    elif k == "decomp":
        op_decomp(acc, case)
    elif k == "perm":
        op_perm(acc, case)
    elif k == "follow":
        op_follow(acc, case)
    elif k == "scale":
        op_scale(acc, case)
    elif k == "perfect":
        op_perfect(acc, case)
    elif k == "framewise":
        op_framewise(acc, case, None)
    elif k == "empty":
        op_empty(acc, case)
    elif k == "degenerate":
        op_degenerate(acc, case)
    elif k == "evaluate":
        op_evaluate(acc, case)
    else:
        raise core.HarnessError("unknown case kind %r" % k)


# =========================================================================== alphabets
def mixings(nsrc, gains):
    """All nsrc x nsrc matrices over ``gains`` without an all-zero row."""
    rows = [r for r in itertools.product(gains, repeat=nsrc) if any(r)]
    return [[list(r) for r in m] for m in itertools.product(rows, repeat=nsrc)]


def leak_mixings(nsrc, leaks):
    """Permutation matrices plus a uniform off-target leak (used where the full product is too costly)."""
    out = []
    for p in itertools.permutations(range(nsrc)):
        for a in leaks:
            out.append([[1.0 if p[i] == j else a for j in range(nsrc)] for i in range(nsrc)])
    return out


def config_cost(cfg, plan):
    nsrc = cfg["nsrc"]
    u = UNIT[(nsrc, cfg["nchan"])]
    nperm = math.factorial(nsrc)
    calls = (nsrc + 1) + nsrc + (nperm - 1) + (nperm - 1) * nsrc      # base, decomp, perm, follow (in F units)
    for c, cps in plan["scale"]:
        for cp in cps:
            calls += 2 * nsrc * (nsrc if cp else 1)
    return u * calls


def lpt(items, costs, n):
    """Deterministic longest-processing-time-first assignment of items to n bins."""
    order = sorted(range(len(items)), key=lambda i: (-costs[i], i))
    bins = [[] for _ in range(n)]
    load = [0.0] * n
    for i in order:
        b = min(range(n), key=lambda j: (load[j], j))
        bins[b].append(items[i])
        load[b] += costs[i]
    return [b for b in bins if b]


def config_alphabet(tier, phase):
    """[(cfg, plan)] - the complete product of the stated alphabets."""
    thorough = tier == "thorough"
    all_f = [(c, (False,)) for c in SCALES]
    plan_q = {"scale": all_f}
    plan_t = {"scale": [(c, (False, True) if c == -3.0 else (False,)) for c in SCALES]}
    plan = plan_t if thorough else plan_q
    out = []
    seen = set()

    def add(api, nsrc, nchan, lengths, Ms, dists, pl=plan):
        for L in lengths:
            for M in Ms:
                for dist in dists:
                    key = repr((api, nsrc, nchan, L, M, dist))
                    if key in seen:
                        continue
                    seen.add(key)
                    out.append(({"api": api, "nsrc": nsrc, "nchan": nchan, "L": L, "M": M, "dist": dist,
                                 "phase": phase}, pl))
    D3 = ("none", "noise", "fir")
    # one source: gain alphabet complete, every distortion, both lengths, scale edges with both flags
    plan1 = {"scale": [(c, (False, True)) for c in SCALES]}
    for api, nchan in (("sources", 1), ("images", 1), ("images", 2)):
        add(api, 1, nchan, (1024, 1536) if (thorough or nchan == 1) else (1024,), mixings(1, (1.0, 0.5, 0.1)), D3,
            plan1)
    if not thorough:
        add("sources", 2, 1, (2048,), mixings(2, (1.0, 0.0)), D3)
        add("sources", 2, 1, (2048,), mixings(2, (1.0, 0.5)), ("noise",))
        add("images", 2, 1, (2048,), mixings(2, (1.0, 0.0)), ("noise", "fir"))
        add("images", 2, 2, (2048,), leak_mixings(2, (0.5,)), ("noise",))
        # three sources whose best assignment is a 3-cycle (its inverse is a different permutation - with two
        # sources every permutation is its own inverse); no scale edges here, the permutation clauses only
        cyc = [m for m in leak_mixings(3, (0.25,)) if all(m[i][i] != 1.0 for i in range(3))]
        add("sources", 3, 1, (3072,), cyc[:1], ("noise",), {"scale": []})
    else:
        add("sources", 2, 1, (2048,), mixings(2, (1.0, 0.5, 0.1, 0.0)), ("noise", "fir"))
        add("sources", 2, 1, (2048,), mixings(2, (1.0, 0.5, 0.0)), ("none",))
        add("sources", 2, 1, (3072,), mixings(2, (1.0, 0.0)), D3)
        add("images", 2, 1, (2048,), mixings(2, (1.0, 0.5, 0.0)), ("noise", "fir"))
        add("images", 2, 2, (2048,), mixings(2, (1.0, 0.0)), ("noise", "fir"))
        add("sources", 3, 1, (3072,), leak_mixings(3, (0.0, 0.5)), ("noise",))
        add("sources", 3, 1, (3072,), leak_mixings(3, (0.5,)), ("fir",))
        add("images", 3, 1, (3072,), leak_mixings(3, (0.5,)), ("noise",))
        add("images", 3, 2, (3072,), [leak_mixings(3, (0.5,))[0], leak_mixings(3, (0.5,))[3]], ("noise",), plan_q)
    return out


def perfect_alphabet(tier, phase):
    thorough = tier == "thorough"
    combos = [("sources", 1, 1), ("images", 1, 1), ("images", 1, 2), ("sources", 2, 1), ("images", 2, 1),
              ("images", 2, 2)]
    if thorough:
        combos += [("sources", 3, 1), ("images", 3, 1), ("images", 3, 2)]
    out = []
    for api, nsrc, nchan in combos:
        for mult in (2, 3):
            if nsrc == 3 and nchan == 2 and mult == 3:
                continue
            L = mult * nsrc * 512
            for q in bss.permutations(nsrc):
                for cp in (True, False):
                    if not cp and q != tuple(range(nsrc)):
                        continue
                    ident = [[1.0 if i == j else 0.0 for j in range(nsrc)] for i in range(nsrc)]
                    out.append({"kind": "perfect", "api": api, "nsrc": nsrc, "nchan": nchan, "L": L, "M": ident,
                                "dist": "none", "phase": phase, "perfect": list(q), "cp": cp})
    return out


def framewise_alphabet(tier, phase):
    """(api, nsrc, nchan) x length x (window, hop) x compute_permutation x zeroed window."""
    thorough = tier == "thorough"
    combos = [("sources", 1, 1, "all"), ("images", 1, 1, "all"), ("images", 1, 2, "ends"),
              ("sources", 2, 1, "ends"), ("images", 2, 1, "one"), ("images", 2, 2, "one")]
    if thorough:
        combos = [("sources", 1, 1, "all"), ("images", 1, 1, "all"), ("images", 1, 2, "all"),
                  ("sources", 2, 1, "all"), ("images", 2, 1, "all"), ("images", 2, 2, "ends"),
                  ("sources", 3, 1, "one")]
    groups = []
    for api, nsrc, nchan, depth in combos:
        W = nsrc * 1024                                   # every window is itself a valid input (>= 2*nsrc*512)
        lengths = (3 * W, 3 * W + 100) if depth == "all" else (3 * W,) if depth == "ends" else (2 * W,)
        M = [[1.0 if i == j else 0.5 for j in range(nsrc)] for i in range(nsrc)]
        if nsrc == 2:
            M = [[0.5, 1.0], [1.0, 0.1]]                  # off-diagonal dominant: permutation is not the identity
        for L in lengths:
            whs = [(W, W // 2), (W, W), (L, L)]
            if depth == "one":
                # overlapping windows, and the single-window fall-back (window == length) where the framewise
                # variant delegates to the plain one and must forward compute_permutation
                whs = [(W, W // 2), (L, L)] if nsrc == 2 and nchan == 1 else [(W, W // 2)]
            for window, hop in whs:
                for cp in ((False,) if (depth == "one" and nchan == 2) else (True, False)):
                    starts = bss.window_starts(L, window, hop)
                    zeros = [None]
                    if len(starts) >= 2:
                        ks = list(range(len(starts)))
                        if depth == "ends":
                            ks = [0, len(starts) - 1]
                        elif depth == "one":
                            ks = [len(starts) - 1]
                        for which in ("ref", "est"):
                            for i in range(nsrc):
                                if depth == "one" and (which, i) != ("est", 0):
                                    continue
                                for k in ks:
                                    zeros.append([which, i, starts[k], starts[k] + window])
                    grp = []
                    for z in zeros:
                        grp.append({"kind": "framewise", "api": api, "nsrc": nsrc, "nchan": nchan, "L": L, "M": M,
                                    "dist": "noise", "phase": phase, "window": window, "hop": hop, "cp": cp,
                                    "zero": z})
                    cost = UNIT[(nsrc, nchan)] * (nsrc if cp else 1) * max(1, len(starts)) * (2 * len(zeros) + 3)
                    groups.append((grp, cost))
    return groups


def small_alphabet(tier, phase):
    cases = []
    for entry in ENTRIES:
        for shape in EMPTY_SHAPES:
            if entry.startswith("bss_eval_sources") and len(shape) > 2:
                continue                                   # sources are documented as (nsrc, nsampl)
            cases.append({"kind": "empty", "entry": entry, "shape": list(shape)})
    for variant, (_, entries) in DEGENERATE.items():
        for entry in entries:
            cases.append({"kind": "degenerate", "variant": variant, "entry": entry, "phase": phase})
    for api, nsrc, nchan in (("sources", 1, 1), ("images", 1, 1), ("images", 1, 2), ("sources", 2, 1)):
        for kw in EVAL_KW:
            W = nsrc * 1024
            M = [[1.0]] if nsrc == 1 else [[0.5, 1.0], [1.0, 0.1]]
            cases.append({"kind": "evaluate", "api": api, "nsrc": nsrc, "nchan": nchan, "L": 3 * W, "M": M,
                          "dist": "noise", "phase": phase, "kw": kw})
    return cases


def selftest():
    env.selftest()
    assert bss.same_db(20.0, 20.0 + 1e-9) and not bss.same_db(20.0, 20.001)
    assert bss.same_db(float("inf"), 250.0) and not bss.same_db(float("inf"), 150.0)
    assert bss.window_starts(3172, 1024, 512) == [0, 512, 1024, 1536, 2048]
    assert bss.window_starts(100, 1024, 512) == [] and bss.window_starts(1024, 1024, 1024) == [0]
    assert bss.is_permutation(np.array([1.0, 0.0]), 2) and not bss.is_permutation([0, 0], 2)
    s = [1.0, 0.0]
    assert abs(bss.criteria_sources(s, [0.0, 0.0], [0.0, 0.1], [0.0, 0.0])[1] - 20.0) < 1e-9
    assert len(mixings(2, (1.0, 0.5, 0.0))) == 64 and len(leak_mixings(3, (0.0, 0.5))) == 12


def run(run):
    tier, phase = run.tier, run.phase
    mod = __name__
    run.rule = ("one state per distinct input handed to the library: every configuration of the stated finite "
                "alphabet (api x nsrc x nchan x length x mixing matrix x distortion) and every edge target "
                "(scaled / reordered / zeroed-window / perfect / empty / degenerate input); a state is "
                "non-trivial when it has >= 2 sources or >= 2 channels, or is framewise with >= 2 windows")
    run.assumptions = [
        "exploration level: real-valued signals form a continuum; only the finite configuration alphabet built "
        "from a fixed bank of six deterministic signals is enumerated completely; no claim about numerical "
        "conditioning beyond this bank",
        "dB figures are compared through the error-to-signal amplitude ratio 10^(-x/20): equal when they agree to "
        "1e-7 relative + 1e-10 absolute, i.e. figures above 200 dB (rounding noise of the 512-tap projection in "
        "binary64, including +inf) are not distinguished; 'very high SDR' for a perfect estimate means > 200 dB",
        "mean SIR of a permutation is computed with figures capped at 200 dB; permutations whose mean SIR ties "
        "within 1e-6 dB are both accepted (counters *.tie_excluded)",
        "scale invariance for bss_eval_images is demanded for SIR and SAR of every source and for SDR/ISR of the "
        "sources that were NOT scaled: BSS Eval v3 image SDR and ISR are defined against the unfiltered true image "
        "(SDR=|s_img|^2/|est-s_img|^2, ISR=|s_img|^2/|P_j est-s_img|^2), so a gain on estimate or reference k "
        "legitimately changes SDR/ISR of source k; bss_eval_sources figures allow a filter on the target and are "
        "demanded fully invariant (counter scale.images_restricted_states)",
        "a window is silent when some reference or estimated source is all-zero on every sample and channel of "
        "that window; 'NaN in every metric' is demanded of sdr/(isr/)sir/sar, perm is only required to be "
        "independent of the np.empty poison",
        "number of frames = number of full windows k*hop+window <= nsampl; fewer than two full windows -> the "
        "documented fall-back (non-framewise result as a single column)",
        "empty inputs: 1-D/2-D empty shapes for the sources functions, additionally 3-D ones for images, evaluate, "
        "validate; documented arity = 4 (sources) / 5 (images) empty arrays, evaluate returns a dict, validate "
        "returns None (it only warns)",
        "degenerate inputs (hard-panned / mono-as-stereo / antiphase stereo, duplicated impulse references) are "
        "valid per validate()'s documentation (non-silent, equal shapes); only no-raise and arity are demanded there",
    ]
    # (1) configurations and their edges
    pairs = config_alphabet(tier, phase)
    plans = []
    for cfg, pl in pairs:
        if pl not in plans:
            plans.append(pl)
    shards = []
    for pl in plans:
        cfgs = [c for c, p in pairs if p is pl or p == pl]
        costs = [config_cost(c, pl) for c in cfgs]
        nb = max(1, min(len(cfgs), int(round(sum(costs) / (5.0 if tier == "quick" else 60.0))) or 1))
        for b in lpt(cfgs, costs, nb):
            shards.append((b, pl))
    shards.sort(key=lambda s: -sum(config_cost(c, s[1]) for c in s[0]))
    run.explore("configs+edges", mod, "shard_configs", shards,
                note="complete over the stated finite configuration alphabet and edge set; the underlying signal "
                     "space is a continuum (exploration level)")
    # (2) perfect estimates
    pf = perfect_alphabet(tier, phase)
    costs = [UNIT[(c["nsrc"], c["nchan"])] * (c["nsrc"] if c["cp"] else 1) for c in pf]
    run.explore("perfect", mod, "shard_cases", lpt(pf, costs, 16))
    # (3) framewise (groups share the per-window reference results)
    groups = framewise_alphabet(tier, phase)
    bins = lpt([g for g, _ in groups], [c for _, c in groups], 32 if tier == "quick" else 48)
    run.explore("framewise x poisons", mod, "shard_cases", [[c for g in b for c in g] for b in bins])
    # (4) empty, degenerate, evaluate
    small = small_alphabet(tier, phase)
    run.explore("empty+degenerate+evaluate", mod, "shard_cases", core.chunks(small, 16))
    run.require_nonvacuous("config.offdiagonal_dominant_mixing", "config.mixing_with_zero_gain",
                           "config.dist_none", "config.dist_noise", "config.dist_fir",
                           "perm.nonidentity_returned", "follow.reorderings", "scale.edges",
                           "scale.images_restricted_states", "perfect.states",
                           "framewise.silent_windows", "framewise.fallback_single_window",
                           "framewise.remainder_samples",
                           "framewise.zeroed_ref", "framewise.zeroed_est",
                           "empty.inputs", "degenerate.inputs")
    if not run.total.counters.get("framewise.poisoned_allocations", 0):
        # implementation-side counter, reported only: a tree that allocates its result arrays initialised (np.zeros /
        # np.full) has no uninitialised memory to leak, the poison dimension is then degenerate, not an error
        run.assumptions.append("no np.empty allocation was observed in the framewise functions on this tree: the "
                               "poison dimension of the 'framewise x poisons' space is degenerate")
