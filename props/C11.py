"""C11 - chord comparison rules form the documented lattice.

Spaces (complete enumerations):
  pairs        every (reference, estimate) pair of encoding-class representatives: references on two roots (+N, X),
               estimates on all 12 roots (+N, X); all 12 comparison functions, called vectorised on blocks
  self         every estimate-side label compared with itself
  abstraction  every grammar label of C10(a) on the chosen root(s): its comparison vector against a fixed label panel
               (as reference and as estimate) must equal that of its class representative, i.e. the functions see
               a label only through its encoding (this is what licenses the class quotient of `pairs`)
Encoding classes, vocabularies and the expected -1 pattern come from the reference model mc/spec/chord.py.
Clauses: values, minus-one-depends-on-reference-only, vocabulary, vocabulary-bass, implication, self-comparison,
abstraction, no-raise.
"""
import numpy as np

from mc import core
from mc.spec import chord as spec

PID = "C11"
LEVEL = "model_checking"

from mir_eval import chord  # noqa: E402

RULES = spec.RULES
IMPLICATIONS = [("tetrads_inv", "tetrads"), ("tetrads", "triads"), ("triads", "thirds"), ("thirds", "root"),
                ("thirds_inv", "thirds"), ("triads_inv", "triads"), ("majmin_inv", "majmin"),
                ("sevenths_inv", "sevenths"), ("majmin", "triads"), ("sevenths", "tetrads")]
PLAIN = {"majmin_inv": "majmin", "sevenths_inv": "sevenths"}

SHORTHANDS = [None] + sorted(spec.SHORTHANDS)
DEGS = [o + m + str(n) for o in ("", "*") for m in ("", "b", "#") for n in range(1, 14)]
BASSES = [""] + ["/" + m + str(n) for m in ("", "b", "#") for n in range(1, 14)]
SPELL = [["C", "B#", "Dbb"], ["C#", "Db", "B##"], ["D", "C##", "Ebb"], ["Eb", "D#", "Fbb"],
         ["E", "Fb", "D##"], ["F", "E#", "Gbb"], ["F#", "Gb", "E##"], ["G", "F##", "Abb"],
         ["G#", "Ab"], ["A", "G##", "Bbb"], ["Bb", "A#", "Cbb"], ["B", "Cb", "A##"]]


def tail(sh, deglist, bass):
    t = ""
    if sh is not None or deglist:
        t = ":" + (sh or "")
    if deglist:
        t += "(" + deglist + ")"
    return t + bass


def all_tails(with_degrees):
    degl = [""] + (DEGS if with_degrees else [])
    return [tail(sh, dl, b) for sh in SHORTHANDS for dl in degl for b in BASSES]


def spelled(pc, phase):
    s = SPELL[pc % 12]
    return s[phase % len(s)]


def classes(tails, phase):
    """Encoding classes (bitmap, bass) of root-relative tails by the model; returns
    (list of representative tails, dict tail -> representative tail)."""
    groups = {}
    for t in tails:
        lab = spec.parse("C" + t)
        if lab is None:
            raise core.HarnessError("generated label C%s is not grammatical" % t)
        k = spec.class_key(lab)
        if k is None:
            continue            # grammatical but documented as not encodable (aug7, maj11)
        groups.setdefault(k[1:], []).append(t)
    reps, rep_of = [], {}
    for k in sorted(groups):
        members = sorted(groups[k], key=lambda x: (len(x), x))
        rep = members[phase % len(members)]
        reps.append(rep)
        for t in members:
            rep_of[t] = rep
    return reps, rep_of


# --------------------------------------------------------------------------- the oracle on a block
class Model(object):
    """Model-side view of a label list: vocabulary, encoding arrays."""

    def __init__(self, labels):
        self.labels = labels
        self.vocab = []
        self.info = []
        root, bm, bass = [], [], []
        for l in labels:
            lab = spec.parse(l)
            if lab is None:
                raise core.HarnessError("label %r is not grammatical" % l)
            v = spec.vocabulary(lab)
            if v is None:
                raise core.HarnessError("label %r is not encodable by the model" % l)
            self.vocab.append(v)
            e = spec.encode(lab, False, False)
            root.append(e.root)
            bass.append(e.bass)
            bm.append(sum((1 << i) for i, b in enumerate(e.bitmap) if b > 0) if e.status == "ok"
                      else (0 if e.status == "N" else -1))
            self.info.append({"status": e.status, "root": e.root, "bass": e.bass, "tones": sorted(e.tones),
                              "bass_is_chord_tone": e.bass in e.tones})
        self.root = np.array(root)
        self.bm = np.array(bm)
        self.bass = np.array(bass)


def _call_rule(fn, refs, ests):
    try:
        out = getattr(chord, fn)(list(refs), list(ests))
        return None, out
    except Exception as e:  # noqa
        return "raised %s: %s" % (type(e).__name__, e), None


def check_block(acc, refs, ests, neg_state=None, mr=None, me=None, count=True):
    """All pairs refs x ests through the 12 functions (one vectorised call per function) + the lattice oracle.
    neg_state: dict (ref label, fn) -> bool remembered across blocks of the same reference."""
    nr, ne = len(refs), len(ests)
    mr = mr or Model(refs)
    me = me or Model(ests)
    rl = [r for r in refs for _ in range(ne)]
    el = list(ests) * nr
    if neg_state is None:
        neg_state = {}

    def case(i, j, fn, **kw):
        c = {"kind": "block", "refs": [refs[i]], "ests": [ests[j]], "ref": refs[i], "est": ests[j], "fn": fn,
             "ref_model": mr.info[i]}
        c.update(kw)
        return c

    res = {}
    for fn in RULES:
        acc.transitions += nr * ne
        acc.tick(lambda: {"kind": "block", "refs": list(refs), "ests": list(ests[:50]), "fn": fn})
        err, out = _call_rule(fn, rl, el)
        if err is None:
            out = np.asarray(out)
            if out.shape != (nr * ne,) or out.dtype.kind not in "fiu":
                err = "result shape %r dtype %s" % (out.shape, out.dtype)
        if err is not None:
            if nr * ne == 1:
                acc.violation("no-raise", "chord." + fn, case(0, 0, fn), observed=err, expected="one score per pair")
            else:       # localise by bisection on the references, then the estimates
                if nr > 1:
                    h = nr // 2
                    check_block(acc, refs[:h], ests, neg_state, None, me, False)
                    check_block(acc, refs[h:], ests, neg_state, None, me, False)
                else:
                    h = ne // 2
                    check_block(acc, refs, ests[:h], neg_state, mr, None, False)
                    check_block(acc, refs, ests[h:], neg_state, mr, None, False)
            return
        res[fn] = out.astype(float).reshape(nr, ne)
    if count:
        acc.states += nr * ne
        # input-side counters from the model
        eq_root = mr.root[:, None] == me.root[None, :]
        eq_bm = mr.bm[:, None] == me.bm[None, :]
        eq_bass = mr.bass[:, None] == me.bass[None, :]
        chordish = (mr.bm[:, None] > 0) & (me.bm[None, :] > 0)
        acc.counters["pairs.model_same_root_and_bitmap"] += int((eq_root & eq_bm & chordish).sum())
        acc.counters["pairs.model_same_root_and_bitmap_other_bass"] += int((eq_root & eq_bm & ~eq_bass & chordish).sum())
        acc.counters["pairs.model_same_root_same_triad_other_bitmap"] += int(
            (eq_root & ~eq_bm & chordish & ((mr.bm[:, None] & 255) == (me.bm[None, :] & 255))).sum())
        acc.counters["pairs.model_other_root"] += int((~eq_root & chordish).sum())
        acc.nontrivial += int((eq_root & chordish).sum())
        code = np.zeros((nr, ne), dtype=np.int64)
        for fn in RULES:
            code = code * 4 + (np.clip(res[fn], -1, 2).astype(np.int64) + 1)
        for c in np.unique(code).tolist():
            acc.outcome(c)
    # (1) values
    for fn in RULES:
        a = res[fn]
        bad = ~((a == -1) | (a == 0) | (a == 1))
        if bad.any():
            for i, j in np.argwhere(bad)[:3].tolist():
                acc.violation("values", "chord." + fn, case(i, j, fn), observed=float(a[i, j]), expected="-1, 0 or 1")
    # (2) the -1 pattern: reference only, and the documented vocabulary
    for fn in RULES:
        neg = res[fn] == -1
        anyneg = neg.any(axis=1)
        allneg = neg.all(axis=1)
        for i in range(nr):
            acc.conform += 1
            if anyneg[i] != allneg[i]:
                j1 = int(np.argmax(neg[i]))
                j0 = int(np.argmin(neg[i]))
                acc.violation("minus-one-depends-on-reference-only", "chord." + fn,
                              case(i, j1, fn, ests=[ests[j1], ests[j0]]),
                              observed="-1 against %r but not against %r" % (ests[j1], ests[j0]),
                              expected="-1 for all estimates or for none")
                continue
            key = (refs[i], fn)
            prev = neg_state.get(key)
            if prev is None:
                neg_state[key] = (bool(allneg[i]), ests[0])
            elif prev[0] != bool(allneg[i]):
                acc.violation("minus-one-depends-on-reference-only", "chord." + fn,
                              case(i, 0, fn, ests=[ests[0], prev[1]]),
                              observed="-1 pattern differs between %r and %r" % (ests[0], prev[1]),
                              expected="-1 for all estimates or for none")
            exp = mr.vocab[i][fn]
            if exp is None:
                continue
            if bool(allneg[i]) == exp:        # exp True = comparable = never -1
                clause = "vocabulary"
                if fn in PLAIN and exp is False and mr.vocab[i][PLAIN[fn]] is True:
                    clause = "vocabulary-bass"
                acc.violation(clause, "chord." + fn, case(i, 0, fn), observed=float(res[fn][i, 0]),
                              expected="comparable (never -1)" if exp else "-1 (reference outside the vocabulary)")
    # (3) implications
    for a, b in IMPLICATIONS:
        bad = (res[a] == 1) & (res[b] != 1)
        if bad.any():
            for i, j in np.argwhere(bad)[:3].tolist():
                acc.violation("implication", "chord." + a, case(i, j, a, consequent=b),
                              observed={a: float(res[a][i, j]), b: float(res[b][i, j])},
                              expected="%s = 1 implies %s = 1" % (a, b))
    bad = (res["tetrads"] == 1) & (res["mirex"] == 0)
    if bad.any():
        for i, j in np.argwhere(bad)[:3].tolist():
            acc.violation("implication", "chord.tetrads", case(i, j, "tetrads", consequent="mirex"),
                          observed={"tetrads": 1.0, "mirex": 0.0}, expected="a tetrads match is never a mirex mismatch")
    # (4) self comparison (wherever the block contains it)
    if count is not None:
        pos = dict((l, j) for j, l in enumerate(ests))
        for i, l in enumerate(refs):
            j = pos.get(l)
            if j is None:
                continue
            acc.counters["pairs.self"] += 1
            for fn in RULES:
                if res[fn][i, j] == 0:
                    acc.violation("self-comparison", "chord." + fn, case(i, j, fn), observed=0.0, expected="1 or -1")
    return res


def count_vocab(acc, m):
    for v, info in zip(m.vocab, m.info):
        acc.counters["refs.total"] += 1
        if info["status"] in ("N", "X"):
            acc.counters["refs." + info["status"]] += 1
            continue
        for fn in ("majmin", "sevenths", "majmin_inv", "sevenths_inv"):
            acc.counters["refs.%s.%s" % (fn, {True: "in", False: "out", None: "open"}[v[fn]])] += 1
        for fn, plain in PLAIN.items():
            if v[plain] is True and v[fn] is False:
                acc.counters["refs.%s.out_because_bass_is_not_a_chord_tone" % fn] += 1


# --------------------------------------------------------------------------- shards
def shard_pairs(arg):
    refs, ests, block = arg
    acc = core.Acc(PID)
    mr_all = Model(refs)
    count_vocab(acc, mr_all)
    me_blocks = []
    for lo in range(0, len(ests), block):
        me_blocks.append(Model(ests[lo:lo + block]))
    rb = max(1, 40000 // block)
    neg_state = {}
    for lo in range(0, len(refs), rb):
        rch = refs[lo:lo + rb]
        mr = Model(rch)
        for me in me_blocks:
            acc.tick(lambda: {"kind": "block", "refs": rch, "ests": me.labels[:50]})
            check_block(acc, rch, me.labels, neg_state, mr, me)
    acc.sample({"kind": "block", "refs": refs[-1:], "ests": ests[-1:]})
    return acc


def shard_self(arg):
    labels = arg
    acc = core.Acc(PID)
    for lo in range(0, len(labels), 2000):
        ch = labels[lo:lo + 2000]
        acc.tick(lambda: {"kind": "self", "labels": ch[:50]})
        check_self(acc, ch)
    return acc


def check_self(acc, labels):
    for fn in RULES:
        acc.transitions += len(labels)
        acc.tick(lambda: {"kind": "self", "labels": labels[:50], "fn": fn})
        err, out = _call_rule(fn, labels, labels)
        if err is not None:
            if len(labels) == 1:
                acc.violation("no-raise", "chord." + fn, {"kind": "self", "labels": labels, "fn": fn}, observed=err)
            else:
                h = len(labels) // 2
                check_self(acc, labels[:h])
                check_self(acc, labels[h:])
                return
            continue
        out = np.asarray(out)
        for i in np.flatnonzero(out == 0)[:3].tolist():
            acc.violation("self-comparison", "chord." + fn, {"kind": "self", "labels": [labels[i]], "fn": fn},
                          observed=0.0, expected="1 or -1")
    acc.states += len(labels)
    acc.nontrivial += len(labels)
    acc.counters["self.labels"] += len(labels)


def panel_for(root_pc, phase, size):
    r = spelled(root_pc, phase)
    tails = ["", ":min", ":7", ":maj7", ":min7", ":dim", ":aug", ":sus4", ":maj/3", ":maj/5", ":min/b3", ":7/b7",
             ":maj(9)", ":maj(*3)", ":1", ":5", ":hdim7", ":maj/b7", ":maj6", ":min(b7)", ":sus2", ":9",
             ":maj7/7", ":(3)", ":dim7", ":13", ":min6", ":minmaj7", ":maj(#11)", ":sus4(b7)"]
    other = [(7, ":maj"), (7, ":min"), (4, ":min"), (4, ":maj/5"), (5, ":maj"), (5, ":7"), (9, ":min7"),
             (3, ":maj")]
    n_other = 4 if size < 40 else 8
    n_same = size - 2 - n_other
    return [r + t for t in tails[:n_same]] + ["N", "X"] + \
        [spelled(root_pc + d, phase + 1) + t for d, t in other[:n_other]]


def vectors(acc, labels, panel):
    """label -> comparison vector (12 rules x 2 directions x |panel|) through the library; None on a raise."""
    n, p = len(labels), len(panel)
    a = [l for l in labels for _ in range(p)]
    b = list(panel) * n
    out = np.zeros((n, len(RULES), 2, p))
    for k, fn in enumerate(RULES):
        acc.transitions += 2 * n * p
        acc.tick(lambda: {"kind": "abstraction", "label": labels[0], "rep": labels[0], "panel": panel, "fn": fn})
        e1, r1 = _call_rule(fn, a, b)
        acc.tick(lambda: {"kind": "abstraction", "label": labels[0], "rep": labels[0], "panel": panel, "fn": fn})
        e2, r2 = _call_rule(fn, b, a)
        if e1 is not None or e2 is not None:
            if n == 1:
                acc.violation("no-raise", "chord." + fn, {"kind": "abstraction", "label": labels[0], "rep": labels[0],
                                                          "panel": panel, "fn": fn}, observed=e1 or e2)
                return None
            h = n // 2
            v1, v2 = vectors(acc, labels[:h], panel), vectors(acc, labels[h:], panel)
            if v1 is None or v2 is None:
                return None
            return np.concatenate([v1, v2])
        out[:, k, 0, :] = np.asarray(r1, dtype=float).reshape(n, p)
        out[:, k, 1, :] = np.asarray(r2, dtype=float).reshape(n, p)
    return out


def check_abstraction(acc, items, panel, rep_vec=None, batch=200):
    """items: list of (label, representative label)."""
    rep_vec = {} if rep_vec is None else rep_vec
    need = sorted(set(r for _, r in items if r not in rep_vec))
    for lo in range(0, len(need), batch):
        ch = need[lo:lo + batch]
        acc.tick(lambda: {"kind": "abstraction", "label": ch[0], "rep": ch[0], "panel": panel})
        v = vectors(acc, ch, panel)
        if v is None:
            continue
        for l, row in zip(ch, v):
            rep_vec[l] = row
    todo = [(l, r) for l, r in items if l != r]
    acc.counters["abstraction.representatives"] += len(items) - len(todo)
    for lo in range(0, len(todo), batch):
        ch = todo[lo:lo + batch]
        acc.tick(lambda: {"kind": "abstraction", "label": ch[0][0], "rep": ch[0][1], "panel": panel})
        v = vectors(acc, [l for l, _ in ch], panel)
        if v is None:
            continue
        for (l, r), row in zip(ch, v):
            acc.states += 1
            acc.nontrivial += 1
            acc.conform += 1
            acc.counters["abstraction.label_differs_from_representative"] += 1
            ref = rep_vec.get(r)
            if ref is None:
                continue
            if not np.array_equal(row, ref):
                k, d, j = np.argwhere(row != ref)[0].tolist()
                acc.violation("abstraction", "chord." + RULES[k],
                              {"kind": "abstraction", "label": l, "rep": r, "panel": panel, "fn": RULES[k],
                               "direction": "label as reference" if d == 0 else "label as estimate",
                               "other": panel[j]},
                              observed=float(row[k, d, j]), expected=float(ref[k, d, j]))


def shard_abstraction(arg):
    items, panel = arg
    acc = core.Acc(PID)
    check_abstraction(acc, items, panel)
    acc.sample({"kind": "abstraction", "label": items[-1][0], "rep": items[-1][1], "panel": panel})
    return acc


# --------------------------------------------------------------------------- driver
def replay(case, acc):
    k = case["kind"]
    if k == "block":
        check_block(acc, case["refs"], case["ests"])
    elif k == "self":
        check_self(acc, case["labels"])
    elif k == "abstraction":
        check_abstraction(acc, [(case["rep"], case["rep"]), (case["label"], case["rep"])], case["panel"])
    else:
        raise core.HarnessError("unknown case kind %r" % k)


def run(run):
    thorough = run.tier == "thorough"
    ph = run.phase
    mod = __name__
    run.rule = ("a state is an ordered (reference, estimate) label pair evaluated by all 12 rules (pairs are distinct: "
                "labels are distinct class representatives x roots), or a label of the abstraction space; a pair is "
                "non-trivial when both are chords on the same root (only then can a rule other than mirex match)")
    run.assumptions = [
        "references are class representatives on two roots (%s, %s) + N + X; estimates on all 12 roots + N + X; the "
        "restriction of the reference root relies on C09 (joint transposition)" % (
            spelled(ph, ph), spelled(ph + 8, ph)),
        "encoding classes are computed by the reference model (bitmap, bass), never by the library; that the "
        "library's rules factor through these classes is checked by the abstraction space",
        "vocabulary of majmin: triad (semitones 0-7, resp. 0-8: 'through the #5th') of the *encoded* bitmap "
        "(bass included, as C10 states) is maj or min; answered only where both readings agree",
        "vocabulary of sevenths: encoded bitmap is one of maj, min, maj7, 7, min7; N is in every vocabulary; "
        "X is in none",
        "*_inv: the reference's bass must be a chord tone; demanded -1 only when the bass is not among the "
        "tones the label spells before the bass is inserted; demanded comparable only when it is in the triad "
        "(majmin_inv) / a spelled tone (sevenths_inv)",
        "mirex: no vocabulary is demanded beyond 'X is ignored' and dependence of -1 on the reference only",
        "labels whose shorthand has no documented content (aug7, maj11) are not encodable and are excluded",
    ]
    tails = all_tails(thorough)
    reps, _ = classes(tails, ph)
    ests = [spelled(pc, ph) + t for pc in range(12) for t in reps] + ["N", "X"]
    refs = [spelled(pc, ph) + t for pc in (ph % 12, (ph + 8) % 12) for t in reps] + ["N", "X"]
    block = 2000
    run.explore("pairs %d refs x %d ests x 12 rules" % (len(refs), len(ests)), mod, "shard_pairs",
                [(ch, ests, block) for ch in core.chunks(refs, 64)])
    run.explore("self-comparison of %d labels" % len(ests), mod, "shard_self", core.chunks(ests, 16))
    # abstraction: all C10(a) labels on the chosen roots
    full = all_tails(True)
    reps_full, rep_of = classes(full, ph)
    conf_roots = [ph % 12] + ([(ph + 8) % 12, (ph + 3) % 12] if thorough else [])
    shards = []
    for pc in conf_roots:
        r = spelled(pc, ph + 1 if pc != ph % 12 else ph)
        panel = panel_for(pc, ph, 40 if thorough else 24)
        items = sorted(((r + t, r + rep_of[t]) for t in full if t in rep_of), key=lambda x: (x[1], x[0]))
        # whole classes stay in one shard so that each representative is evaluated once
        groups = {}
        for l, rp in items:
            groups.setdefault(rp, []).append((l, rp))
        glist = [groups[k] for k in sorted(groups)]
        nsh = 48
        buckets = [[] for _ in range(nsh)]
        sizes = [0] * nsh
        for g in sorted(glist, key=lambda g: -len(g)):
            i = sizes.index(min(sizes))
            buckets[i].extend(g)
            sizes[i] += len(g) + 1
        shards.extend((b, panel) for b in buckets if b)
    run.explore("abstraction: %d labels x %d roots vs panel" % (len(rep_of), len(conf_roots)), mod,
                "shard_abstraction", shards)
    run.require_nonvacuous(
        "pairs.model_same_root_and_bitmap", "pairs.model_same_root_and_bitmap_other_bass",
        "pairs.model_same_root_same_triad_other_bitmap", "pairs.model_other_root", "pairs.self",
        "refs.N", "refs.X", "refs.majmin.in", "refs.majmin.out", "refs.sevenths.in", "refs.sevenths.out",
        "refs.majmin_inv.in", "refs.majmin_inv.out", "refs.sevenths_inv.in", "refs.sevenths_inv.out",
        "refs.majmin_inv.out_because_bass_is_not_a_chord_tone",
        "refs.sevenths_inv.out_because_bass_is_not_a_chord_tone",
        "self.labels", "abstraction.label_differs_from_representative")
