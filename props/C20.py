"""C20 - annotation files load back to exactly what they encode (fault enumeration).

Every state is one *file* (an abstract annotation = list of rows of field texts, rendered with one
delimiter style, one comment configuration, one line-terminator convention) offered to one loader
through one kind of input (StringIO, path, open file handle), optionally with ONE fault applied to
one row.  Files are enumerated breadth-first over lines (0, 1, 2 [,3] rows over a per-loader row
alphabet); nothing is sampled.

Oracle (mc/spec/io_model.py, standard library only, no float(str), no re):
  roundtrip      the loader returns exactly the documented structure: container types, shapes,
                 dtype, strings, and every float bit-identical (struct.pack('>d')) to the value of
                 the written decimal literal obtained by exact rational arithmetic
  convention-*   content that parses but violates a task convention is returned (same exact
                 comparison) with >=1 warning and no exception
  multiline-/weight-raises-ValueError   >=2 data rows in a key/tempo file, tempo weight outside [0,1]
  fault-*        a row with the wrong number of columns / an unparsable number raises ValueError whose
                 message contains the 1-based physical line number of that row (ragged loader: 0- or 1-based)
  header-skipped load_ragged_time_series(header=True) loads a file whose first line is a header
Pattern files: every line sequence up to a depth over {pattern header, occurrence header, two data
lines} plus every structured file with <=2 patterns x <=2 occurrences x <=2 notes; only files that
conform to the MIREX grammar are judged (others are executed and tallied).
"""
import atexit
import io as _io
import itertools
import locale
import os
import re
import shutil
import struct
import tempfile
import warnings

import numpy as np

from mc import core
from mc.spec import io_model as M

PID = "C20"
LEVEL = "fault_enumeration"

import mir_eval
from mir_eval import io as mio

LOADERS = {
    "events": mio.load_events,
    "labeled_events": mio.load_labeled_events,
    "intervals": mio.load_intervals,
    "labeled_intervals": mio.load_labeled_intervals,
    "valued_intervals": mio.load_valued_intervals,
    "time_series": mio.load_time_series,
    "key": mio.load_key,
    "tempo": mio.load_tempo,
    "ragged_time_series": mio.load_ragged_time_series,
    "patterns": mio.load_patterns,
}


def selftest():
    M.selftest()


# --------------------------------------------------------------------------- private temp dir
_TMP = {"dir": None, "pid": None}


def _tmpdir():
    """One private directory per process, created with tempfile.mkdtemp(), never under /repo or /verif."""
    if _TMP["dir"] is None or _TMP["pid"] != os.getpid():
        shm = "/dev/shm"
        d = tempfile.mkdtemp(prefix="c20_", dir=shm if os.path.isdir(shm) and os.access(shm, os.W_OK) else None)
        real = os.path.realpath(d)
        for bad in ("/repo", "/verif", core.VERIF):
            if real == bad or real.startswith(bad.rstrip("/") + "/"):
                shutil.rmtree(d, ignore_errors=True)
                raise core.HarnessError("temp dir %s lies under %s" % (real, bad))
        _TMP["dir"], _TMP["pid"] = d, os.getpid()
        atexit.register(_cleanup_tmp, d)
    return _TMP["dir"]


def _cleanup_tmp(d=None):
    d = d or _TMP["dir"]
    if d:
        shutil.rmtree(d, ignore_errors=True)
    if d == _TMP["dir"]:
        _TMP["dir"] = None


# --------------------------------------------------------------------------- canonical form of results
def canon(x):
    if isinstance(x, np.ndarray):
        if x.dtype == np.float64:
            flat = x.reshape(-1)
            return ("nd", "f8", tuple(int(s) for s in x.shape),
                    tuple(struct.pack(">d", float(v)).hex() for v in flat))
        if x.dtype.kind in "iu":
            return ("nd", "i", tuple(int(s) for s in x.shape), tuple(int(v) for v in x.reshape(-1)))
        return ("nd", x.dtype.str, tuple(int(s) for s in x.shape), tuple(repr(v) for v in x.reshape(-1)))
    if isinstance(x, bool):
        return ("bool", x)
    if isinstance(x, float):                     # includes np.float64
        return ("float", struct.pack(">d", float(x)).hex())
    if isinstance(x, str):
        return ("str", str(x))
    if isinstance(x, list):
        return ("list", tuple(canon(v) for v in x))
    if isinstance(x, tuple):
        return ("tuple", tuple(canon(v) for v in x))
    return ("other", type(x).__name__, repr(x))


def _first_diff(a, b, path="result"):
    """Human-readable location of the first difference between two canonical values."""
    if a == b:
        return None
    if isinstance(a, tuple) and isinstance(b, tuple) and a and b and a[0] == b[0] and a[0] in ("list", "tuple"):
        if len(a[1]) != len(b[1]):
            return "%s: length %d, expected %d" % (path, len(a[1]), len(b[1]))
        for i, (u, v) in enumerate(zip(a[1], b[1])):
            d = _first_diff(u, v, "%s[%d]" % (path, i))
            if d:
                return d
    if isinstance(a, tuple) and isinstance(b, tuple) and a[:1] == b[:1] == ("nd",):
        if a[1] != b[1]:
            return "%s: dtype %s, expected %s" % (path, a[1], b[1])
        if a[2] != b[2]:
            return "%s: shape %s, expected %s" % (path, a[2], b[2])
        for i, (u, v) in enumerate(zip(a[3], b[3])):
            if u != v:
                return "%s.flat[%d]: %s, expected %s" % (path, i, _show(a[1], u), _show(b[1], v))
    return "%s: %s, expected %s" % (path, _short(a), _short(b))


def _show(kind, v):
    if kind == "f8":
        return "%r (0x%s)" % (struct.unpack(">d", bytes.fromhex(v))[0], v)
    return repr(v)


def _short(c):
    s = repr(c)
    return s if len(s) < 200 else s[:200] + "..."


# --------------------------------------------------------------------------- does a message name a row?
def names_row(msg, rows, strip_texts):
    """True when ``msg`` contains one of the integers ``rows`` as a free-standing token once the file
    name and the offending line's own text have been blanked out."""
    for t in sorted((t for t in strip_texts if t), key=len, reverse=True):
        msg = msg.replace(t, " ")
    return any(re.search(r"(?<![\w.+\-])%d(?![\w.])" % r, msg) is not None for r in rows)


# --------------------------------------------------------------------------- one execution
def _open_input(kind, text):
    """-> (object handed to the loader, its printable name, closer)"""
    if kind == "sio":
        f = _io.StringIO(text)
        return f, str(f), None
    _SEQ[0] += 1
    path = os.path.join(_tmpdir(), "f%d.txt" % _SEQ[0])      # fresh name: rewriting one file is slow on ext4
    with open(path, "w", encoding="utf-8", newline="") as out:
        out.write(text)
    if kind == "path":
        return path, path, lambda: os.unlink(path)
    if kind == "fh":
        f = open(path, "r", encoding="utf-8")
        return f, str(f), lambda: (f.close(), os.unlink(path))
    raise core.HarnessError("unknown io kind %r" % kind)


_SEQ = [0]


def _call(loader, kind, text, kwargs):
    fobj, name, closer = _open_input(kind, text)
    fn = LOADERS[loader]
    res = exc = None
    with warnings.catch_warnings(record=True) as wlist:
        warnings.simplefilter("always")
        try:
            res = fn(fobj, **kwargs)
        except Exception as e:  # noqa - an exception is an observation, judged below
            exc = e
    if closer:
        closer()
    return res, exc, [str(w.message) for w in wlist], name


def _exc_str(exc):
    return "raised %s: %s" % (type(exc).__name__, str(exc)[:200])


def apply_fault(rows, fault):
    rows = [list(r) for r in rows]
    r = rows[fault["row"]]
    op = fault["op"]
    if op == "delete":
        del r[fault["field"]]
    elif op == "add":
        r.insert(fault["field"], fault["text"])
    elif op == "replace":
        r[fault["field"]] = fault["text"]
    elif op == "blank":
        del r[:]
    else:
        raise core.HarnessError("unknown fault op %r" % op)
    return rows


def check_case(acc, case):
    """Execute one file state through its loader and judge it.  ``case`` is the JSON-able state."""
    loader = case["loader"]
    if loader == "patterns":
        return check_patterns(acc, case)
    site = "io.load_" + loader
    delim_kw, sep, sem = M.STYLES[case["style"]]
    markers = case["markers"]
    dtype = case.get("dtype", "float")
    header = case.get("header")
    fault = case.get("fault")
    rows = case["rows"]
    frows = apply_fault(rows, fault) if fault else rows
    lines, where = M.render_lines(frows, sep, [tuple(c) for c in case["clines"]], header)
    text = M.render_text(lines, case["eol"], case["trail"])
    if lines and lines[-1] == "" and not case["trail"]:
        lines = lines[:-1]            # an empty last line without terminator is not a physical line
    parsed = M.model_parse(loader, lines, sem, markers, dtype, header is not None)

    kwargs = {}
    if delim_kw is not None:
        kwargs["delimiter"] = delim_kw
    if case["comment"] == "none":
        kwargs["comment"] = None
    elif case["comment"] != "default":
        kwargs["comment"] = case["comment"]
    if loader == "ragged_time_series":
        if dtype == "int":
            kwargs["dtype"] = int
        if header is not None:
            kwargs["header"] = True

    if fault:
        if parsed[0] == "rows":
            acc.counters["fault.masked_row_still_legal"] += 1
            return
        bad_line = parsed[1]
        if bad_line != where[fault["row"]]:
            raise core.HarnessError("fault not located in the faulted row: %r" % (case,))
        acc.counters["fault." + fault["op"]] += 1
        if bad_line >= 4:
            acc.counters["fault.row_number_unambiguous(>=4)"] += 1
        if bad_line != fault["row"] + 1:
            acc.counters["fault.line_number_differs_from_data_row_index"] += 1
        # the property says "naming the row" without fixing a numbering base: load_delimited documents its
        # rows 1-based by construction (all eight delimited loaders agree), the ragged loader counts
        # physical lines from 0 without a header - either base is accepted for that loader only
        accepted = [bad_line]
        if loader == "ragged_time_series":
            accepted.append(bad_line - 1)
            acc.counters["fault.ragged"] += 1
            if bad_line >= 3:
                acc.counters["fault.ragged.row>=3(neither base ambiguous)"] += 1
        res, exc, wl, name = _call(loader, case["io"], text, kwargs)
        acc.transitions += 1
        acc.conform += 1
        acc.outcome((loader, "fault", fault["op"], type(exc).__name__ if exc else "returned"))
        if exc is None:
            acc.violation("fault-raises-ValueError", site, case, observed="returned " + _short(canon(res)),
                          expected="ValueError naming line %d (%s)" % (bad_line, parsed[2]))
        elif not isinstance(exc, ValueError):
            acc.violation("fault-raises-ValueError", site, case, observed=_exc_str(exc),
                          expected="ValueError naming line %d (%s)" % (bad_line, parsed[2]))
        elif not names_row(str(exc), accepted, [name, lines[bad_line - 1]]):
            acc.violation("fault-names-row", site, case, observed=_exc_str(exc),
                          expected="message containing the line number %s" % " or ".join(map(str, accepted)))
        return

    if parsed != ("rows", [list(r) for r in rows]):
        raise core.HarnessError("builder and scanner disagree on a well-formed file: %r -> %r" % (case, parsed))
    cls = M.classify(loader, rows)
    res, exc, wl, name = _call(loader, case["io"], text, kwargs)
    acc.transitions += 1
    acc.outcome((loader, cls, type(exc).__name__ if exc else "returned", len(rows), bool(wl)))
    if cls == "undemanded":
        acc.counters["undemanded.%s.%s" % (loader, type(exc).__name__ if exc else "returned")] += 1
        return
    acc.conform += 1
    if cls == "error:multiline":
        acc.counters["%s.multiline" % loader] += 1
        if not isinstance(exc, ValueError):
            acc.violation("multiline-raises-ValueError", site, case,
                          observed=_exc_str(exc) if exc else "returned " + _short(canon(res)),
                          expected="ValueError")
        return
    if cls == "error:weight":
        acc.counters["tempo.weight_outside_unit_interval"] += 1
        if not isinstance(exc, ValueError):
            acc.violation("weight-raises-ValueError", site, case,
                          observed=_exc_str(exc) if exc else "returned " + _short(canon(res)),
                          expected="ValueError")
        return
    viol = M.convention_violations(loader, rows)
    for v in viol:
        acc.counters["convention." + v] += 1
    clause = "header-skipped" if header is not None else "roundtrip"
    expected = M.expected_structure(loader, rows, dtype)
    if exc is not None:
        acc.violation("convention-returned-not-raised" if viol else clause, site, case, observed=_exc_str(exc),
                      expected=_short(expected))
        return
    got = canon(res)
    if got != expected:
        acc.violation(clause, site, case, observed=_first_diff(got, expected), expected=_short(expected))
    if viol and not wl:
        acc.violation("convention-warns", site, case, observed="no warning", expected="warning for " + ",".join(viol))


# --------------------------------------------------------------------------- pattern files
def render_pattern_lines(tokens, dsep):
    lines = []
    np_, no_ = 0, 0
    for t in tokens:
        if t == "P":
            np_ += 1
            no_ = 0
            lines.append("pattern%d" % np_)
        elif t == "O":
            no_ += 1
            lines.append("occurrence%d" % no_)
        else:
            lines.append(dsep.join(t[1:]))
    return lines


def check_patterns(acc, case):
    site = "io.load_patterns"
    tokens = [t if isinstance(t, str) else tuple(t) for t in case["tokens"]]
    fault = case.get("fault")
    model, conforming = M.patterns_by_machine(tokens)
    ftokens = list(tokens)
    if fault:
        t = list(ftokens[fault["row"]])
        if t[0] != "D" or not conforming:
            raise core.HarnessError("pattern faults apply to data lines of conforming files: %r" % (case,))
        if fault["op"] == "delete":
            del t[1 + fault["field"]]
        elif fault["op"] == "replace":
            t[1 + fault["field"]] = fault["text"]
        else:
            raise core.HarnessError("fault op %r is not demanded for pattern files" % fault["op"])
        ftokens[fault["row"]] = tuple(t)
    lines = render_pattern_lines(ftokens, case["dsep"])
    text = M.render_text(lines, case["eol"], case["trail"])
    res, exc, wl, name = _call("patterns", case["io"], text, {})
    acc.transitions += 1
    if fault:
        bad_line = fault["row"] + 1
        acc.conform += 1
        acc.counters["fault.patterns." + fault["op"]] += 1
        acc.outcome(("patterns", "fault", fault["op"], type(exc).__name__ if exc else "returned"))
        if not isinstance(exc, ValueError):
            acc.violation("fault-raises-ValueError", site, case,
                          observed=_exc_str(exc) if exc else "returned " + _short(canon(res)),
                          expected="ValueError naming line %d" % bad_line)
        elif not names_row(str(exc), [bad_line], [name, lines[bad_line - 1]]):
            acc.violation("fault-names-row", site, case, observed=_exc_str(exc),
                          expected="message containing the 1-based line number %d" % bad_line)
        return
    expected = M.expected_patterns(model)
    got = None if exc is not None else canon(res)
    acc.outcome(("patterns", conforming, type(exc).__name__ if exc else "returned",
                 len(model), sum(len(p) for p in model)))
    if not conforming:
        acc.counters["patterns.nonconforming_files_executed_not_judged"] += 1
        if exc is not None:
            acc.counters["patterns.nonconforming.raised_" + type(exc).__name__] += 1
        elif got != expected:
            acc.counters["patterns.nonconforming.differs_from_lenient_reading"] += 1
        return
    acc.conform += 1
    acc.counters["patterns.conforming"] += 1
    if len(model) >= 2:
        acc.counters["patterns.two_or_more_patterns"] += 1
    if any(len(p) >= 2 for p in model):
        acc.counters["patterns.pattern_with_two_or_more_occurrences"] += 1
    if exc is not None:
        acc.violation("roundtrip", site, case, observed=_exc_str(exc), expected=_short(expected))
    elif got != expected:
        acc.violation("roundtrip", site, case, observed=_first_diff(got, expected), expected=_short(expected))


# --------------------------------------------------------------------------- alphabets
CUSTOM_MARKERS = ["%", "//", ";", "!", "@", "~", "&", ">"]
UNPARSABLE = ["abc", "xyz", "1.2.3", "--1", "1e", "e5", "one", "1.5x"]
LETTERS = "abcdefgh"


def numeric_texts(phase, tier):
    vals = [0.0, 1.5, -2.25, 0.001, 0.1, 123456.789012345, 1e10, 5e-324, -0.0,
            (phase + 1) / 7.0, 0.5 + phase / 4.0]
    alt = ["1e3", "+1.0", ".5", "5.", "1E-3", "7"]
    if tier == "thorough":
        vals += [1e22, 1.7976931348623157e308, 2.2250738585072014e-308, -1e-5, 30000.0]
        alt += ["-.5e+1", "00.5", "1e+0"]
    out = []
    for t in [repr(v) for v in vals] + alt:
        if t not in out:
            out.append(t)
    return out


def label_texts(phase, tier):
    L = LETTERS[phase]
    m = CUSTOM_MARKERS[phase]
    out = [L, L + " b", L + "  b\tc", "é♯", "#x", "1.0", "N", "x,y", m + "z",
           # characters that str.splitlines() treats as line boundaries but that are NOT newlines of a text file
           # (VT, FF, FS/GS/RS, NEL, LS, PS): legal inside a label, and white space for the default delimiter
           L + "\x0b\x0cb", L + "\x1c\x1d\x1eb", L + "\x85\u2028\u2029b"]
    if tier == "thorough":
        out += [L + " b", "日本 語", "\U0001d11e", "x , y", "C:maj7/b3 # not a comment", "pattern 1"]
    return out


def star_rows(alphabets, base):
    """Row alphabet: the base row with one field at a time running over its alphabet."""
    rows = [tuple(base)]
    for i, al in enumerate(alphabets):
        for t in al:
            r = list(base)
            r[i] = t
            r = tuple(r)
            if r not in rows:
                rows.append(r)
    return rows


def row_alphabet(loader, phase, tier):
    kinds = M.FORMATS[loader]
    nums = numeric_texts(phase, tier)
    labs = label_texts(phase, tier)
    nbase = [repr(0.5 + phase), repr(1.5 + phase), repr(2.5 + phase)]
    base = [nbase[i] if k == "f" else labs[0] for i, k in enumerate(kinds)]
    rows = star_rows([nums if k == "f" else labs for k in kinds], base)
    # one row with every field at an extreme at once
    rows.append(tuple("5e-324" if k == "f" else labs[2] for k in kinds))
    return rows


def sub_alphabet(A, n):
    """About n rows of A spread evenly (always the base row A[0] and the last, all-extreme, row)."""
    if len(A) <= n:
        return list(A)
    step = max(1, (len(A) - 2) // max(1, n - 2))
    out = [A[0]] + list(A[1:-1:step])[:n - 2] + [A[-1]]
    return out


def two_row_files(A, all_pairs=False, nsub=7):
    """Files with 0, 1, 2 rows over row alphabet A.  Quick: every row alone, every row before and after
    the base row, every row doubled, and all ordered pairs over a spread sub-alphabet; thorough: all pairs."""
    files = [()] + [(a,) for a in A]
    if all_pairs:
        files += [(a, b) for a in A for b in A]
        return files
    base = A[0]
    seen = set(files)
    for f in [(a, base) for a in A] + [(base, a) for a in A] + [(a, a) for a in A] + \
             [(a, b) for a in sub_alphabet(A, nsub) for b in sub_alphabet(A, nsub)]:
        if f not in seen:
            seen.add(f)
            files.append(f)
    return files


def comment_configs(nrows, phase, tier, lite=False):
    """[(comment kwarg text, markers, clines)]"""
    m = CUSTOM_MARKERS[phase]
    out = [("default", ["#"], [])]
    texts = ["# c d", "#"] if lite else ["# c d", "#", "#0.5 1.5"]
    for pos in range(nrows + 1):
        for t in texts:
            out.append(("default", ["#"], [[pos, t]]))
    out.append((m, [m], []))
    for pos in range(nrows + 1):
        out.append((m, [m], [[pos, m + " c d"]]))
        if not lite:
            out.append((m, [m], [[pos, m]]))
    out.append(("none", [], []))
    if tier == "thorough" and not lite:
        for p1 in range(nrows + 1):
            for p2 in range(p1, nrows + 1):
                out.append(("default", ["#"], [[p1, "# one"], [p2, "#two"]]))
        out.append(("[#%]", ["#", "%"], [[0, "# c"], [nrows, "% d"]]))
        out.append(("#", ["#"], [[0, "# explicit default marker"]]))
    return out


EOLS = [("\n", True), ("\n", False), ("\r\n", True), ("\r\n", False)]


def file_variants(nrows, phase, tier, styles, lite=False):
    for style in styles:
        for ckw, markers, clines in comment_configs(nrows, phase, tier, lite):
            nlines = nrows + len(clines)
            for eol, trail in (EOLS if nlines else EOLS[:1]):
                yield style, ckw, markers, clines, eol, trail


def _count_inputs(acc, case):
    c = acc.counters
    rows = case["rows"]
    c["delim." + case["style"]] += 1
    c["io." + case["io"]] += 1
    if case["eol"] == "\r\n":
        c["eol.crlf"] += 1
    if not case["trail"]:
        c["eol.no_trailing_newline"] += 1
    if case["clines"]:
        pos = [p for p, _ in case["clines"]]
        if 0 in pos:
            c["comment.first_line"] += 1
        if len(rows) in pos:
            c["comment.last_line"] += 1
        if any(0 < p < len(rows) for p in pos):
            c["comment.between_rows"] += 1
        if case["comment"] not in ("default", "none"):
            c["comment.custom_marker"] += 1
    if case["comment"] == "none":
        c["comment.disabled"] += 1
    kinds = M.FORMATS.get(case["loader"])
    for r in rows:
        if kinds is None and len(r) == 1:
            c["ragged.row_without_values"] += 1
        for i, t in enumerate(r):
            k = kinds[i] if kinds else "f"
            if k == "s":
                if any(ch.isspace() for ch in t):
                    c["label.internal_whitespace"] += 1
                if "#" in t:
                    c["label.contains_hash"] += 1
                if any(ord(ch) > 127 for ch in t):
                    c["label.non_ascii"] += 1
            else:
                if t in ("5e-324",):
                    c["number.subnormal"] += 1
                if t == "-0.0":
                    c["number.negative_zero"] += 1
                if t in ("1e3", "+1.0", ".5", "5.", "1E-3", "7", "-.5e+1", "00.5", "1e+0"):
                    c["number.alternative_spelling"] += 1
                if len(t) >= 15:
                    c["number.long_literal(>=15chars)"] += 1


def _base_case(loader, rows, style, ckw, markers, clines, eol, trail, iokind, extra=None):
    case = {"kind": "file", "loader": loader, "rows": [list(r) for r in rows], "style": style,
            "comment": ckw, "markers": markers, "clines": clines, "eol": eol, "trail": trail, "io": iokind}
    if extra:
        case.update(extra)
    return case


# --------------------------------------------------------------------------- shards
def shard_files(arg):
    """arg: dict(loader, files=[tuple of row tuples], phase, tier, styles, ios_by_depth, lite, extra)"""
    acc = core.Acc(PID)
    loader, phase, tier = arg["loader"], arg["phase"], arg["tier"]
    extra = arg.get("extra")
    try:
        for rows in arg["files"]:
            n = len(rows)
            ios = arg["ios"][min(n, len(arg["ios"]) - 1)]
            for style, ckw, markers, clines, eol, trail in file_variants(n, phase, tier, arg["styles"],
                                                                         arg.get("lite", False)):
                for iokind in ios:
                    case = _base_case(loader, rows, style, ckw, markers, clines, eol, trail, iokind, extra)
                    acc.states += 1
                    acc.tick(case)
                    if n >= 1:
                        acc.nontrivial += 1
                    _count_inputs(acc, case)
                    check_case(acc, case)
        if arg["files"]:
            acc.sample(case)
    finally:
        _cleanup_tmp()
    return acc


def fault_list(loader, row, phase, dtype="float"):
    """Single faults applicable to one row (list of field texts)."""
    bad = UNPARSABLE[phase]
    out = [{"op": "blank", "field": 0, "text": ""}]
    if loader == "ragged_time_series":
        out.append({"op": "replace", "field": 0, "text": bad})
        if len(row) == 1:
            out.append({"op": "delete", "field": 0, "text": ""})
        for j in range(1, len(row)):
            out.append({"op": "replace", "field": j, "text": bad})
            if dtype == "int":
                out.append({"op": "replace", "field": j, "text": "1.5"})
        return out
    kinds = M.FORMATS[loader]
    for j in range(len(row)):
        out.append({"op": "delete", "field": j, "text": ""})
    for j, k in enumerate(kinds):
        if k == "f":
            out.append({"op": "replace", "field": j, "text": bad})
            if bad != "abc":
                out.append({"op": "replace", "field": j, "text": "abc"})
    if loader in M.NUMERIC_ONLY:
        for j in range(len(row) + 1):
            out.append({"op": "add", "field": j, "text": "9.5"})
    return out


def fault_comment_configs(nrows, phase):
    m = CUSTOM_MARKERS[phase]
    out = [("default", ["#"], []),
           ("default", ["#"], [[0, "# c"], [0, "#"], [0, "# 0.5 1.25"]]),
           (m, [m], [[0, m + " c"], [0, m], [0, m + "d"]]),
           ("none", [], [])]
    if nrows >= 2:
        out.append(("default", ["#"], [[0, "# c"], [1, "# d"], [nrows, "# e"]]))
    return out


def shard_faults(arg):
    acc = core.Acc(PID)
    loader, phase = arg["loader"], arg["phase"]
    extra = arg.get("extra") or {}
    dtype = extra.get("dtype", "float")
    htext = arg.get("htext")
    try:
        for rows in arg["files"]:
            n = len(rows)
            for style in arg["styles"]:
                if htext:
                    extra = dict(extra, header=M.STYLES[style][1].join(htext))
                for ckw, markers, clines in fault_comment_configs(n, phase):
                    for eol, trail in EOLS:
                        for iokind in arg["ios"]:
                            for i in range(n):
                                for f in fault_list(loader, rows[i], phase, dtype):
                                    case = _base_case(loader, rows, style, ckw, markers, clines, eol, trail,
                                                      iokind, extra)
                                    case["fault"] = dict(f, row=i)
                                    acc.states += 1
                                    acc.nontrivial += 1
                                    acc.tick(case)
                                    check_case(acc, case)
        if arg["files"]:
            acc.sample(case)
    finally:
        _cleanup_tmp()
    return acc


def shard_patterns(arg):
    acc = core.Acc(PID)
    bad = UNPARSABLE[arg["phase"]]
    try:
        for tokens in arg["files"]:
            conforming = M.grammar_conforming(tokens)
            for dsep in (", ", ","):
                for eol, trail in (EOLS if tokens else EOLS[:1]):
                    for iokind in arg["ios"]:
                        case = {"kind": "file", "loader": "patterns", "tokens": [t if isinstance(t, str) else list(t)
                                                                                for t in tokens],
                                "dsep": dsep, "eol": eol, "trail": trail, "io": iokind}
                        acc.states += 1
                        acc.tick(case)
                        if conforming:
                            acc.nontrivial += 1
                        if eol == "\r\n":
                            acc.counters["patterns.crlf"] += 1
                        check_case(acc, case)
                        if conforming and arg.get("faults") and iokind == "sio":
                            for i, t in enumerate(tokens):
                                if isinstance(t, str):
                                    continue
                                for f in ({"op": "delete", "field": 1, "text": ""},
                                          {"op": "replace", "field": 0, "text": bad},
                                          {"op": "replace", "field": 1, "text": bad}):
                                    fc = dict(case)
                                    fc["fault"] = dict(f, row=i)
                                    acc.states += 1
                                    acc.nontrivial += 1
                                    acc.tick(fc)
                                    check_case(acc, fc)
        if arg["files"]:
            acc.sample(case)
    finally:
        _cleanup_tmp()
    return acc


# --------------------------------------------------------------------------- driver
def replay(case, acc):
    if case.get("kind") != "file":
        raise core.HarnessError("unknown case kind %r" % case.get("kind"))
    try:
        check_case(acc, case)
    finally:
        _cleanup_tmp()


def sequences(alphabet, max_n, min_n=0):
    for n in range(min_n, max_n + 1):
        for t in itertools.product(alphabet, repeat=n):
            yield t


def _shards(run, files, n, **common):
    return [dict(common, files=ch, phase=run.phase, tier=run.tier) for ch in core.chunks(files, n) if ch]


def run(run):
    tier, phase = run.tier, run.phase
    thorough = tier == "thorough"
    mod = __name__
    if locale.getpreferredencoding(False).lower().replace("-", "") != "utf8":
        raise core.HarnessError("the process text encoding must be UTF-8 (files are written as UTF-8 and the "
                                "loaders open paths with the default encoding)")
    run.rule = ("a state is one rendered file (rows x delimiter style x comment configuration x line terminator x "
                "input kind [x one fault]); states are distinct by construction (canonical enumeration of the "
                "product); non-trivial = at least one data row (pattern files: conforming to the MIREX grammar)")
    run.assumptions = [
        "small-scope hypothesis: parsing defects show on files with <=2 (thorough 3) data rows, <=2 comment lines",
        "numbers are finite ASCII decimal literals; their expected binary64 is computed by exact rational "
        "arithmetic (no float(str)); labels contain no line terminators and no leading/trailing whitespace",
        "delimiters: the documented default (any amount of whitespace: ' ', tab, two spaces, ' \\t '), and the "
        "explicit regular expressions ',', tab, '\\s*,\\s*'; the last column may contain the delimiter",
        "a comment line is a line that BEGINS with the comment pattern (docstring); indented markers are not generated",
        "'naming the row' is read as: the ValueError message contains the physical line number of the offending "
        "row as a free-standing integer token: 1-based for the loaders built on load_delimited and for load_patterns; "
        "for load_ragged_time_series the property fixes no numbering base, so the 0-based OR the 1-based physical "
        "line number is accepted (sharpness: fault states with the faulty row on line >= 3 are counted and required)",
        "a blank line inside a file is a row with the wrong number of columns (fault 'blank')",
        "key/tempo files with no data row at all are executed but nothing is demanded of them",
        "load_ragged_time_series(header=True): the header is the first physical line and must not be parsed as data; "
        "rows after it keep their physical 1-based line numbers in error messages",
        "pattern files: only files conforming to (pattern (occurrence note+)+)+ are judged; faults on note lines: "
        "a line with one column and an unparsable onset/midi must raise ValueError naming the 1-based row; an EXTRA "
        "column is not a fault (the docstring defines a note line by its first two values; further columns are tolerated)",
        "convention violations demanded to warn: events decreasing or > 30000 s; interval time < 0 or end <= start; "
        "key tonic/mode outside the documented names or more than two words; tempo < 0 or both tempi 0",
        "the process default text encoding is UTF-8",
    ]
    all_styles = list(M.STYLES)
    few_styles = ["ws1", "wsmix", "comma", "wscomma"]
    ios_quick = [["sio", "path", "fh"], ["sio", "path", "fh"], ["sio"], ["sio"]]
    ios_all = [["sio", "path", "fh"]] * 4
    ios = ios_all if thorough else ios_quick

    # (1) delimited multi-row loaders: breadth-first over rows
    for loader in ("events", "labeled_events", "intervals", "labeled_intervals", "valued_intervals", "time_series"):
        A = row_alphabet(loader, phase, tier)
        files = two_row_files(A)
        run.explore("files<=2rows:" + loader, mod, "shard_files",
                    _shards(run, files, 48, loader=loader, styles=all_styles, ios=ios, lite=not thorough))
        if thorough:
            seen = set(files)
            rest = [f for f in two_row_files(A, all_pairs=True) if f not in seen]
            run.explore("files=2rows,all-pairs:" + loader, mod, "shard_files",
                        _shards(run, rest, 64, loader=loader, styles=few_styles, ios=[["sio"]] * 4, lite=True))
            A3 = sub_alphabet(row_alphabet(loader, phase, "quick"), 9)
            files = list(sequences(A3, 3, 3))
            run.explore("files=3rows:" + loader, mod, "shard_files",
                        _shards(run, files, 64, loader=loader, styles=few_styles, ios=ios_quick, lite=True))

    # (2) key: one-row files over tonic x mode, 0- and 2-row files
    tonics = ["C", "c#", "Db", "E", "f#", "Bb", "b", "X", "H", "Q#"]
    modes = ["major", "minor", "other", "dorian", "major extra", "maj  or\tx"]
    krows = [(t, m) for t in tonics for m in modes]
    kfiles = [()] + [(r,) for r in krows] + [(a, b) for a in krows[:3] for b in krows[:4]]
    if thorough:
        kfiles += [(a, b, c) for a in krows[:3] for b in krows[:3] for c in krows[:3]]
    run.explore("files:key", mod, "shard_files",
                _shards(run, kfiles, 32, loader="key", styles=all_styles, ios=ios_all, lite=not thorough))
    # comment=None: a '#...' line is data
    run.explore("files:key,comment=None", mod, "shard_key_hash", [phase])

    # (3) tempo: one-row files, weights inside / outside [0,1], bad tempi, 0/2 rows
    tnums = ["60.0", "0.0", "0", "-0.0", "-60.5", "5e-324", "120", repr(100.0 + phase / 7.0)]
    wts = ["0.5", "0.0", "1.0", "-0.0", "5e-324", "1", "0", "-0.25", "1.5", "1e10", "-5e-324",
           "1.0000000000000002", "0.9999999999999999", repr((phase + 1) / 9.0)]
    if thorough:
        trows = [(a, b, w) for a in tnums for b in tnums for w in wts]
    else:
        trows = [(a, b, "0.5") for a in tnums for b in tnums] + [("60.0", "120", w) for w in wts[1:]] + \
                [("-60.5", "0", w) for w in ("-0.25", "1.5", "1.0")]
    tfiles = [()] + [(r,) for r in trows] + [(a, b) for a in trows[:30:5] for b in trows[:45:9]]
    if thorough:
        tfiles += [(a, b, c) for a in trows[:3] for b in trows[:3] for c in trows[:3]]
    run.explore("files:tempo", mod, "shard_files",
                _shards(run, tfiles, 48, loader="tempo", styles=few_styles, ios=ios_all, lite=not thorough))

    # (4) ragged time series
    header_shards = []
    for dtype in ("float", "int"):
        if dtype == "float":
            tvals = ["1.5", "-2.25", "5e-324", "1E-3"] + (["-0.0", ".5"] if thorough else [])
        else:
            tvals = ["60", "-3", "9007199254740993", "+7"] + (["0", "-0"] if thorough else [])
        times = numeric_texts(phase, "quick")[:10] + ["1e3", ".5"]
        rrows = [(t, "1.5" if dtype == "float" else "60") for t in times]
        base_t = repr(0.5 + phase)
        for k in range(0, 4):
            for vs in itertools.product(tvals[:3] if k == 3 else tvals, repeat=k):
                rrows.append((base_t,) + vs)
        rrows = [rrows[len(times)]] + rrows[:len(times)] + rrows[len(times) + 1:]     # base row first: (t,) alone
        rfiles = two_row_files(rrows)
        run.explore("files<=2rows:ragged,%s" % dtype, mod, "shard_files",
                    _shards(run, rfiles, 48, loader="ragged_time_series", styles=all_styles if thorough else few_styles,
                            ios=ios, lite=True, extra={"dtype": dtype}))
        if thorough:
            seen = set(rfiles)
            rest = [f for f in two_row_files(rrows, all_pairs=True) if f not in seen]
            run.explore("files=2rows,all-pairs:ragged,%s" % dtype, mod, "shard_files",
                        _shards(run, rest, 64, loader="ragged_time_series", styles=few_styles, ios=[["sio"]] * 4,
                                lite=True, extra={"dtype": dtype}))
        # header=True: first physical line is a header (textual, or numeric-looking)
        hfiles = two_row_files(sub_alphabet(rrows, 15 if thorough else 8), all_pairs=thorough)
        for htext in (["time", "f0"], ["0", "1", "2"]):
            header_shards += [dict(files=ch, phase=phase, tier=tier, dtype=dtype, htext=htext)
                              for ch in core.chunks(hfiles, 8)]

    run.explore("files:ragged,header=True{float,int}x{textual,numeric header}", mod, "shard_ragged_header",
                header_shards)

    # (5) conventions that parse: returned with a warning
    ev = ["0.5", "1.25", "2.75", "30000.5", "10000000000.0", "-1.5", "30000.0"]
    conv = {
        "events": [tuple((t,) for t in s) for s in sequences(ev, 3 if thorough else 2, 1)],
        "labeled_events": [tuple((t, "a b") for t in s) for s in sequences(ev, 2, 1)],
    }
    iv = [("0.5", "1.25"), ("1.25", "0.5"), ("1.25", "1.25"), ("-1.5", "0.5"), ("-2.25", "-1.5"), ("0.0", "-0.0"),
          ("-0.0", "0.5"), ("1.25", "2.75")]
    conv["intervals"] = list(sequences(iv, 2, 1))
    conv["labeled_intervals"] = [tuple(r + ("a b",) for r in s) for s in sequences(iv, 2, 1)]
    conv["valued_intervals"] = [tuple(r + ("-60.5",) for r in s) for s in sequences(iv, 2, 1)]
    conv_shards = []
    for loader, files in conv.items():
        conv_shards += _shards(run, files, 16 if thorough else 8, loader=loader,
                               styles=few_styles if thorough else ["ws1", "comma"],
                               ios=ios_all if thorough else [["sio", "path"]] * 4, lite=True)
    run.explore("conventions:events,labeled_events,intervals,labeled_intervals,valued_intervals", mod, "shard_files",
                conv_shards)

    # (6) single faults
    fbase = {
        "events": [("0.5",), ("1.25",), ("2.75",)],
        "labeled_events": [("0.5", "a"), ("1.25", "a b"), ("2.75", "9.5 x")],
        "intervals": [("0.5", "1.25"), ("1.25", "2.75")],
        "labeled_intervals": [("0.5", "1.25", "a"), ("1.25", "2.75", "a b"), ("2.75", "3.5", "9.5 x")],
        "valued_intervals": [("0.5", "1.25", "60.5"), ("1.25", "2.75", "61.5")],
        "time_series": [("0.5", "1.25"), ("1.25", "-2.75")],
        "key": [("C", "major"), ("eb", "minor")],
        "tempo": [("60.5", "120.5", "0.5")],
    }
    depth = 3 if thorough else 2
    fstyles = all_styles if thorough else few_styles
    fios = ["sio", "path", "fh"] if thorough else ["sio", "path"]
    fshards = []
    for loader, base in fbase.items():
        d = 1 if loader in ("key", "tempo") else depth
        files = list(sequences(base, d, 1))
        fshards += _shards(run, files, 16 if thorough else 6, loader=loader, styles=all_styles if d == 1 else fstyles,
                           ios=["sio", "path", "fh"] if d == 1 else fios)
    run.explore("faults:" + ",".join(fbase), mod, "shard_faults", fshards)
    fshards = []
    for dtype, base in (("float", [("0.5", "1.25"), ("1.25",), ("2.75", "60.5", "61.5")]),
                        ("int", [("0.5", "60"), ("1.25",), ("2.75", "61", "62")])):
        files = list(sequences(base, depth, 1))
        fshards += _shards(run, files, 16 if thorough else 8, loader="ragged_time_series", styles=fstyles, ios=fios,
                           extra={"dtype": dtype})
        for htext in (["time", "f0"], ["0", "1", "2"]):
            fshards += _shards(run, list(sequences(base, 2 if thorough else 1, 1)), 4, loader="ragged_time_series",
                               styles=few_styles, ios=["sio", "path"], extra={"dtype": dtype}, htext=htext)
    run.explore("faults:ragged{float,int}x{no header,textual header,numeric header}", mod, "shard_faults", fshards)

    # (7) pattern files
    da = ("D", repr(7.0 + phase), "45.00000")
    db = ("D", "0.5", "-2.25")
    dc = ("D", "1e-3", "60")
    nseq = 7 if thorough else 5
    seqs = list(sequences(["P", "O", da, db], nseq))
    run.explore("patterns:line-sequences<=%d" % nseq, mod, "shard_patterns",
                [dict(files=ch, phase=phase, ios=["sio", "path", "fh"], faults=True) for ch in core.chunks(seqs, 32)])
    if thorough:
        occs = list(sequences([da, db, dc], 2, 1))
    else:
        occs = list(sequences([da, db], 2, 1)) + [(dc,)]
    pats = list(sequences(occs, 2, 1))
    structured = []
    for npat in ((1, 2, 3) if thorough else (1, 2)):
        palph = pats if npat < 3 else pats[::7]
        for ps in itertools.product(palph, repeat=npat):
            toks = []
            for p in ps:
                toks.append("P")
                for o in p:
                    toks.append("O")
                    toks.extend(o)
            structured.append(tuple(toks))
    run.explore("patterns:structured<=%dx2x2" % (3 if thorough else 2), mod, "shard_patterns",
                [dict(files=ch, phase=phase, ios=["sio", "path"] if thorough else ["sio"], faults=False)
                 for ch in core.chunks(structured, 64)])

    run.require_nonvacuous(
        "label.internal_whitespace", "label.contains_hash", "label.non_ascii", "number.subnormal",
        "number.negative_zero", "number.alternative_spelling", "number.long_literal(>=15chars)",
        "eol.crlf", "eol.no_trailing_newline", "comment.first_line", "comment.last_line", "comment.between_rows",
        "comment.custom_marker", "comment.disabled", "io.sio", "io.path", "io.fh",
        "fault.delete", "fault.add", "fault.replace", "fault.blank", "fault.row_number_unambiguous(>=4)",
        "fault.ragged", "fault.ragged.row>=3(neither base ambiguous)", "fault.patterns.replace",
        "fault.line_number_differs_from_data_row_index", "fault.masked_row_still_legal",
        "key.multiline", "tempo.multiline", "tempo.weight_outside_unit_interval",
        "convention.events-not-increasing", "convention.event-beyond-max-time",
        "convention.negative-interval-time", "convention.non-positive-duration",
        "convention.key-unknown-tonic", "convention.key-unknown-mode", "convention.key-not-two-words",
        "convention.negative-tempo", "convention.both-tempi-zero",
        "patterns.conforming", "patterns.two_or_more_patterns", "patterns.pattern_with_two_or_more_occurrences",
        "patterns.crlf", "fault.patterns.delete", "ragged.header", "ragged.row_without_values",
        *["delim." + s for s in M.STYLES])


def shard_key_hash(phase):
    """comment=None disables comments: a line starting with '#' is a data row of a key file."""
    acc = core.Acc(PID)
    try:
        for style in ("ws1", "wst", "comma"):
            for row in (("#C", "major"), ("#", "x"), ("#c#", "minor")):
                for eol, trail in EOLS:
                    for iokind in ("sio", "path", "fh"):
                        case = _base_case("key", [row], style, "none", [], [], eol, trail, iokind)
                        acc.states += 1
                        acc.nontrivial += 1
                        acc.tick(case)
                        acc.counters["comment.disabled_hash_line_is_data"] += 1
                        check_case(acc, case)
        acc.sample(case)
    finally:
        _cleanup_tmp()
    return acc


def shard_ragged_header(arg):
    acc = core.Acc(PID)
    phase, tier, dtype = arg["phase"], arg["tier"], arg["dtype"]
    try:
        for rows in arg["files"]:
            for style in (("ws1", "wst", "comma", "wscomma") if tier == "thorough" else ("ws1", "comma")):
                sep = M.STYLES[style][1]
                header = sep.join(arg["htext"])
                for ckw, markers, clines in comment_configs(len(rows), phase, tier, lite=True):
                    for eol, trail in EOLS:
                        for iokind in ("sio", "path"):
                            case = _base_case("ragged_time_series", rows, style, ckw, markers, clines, eol, trail,
                                              iokind, {"dtype": dtype, "header": header})
                            acc.states += 1
                            acc.nontrivial += 1
                            acc.tick(case)
                            acc.counters["ragged.header"] += 1
                            check_case(acc, case)
        if arg["files"]:
            acc.sample(case)
    finally:
        _cleanup_tmp()
    return acc
