"""C17 - hierarchy T-/L-measures equal the triplet-ranking definition.

Reference model: mc/spec/hierarchy.py (brute-force O(n^3) triple counting, exact Fractions).
Before anything is explored the model is bound to the documentation: the worked example of the
hierarchy.evaluate docstring and the repository fixtures tests/data/hierarchy (recorded output*.json);
a model/fixture disagreement is a harness error (exit 2), never a verdict.

Spaces (all enumerated completely, nothing sampled); c = number of 0.5 s cells of the common span:
  fixtures   docstring example + 3 recorded fixture outputs: model == recorded (harness error otherwise);
             library == model on the docstring example and on 70 s / 30 s crops of the fixture (real decimal
             time stamps, default frame_size 0.1, where the binary64 frame rounding is not exact)
  T          every pair of interval hierarchies (any composition of the c cells per level, nested or not)
             x window x frame_size x transitive x beta          -> hierarchy.tmeasure
  L          every pair of labelled hierarchies (<= 2 labels per level, restricted-growth labellings)
             x frame_size x beta                               -> hierarchy.lmeasure
  E          labelled pairs x (window, frame_size, beta)          -> hierarchy.evaluate (9 keys)
  V          parameter validation: frame_size in {0, -1, -0.5 cell}, frame_size > window -> ValueError
Oracle: each returned score equals the model (1e-9), lies in [0, 1]; the library raises on no valid
state; the two documented parameter conditions raise ValueError.
"""
import glob
import itertools
import json
import os

import numpy as np

from mc import core, lib
from mc.spec import hierarchy as S

PID = "C17"
LEVEL = "model_checking"

import mir_eval
from mir_eval import hierarchy as H

TOL = 1e-9
FIXTURE_TOL = 1e-7
SCALES = [1.0, 2.0, 0.5, 4.0, 1.0, 2.0, 0.5, 4.0]           # phase -> time scale (powers of two: exact)
NAMES = [("a", "b"), ("x", "y"), ("verse", "chorus"), ("1", "2"), ("B", "A"), ("q", "p"),
         ("intro", "outro"), ("s0", "s1")]                    # phase + level -> the two label names
BETAS = (1.0, 0.5, 2.0)
T_KEYS = ("T-Precision reduced", "T-Recall reduced", "T-Measure reduced",
          "T-Precision full", "T-Recall full", "T-Measure full")
L_KEYS = ("L-Precision", "L-Recall", "L-Measure")


# --------------------------------------------------------------------------- generators
def seg_levels(c, labelled):
    """Every segmentation of c cells: (composition, labelling or None)."""
    out = []
    for comp in lib.compositions(c):
        if labelled:
            for rgs in lib.restricted_growth(len(comp), 2):
                out.append((comp, rgs))
        else:
            out.append((comp, None))
    return out


def hierarchies(c, lmin, lmax, labelled):
    """Every hierarchy over c cells with lmin..lmax levels (each level any segmentation)."""
    levels = seg_levels(c, labelled)
    out = []
    for nl in range(lmin, lmax + 1):
        out.extend(itertools.product(levels, repeat=nl))
    return out


def canonical_labels(hier):
    """Alternating labels a b a b ... on every level (used where labels are not enumerated)."""
    return tuple((comp, tuple(i % 2 for i in range(len(comp)))) for comp, _ in hier)


def realise(hier, cell, phase):
    """-> (intervals per level as lists of [a, b] floats, labels per level or None)."""
    ivs, labs = [], []
    labelled = True
    for li, (comp, rgs) in enumerate(hier):
        t = 0
        lev = []
        for k in comp:
            lev.append([t * cell, (t + k) * cell])
            t += k
        ivs.append(lev)
        if rgs is None:
            labelled = False
        else:
            names = NAMES[(phase + li) % len(NAMES)]
            labs.append([names[v] for v in rgs])
    return ivs, (labs if labelled else None)


def is_nested(ivs):
    seen = set()
    for lev in ivs:
        b = set(x for seg in lev for x in seg)
        if seen - b:
            return False
        seen |= b
    return True


# --------------------------------------------------------------------------- one state
def _arrays(ivs):
    return [np.array(lev, dtype=float) for lev in ivs]


def _lists(labs):
    return [list(l) for l in labs]


def make_case(kind, ref_i, ref_l, est_i, est_l, cfg):
    case = {"kind": kind, "ref_i": ref_i, "est_i": est_i, "frame_size": cfg["frame_size"], "beta": cfg["beta"]}
    if kind != "T":
        case["ref_l"] = ref_l
        case["est_l"] = est_l
    if kind != "L":
        case["window"] = cfg["window"]
    if kind == "T":
        case["transitive"] = cfg["transitive"]
    # informational (recomputed on replay): what known-finding predicates look at
    fs = cfg["frame_size"]
    if fs > 0:
        case["n_frames"] = S.n_frames(ref_i, fs)
        w = cfg.get("window")
        case["window_frames"] = None if (kind == "L" or w is None or w < 0) else S.window_frames(w, fs)
    return case


def _model(kind, ref_i, ref_l, est_i, est_l, cfg, stats):
    """Expected result: dict key -> float, or the string 'ValueError'."""
    try:
        if kind == "T":
            p, r, f = S.tmeasure(ref_i, est_i, cfg["transitive"], cfg["window"], cfg["frame_size"], cfg["beta"],
                                 stats=stats)
            return {"precision": float(p), "recall": float(r), "f": f}
        if kind == "L":
            p, r, f = S.lmeasure(ref_i, ref_l, est_i, est_l, cfg["frame_size"], cfg["beta"], stats=stats)
            return {"precision": float(p), "recall": float(r), "f": f}
        return S.evaluate(ref_i, ref_l, est_i, est_l, cfg["window"], cfg["frame_size"], cfg["beta"])
    except S.Reject:
        return "ValueError"


def _library(kind, ref_i, ref_l, est_i, est_l, cfg):
    """Execute the real code on fresh objects; -> dict key -> float."""
    if kind == "T":
        out = H.tmeasure(_arrays(ref_i), _arrays(est_i), transitive=cfg["transitive"], window=cfg["window"],
                         frame_size=cfg["frame_size"], beta=cfg["beta"])
        p, r, f = out
        return {"precision": float(p), "recall": float(r), "f": float(f)}
    if kind == "L":
        out = H.lmeasure(_arrays(ref_i), _lists(ref_l), _arrays(est_i), _lists(est_l),
                         frame_size=cfg["frame_size"], beta=cfg["beta"])
        p, r, f = out
        return {"precision": float(p), "recall": float(r), "f": float(f)}
    out = H.evaluate(_arrays(ref_i), _lists(ref_l), _arrays(est_i), _lists(est_l), window=cfg["window"],
                     frame_size=cfg["frame_size"], beta=cfg["beta"])
    return {str(k): float(v) for k, v in out.items()}


SITE = {"T": "hierarchy.tmeasure", "L": "hierarchy.lmeasure", "E": "hierarchy.evaluate"}


def judge(acc, site, case, expect, got, err):
    """Compare one observation with the model.  ``case`` is a zero-argument callable."""
    acc.conform += 1
    if expect == "ValueError":
        if err is None:
            acc.outcome((site, "returned-on-rejected-parameters"))
            acc.violation("rejects-parameters", site, case(), observed=got, expected="ValueError")
        elif not err.startswith("ValueError"):
            acc.outcome((site, err.split(":")[0]))
            acc.violation("rejects-parameters", site, case(), observed="raised " + err, expected="ValueError")
        else:
            acc.outcome((site, "ValueError"))
        return
    if err is not None:
        acc.outcome((site, err.split(":")[0]))
        acc.violation("no-raise", site, case(), observed="raised " + err, expected=expect)
        return
    acc.outcome((site,) + tuple(round(got[k], 9) for k in sorted(got)))
    if set(got) != set(expect):
        acc.violation("equals-definition", site, case(), observed=got, expected=expect, note="key set differs")
        return
    bad_range = [k for k in sorted(got) if not (0.0 <= got[k] <= 1.0)]
    if bad_range:
        acc.violation("range", site, case(), observed={k: got[k] for k in bad_range}, expected="within [0, 1]")
    bad = [k for k in sorted(got) if not abs(got[k] - expect[k]) <= TOL]
    if bad:
        acc.violation("equals-definition", site, case(), observed={k: got[k] for k in bad},
                      expected={k: expect[k] for k in bad})


def check_state(acc, kind, ref_i, ref_l, est_i, est_l, cfg, xcheck=False):
    """One state: model, (optional) model self-check, one execution of the library, verdict."""
    stats = {} if kind in ("T", "L") else None
    expect = _model(kind, ref_i, ref_l, est_i, est_l, cfg, stats)
    fs = cfg["frame_size"]
    if fs > 0:
        # the lattice must make the documented binary64 rounding exact (otherwise the oracle would be
        # judging float noise): harness error, not a verdict
        for hier in (ref_i, est_i):
            for lev in hier:
                for seg in lev:
                    for t in seg:
                        if S.frame_index(t, fs) != S.frame_index_exact(t, fs):
                            raise core.HarnessError("time %r is not exact on the frame grid %r" % (t, fs))
        w = cfg.get("window")
        if w is not None and w >= 0 and S.frame_index(w, fs) != S.frame_index_exact(w, fs):
            raise core.HarnessError("window %r is not exact on the frame grid %r" % (w, fs))
    if xcheck and expect != "ValueError" and kind in ("T", "L"):
        # the class-counting form used for the long fixtures must equal the brute-force triple count
        if kind == "T":
            p, r, f = S.tmeasure(ref_i, est_i, cfg["transitive"], cfg["window"], fs, cfg["beta"], fast=True)
        else:
            p, r, f = S.lmeasure(ref_i, ref_l, est_i, est_l, fs, cfg["beta"], fast=True)
        if (float(p), float(r), f) != (expect["precision"], expect["recall"], expect["f"]):
            raise core.HarnessError("spec self-check: class counting != triple counting on %r" % (
                make_case(kind, ref_i, ref_l, est_i, est_l, cfg),))
        acc.counters["spec.selfcheck_fast_eq_bruteforce"] += 1
    if stats:
        _count(acc, kind, stats, cfg, ref_i, est_i)
    acc.transitions += 1
    got = err = None
    try:
        got = _library(kind, ref_i, ref_l, est_i, est_l, cfg)
    except Exception as e:  # noqa
        err = "%s: %s" % (type(e).__name__, e)
    judge(acc, SITE[kind], lambda: make_case(kind, ref_i, ref_l, est_i, est_l, cfg), expect, got, err)
    return stats


def _count(acc, kind, stats, cfg, ref_i, est_i):
    """Input-side clause counters (from the inputs and the model only)."""
    c = acc.counters
    n = stats["n"]
    rs, ps = stats["recall"], stats["precision"]
    if n == 1:
        c["input.one_frame_track"] += 1
    if kind == "T":
        w = S.window_frames(cfg["window"], cfg["frame_size"])
        if w is not None and w < n:
            c["input.window_shorter_than_track"] += 1
        if w is not None and w >= n:
            c["input.window_covers_track"] += 1
        if w == 1:
            c["input.window_is_one_frame"] += 1
        if cfg["window"] is None:
            c["input.window_none"] += 1
    for d in (rs, ps):
        if d["queries_counted"] and d["queries_skipped"]:
            c["input.some_queries_without_reference_triple"] += 1
        if not d["queries_counted"]:
            c["input.no_reference_triple_at_all"] += 1
        if d["estimate_ties"]:
            c["input.estimate_tie_on_a_reference_triple"] += 1
        if d["multi_level_pairs"]:
            c["input.pairs_differing_by_more_than_one_level"] += 1
    if stats["depth_zero"]:
        c["input.frame_pair_with_depth_0"] += 1
    if is_nested(ref_i) and is_nested(est_i):
        c["input.both_nested"] += 1
    else:
        c["input.some_hierarchy_not_nested"] += 1


# --------------------------------------------------------------------------- shards
def shard_pairs(arg):
    """arg = (kind, cell, phase, refs, ests, configs, xcheck[, first]); configs: list of dicts.

    With ``first`` (global index of refs[0] in ests) only the unordered pairs are enumerated: reference k is
    paired with the estimates of index >= k.  One call observes both directions (precision is the recall of the
    exchanged pair), so the exchanged ordered pair adds nothing but (P, R) -> (R, P)."""
    kind, cell, phase, refs, ests, configs, xcheck = arg[:7]
    first = arg[7] if len(arg) > 7 else None
    acc = core.Acc(PID)
    est_real = [realise(h, cell, phase) for h in ests]
    last = None
    for k, rh in enumerate(refs):
        ref_i, ref_l = realise(rh, cell, phase)
        for (est_i, est_l) in (est_real if first is None else est_real[first + k:]):
            for cfg in configs:
                acc.states += 1
                acc.tick(lambda: make_case(kind, ref_i, ref_l, est_i, est_l, cfg))
                if any(len(l) > 1 for l in ref_i) and any(len(l) > 1 for l in est_i):
                    acc.nontrivial += 1
                if kind == "L" and any(_nonadjacent_repeat(l) for l in ref_l + est_l):
                    acc.counters["input.label_repeated_on_non_adjacent_segments"] += 1
                if (cell / cfg["frame_size"]) % 1:
                    acc.counters["input.boundaries_off_the_frame_grid"] += 1
                check_state(acc, kind, ref_i, ref_l, est_i, est_l, cfg, xcheck)
                last = (ref_i, ref_l, est_i, est_l, cfg)
    if last is not None:
        acc.sample(make_case(kind, *last))
    return acc


def _nonadjacent_repeat(labels):
    return any(labels[i] == labels[j] and any(labels[k] != labels[i] for k in range(i + 1, j))
               for i in range(len(labels)) for j in range(i + 2, len(labels)))


def shard_validation(arg):
    """Rejected parameter states: every listed (frame_size, window) on every pair, three entry points."""
    cell, phase, refs, ests, configs = arg
    acc = core.Acc(PID)
    est_real = [realise(h, cell, phase) for h in ests]
    for rh in refs:
        ref_i, ref_l = realise(rh, cell, phase)
        for (est_i, est_l) in est_real:
            for cfg in configs:
                kinds = ["T", "E"] + (["L"] if (cfg["frame_size"] <= 0 and cfg["window"] is None
                                                 and not cfg["transitive"]) else [])
                for kind in kinds:
                    if kind == "E" and cfg["transitive"]:
                        continue
                    acc.states += 1
                    acc.tick(lambda: make_case(kind, ref_i, ref_l, est_i, est_l, cfg))
                    if cfg["frame_size"] <= 0:
                        acc.counters["input.frame_size_not_positive"] += 1
                    else:
                        acc.counters["input.frame_size_exceeds_window"] += 1
                    check_state(acc, kind, ref_i, ref_l, est_i, est_l, cfg)
    return acc


# --------------------------------------------------------------------------- fixtures
def _repo_root():
    return os.environ.get("VERIF_REPO") or "/repo"


def load_fixture(name):
    """-> (ref_i, ref_l, est_i, est_l, kwargs, recorded expectation or None)."""
    if name == "doc":
        ex = S.DOC_EXAMPLE
        return ex["ref_i"], ex["ref_l"], ex["est_i"], ex["est_l"], {}, ex["expected"]
    d = os.path.join(_repo_root(), "tests", "data", "hierarchy")
    ref = [S.read_lab(f) for f in sorted(glob.glob(os.path.join(d, "ref*.lab")))]
    est = [S.read_lab(f) for f in sorted(glob.glob(os.path.join(d, "est*.lab")))]
    if not ref or not est:
        raise core.HarnessError("no hierarchy fixtures under %s" % d)
    for _, labs in ref + est:
        if len(set(l.lower() for l in labs)) != len(set(labs)):
            raise core.HarnessError("fixture labels collide up to case (outside the model's label equality)")
    with open(os.path.join(d, "output_%s.json" % name)) as f:
        recorded = json.load(f)
    window = float(name.split("=")[1])
    return ([[list(s) for s in x[0]] for x in ref], [x[1] for x in ref],
            [[list(s) for s in x[0]] for x in est], [x[1] for x in est], {"window": window}, recorded)


def fixture_names():
    d = os.path.join(_repo_root(), "tests", "data", "hierarchy")
    names = sorted(os.path.basename(f)[len("output_"):-len(".json")] for f in glob.glob(os.path.join(d, "output*.json")))
    if len(names) < 3:
        raise core.HarnessError("expected >= 3 recorded hierarchy outputs, found %r" % (names,))
    return ["doc"] + names


def crop(ivs_hier, labs_hier, t_end):
    """The first t_end seconds of an annotation (segments starting later dropped, the crossing one clipped)."""
    out_i, out_l = [], []
    for lev, labs in zip(ivs_hier, labs_hier):
        keep = [(seg, lab) for seg, lab in zip(lev, labs) if seg[0] < t_end]
        out_i.append([[seg[0], min(seg[1], t_end)] for seg, _ in keep])
        out_l.append([lab for _, lab in keep])
    return out_i, out_l


def bind_fixture(acc, name):
    """Harness step: the model must reproduce the documented / recorded numbers."""
    ref_i, ref_l, est_i, est_l, kw, recorded = load_fixture(name)
    model = S.evaluate(ref_i, ref_l, est_i, est_l, fast=True, **kw)
    if name != "doc" and set(recorded) != set(model):
        raise core.HarnessError("fixture %s: recorded keys %r != model keys" % (name, sorted(recorded)))
    for k, v in recorded.items():
        if not abs(model[k] - v) <= FIXTURE_TOL:
            raise core.HarnessError("reference model disagrees with the documented value: fixture %s key %s "
                                    "recorded %r model %r" % (name, k, v, model[k]))
        acc.counters["spec.fixture_keys_reproduced"] += 1


def fixture_steps(name):
    """Real-data (decimal time stamps, default frame_size 0.1) executions of the library, each short enough
    for the per-state watchdog on a loaded machine: -> list of (kind, ref_i, ref_l, est_i, est_l, cfg)."""
    ref_i, ref_l, est_i, est_l, kw, _ = load_fixture(name)
    w = kw.get("window", S.DEFAULT_WINDOW)
    base = {"window": w, "frame_size": S.DEFAULT_FRAME_SIZE, "beta": S.DEFAULT_BETA, "transitive": False}
    if name == "doc":
        r_i, r_l, e_i, e_l = ref_i, ref_l, est_i, est_l
        s_i, s_l, t_i, t_l = ref_i, ref_l, est_i, est_l
    else:
        r_i, r_l = crop(ref_i, ref_l, 70.0)       # keeps the 68.826 s boundary of the estimate
        e_i, e_l = crop(est_i, est_l, 70.0)
        s_i, s_l = crop(ref_i, ref_l, 30.0)       # evaluate(): the estimate outlasts the reference
        t_i, t_l = crop(est_i, est_l, 35.0)
    steps = [("T", r_i, None, e_i, None, dict(base)),
             ("T", r_i, None, e_i, None, dict(base, transitive=True)),
             ("L", r_i, r_l, e_i, e_l, dict(base))]
    if name != "doc":
        steps.append(("E", s_i, s_l, t_i, t_l, dict(base)))
    return steps


def check_fixture_step(acc, name, k):
    kind, ref_i, ref_l, est_i, est_l, cfg = fixture_steps(name)[k]
    case = {"kind": "fixture", "name": name, "step": k}
    acc.tick(case)
    if kind == "T":
        p, r, f = S.tmeasure(ref_i, est_i, cfg["transitive"], cfg["window"], cfg["frame_size"], cfg["beta"],
                             fast=True)
        expect = {"precision": float(p), "recall": float(r), "f": f}
    elif kind == "L":
        p, r, f = S.lmeasure(ref_i, ref_l, est_i, est_l, cfg["frame_size"], cfg["beta"], fast=True)
        expect = {"precision": float(p), "recall": float(r), "f": f}
    else:
        expect = S.evaluate(ref_i, ref_l, est_i, est_l, cfg["window"], cfg["frame_size"], cfg["beta"], fast=True)
    acc.tick(case)
    acc.transitions += 1
    got = err = None
    try:
        got = _library(kind, ref_i, ref_l, est_i, est_l, cfg)
    except Exception as e:  # noqa
        err = "%s: %s" % (type(e).__name__, e)
    judge(acc, SITE[kind], lambda: case, expect, got, err)


def shard_fixture(name):
    acc = core.Acc(PID)
    acc.tick({"kind": "fixture", "name": name, "step": 0})
    bind_fixture(acc, name)
    for k in range(len(fixture_steps(name))):
        acc.states += 1
        acc.nontrivial += 1
        check_fixture_step(acc, name, k)
        acc.counters["input.real_data_decimal_times"] += 1
    acc.sample({"kind": "fixture", "name": name, "step": 0})
    return acc


def selftest():
    acc = core.Acc(PID)
    bind_fixture(acc, "doc")


# --------------------------------------------------------------------------- driver
def replay(case, acc):
    k = case["kind"]
    if k == "fixture":
        check_fixture_step(acc, case["name"], case.get("step", 0))
        return
    if k not in ("T", "L", "E"):
        raise core.HarnessError("unknown case kind %r" % k)
    cfg = {"frame_size": case["frame_size"], "beta": case["beta"], "window": case.get("window"),
           "transitive": case.get("transitive", False)}
    check_state(acc, k, case["ref_i"], case.get("ref_l"), case["est_i"], case.get("est_l"), cfg)


def _cfgs(windows, sizes, transitives, betas):
    return [{"window": w, "frame_size": fs, "transitive": tr, "beta": b}
            for w in windows for fs in sizes for tr in transitives for b in betas]


def _shards(kind, cell, phase, refs, ests, configs, xcheck, n=64):
    return [(kind, cell, phase, ch, ests, configs, xcheck) for ch in core.chunks(refs, n)]


def _tri_shards(kind, cell, phase, hs, configs, n=256):
    """Unordered pairs {ref, est} of one list (ref index <= est index), many small shards."""
    out, i = [], 0
    for ch in core.chunks(hs, n):
        out.append((kind, cell, phase, ch, hs, configs, False, i))
        i += len(ch)
    return out


def run(run):
    thorough = run.tier == "thorough"
    mod = __name__
    ph = run.phase
    s = SCALES[ph]
    cell = 0.5 * s
    windows = [None, 0.5 * s, 1.0 * s, 1.5 * s, 15.0 * s]
    sizes = [0.5 * s, 0.25 * s, 0.375 * s]
    run.rule = ("every pair of hierarchies over 1..c cells (c = 3 quick, 4 thorough; every composition per level, "
                "nested or not; every labelling with <= 2 labels per level) x every listed configuration is one "
                "state, distinct by construction; non-trivial = both hierarchies have a level with >= 2 segments")
    run.assumptions = [
        "small-scope hypothesis: defects of the triple counting manifest on tracks of <= 16 frames, <= 3 levels, "
        "<= 4 segments per level",
        "frame quantisation as `_round` documents it: frame index of time t = trunc((t - mod(t, frame_size)) / "
        "frame_size) evaluated in binary64 (rounding down); on the dyadic lattices enumerated here every step is "
        "exact, i.e. floor(t / frame_size) (asserted per state); segment [a, b) holds frames idx(a) <= k < idx(b)",
        "window semantics: window seconds -> w = idx(window) whole frames (rounded down, same rule); candidates of "
        "query q are the frames of the half-open range [q - w, q + w) other than q, clipped to the track; "
        "window=None means every frame. The docstring's 'q +- window' does not say whether q + w is included; the "
        "recorded fixtures tests/data/hierarchy/output_w=*.json are reproduced (1e-7) only by the half-open range "
        "with the truncated w (5 s / 0.1 s -> 49 frames), neither by the closed range nor by w = 50",
        "a reference triple needs ref(q,i) == ref(q,j) + 1 when transitive=False (docstring: 'exactly one "
        "level') and ref(q,i) > ref(q,j) when True; it is recalled only if est(q,i) > est(q,j) strictly",
        "queries without a reference triple are skipped; no counted query -> 0.0; hence window == frame_size "
        "(one-frame window) and one-frame tracks are valid inputs whose scores are all 0.0",
        "L-measure: meet depth = deepest level whose labels agree (string equality; the label alphabets never "
        "contain two names that differ only by case), no window, transitive",
        "depth counts levels from 1; frames sharing no segment / label at any level have depth 0",
        "hierarchies whose deeper levels are coarser or not nested are accepted inputs (the library only warns)",
        "evaluate() is observed on hierarchies that start at 0 and share their end (the property's 'common span'); "
        "span adjustment is C13/C14's business",
        "F = (1 + b^2) P R / (b^2 P + R), 0 when P = R = 0; comparison tolerance 1e-9 on every score",
    ]
    # (0) bind the model to the documentation
    run.explore("fixtures+docstring", mod, "shard_fixture", fixture_names())
    if run.total.counters.get("spec.fixture_keys_reproduced", 0) < 6 + 3 * 9:
        raise core.HarnessError("fixture conformance did not cover the docstring example and 3 fixtures")

    cmax = 4 if thorough else 3
    all_cfg_T = _cfgs(windows, sizes, (False, True), BETAS)
    cfg_T_b1 = _cfgs(windows, sizes, (False, True), (1.0,))
    cfg_L = _cfgs((None,), sizes, (True,), (1.0,)) + _cfgs((None,), sizes[1:2], (True,), BETAS[1:])
    cfg_E_all = _cfgs(windows, sizes, (False,), BETAS)
    cfg_E_few = [{"window": w, "frame_size": fs, "transitive": False, "beta": 1.0}
                 for w, fs in ((None, 0.5 * s), (1.0 * s, 0.25 * s), (1.5 * s, 0.5 * s), (15.0 * s, 0.25 * s),
                               (1.0 * s, 0.375 * s), (0.5 * s, 0.25 * s))]

    # (1) T-measure
    for c in range(1, cmax + 1):
        hs = hierarchies(c, 1, 2, False)
        run.explore("T c=%d levels<=2 (%d^2 pairs x %d cfg)" % (c, len(hs), len(all_cfg_T)), mod, "shard_pairs",
                    _shards("T", cell, ph, hs, hs, all_cfg_T, c <= 3))
    if thorough:
        hs3 = hierarchies(3, 1, 3, False)
        run.explore("T c=3 levels<=3 (%d^2 x %d cfg)" % (len(hs3), len(cfg_T_b1)), mod, "shard_pairs",
                    _shards("T", cell, ph, hs3, hs3, cfg_T_b1, False))
        h4_3 = hierarchies(4, 3, 3, False)
        h4_2 = hierarchies(4, 1, 2, False)
        cfg_T_grid = _cfgs(windows, sizes[:2], (False, True), (1.0,))
        run.explore("T c=4 3 levels x <=2 levels (%dx%d x %d cfg)" % (len(h4_3), len(h4_2), len(cfg_T_grid)), mod,
                    "shard_pairs", _shards("T", cell, ph, h4_3, h4_2, cfg_T_grid, False, 256),
                    note="one call observes both directions, so <=2 levels x 3 levels is the same set of "
                         "(ref, est) structures with precision and recall exchanged")
        fine = _cfgs(windows, (0.125 * s,), (False, True), (1.0,))
        run.explore("T c=4 levels<=2, 16 frames (%d^2 x %d cfg)" % (len(h4_2), len(fine)), mod, "shard_pairs",
                    _shards("T", cell, ph, h4_2, h4_2, fine, False))
    # (2) L-measure
    for c in range(1, 4):
        hs = hierarchies(c, 1, 2, True)
        run.explore("L c=%d levels<=2 (%d^2 pairs x %d cfg)" % (c, len(hs), len(cfg_L)), mod, "shard_pairs",
                    _shards("L", cell, ph, hs, hs, cfg_L, True))
    if thorough:
        cf = _cfgs((None,), (sizes[0], sizes[2]), (True,), (1.0,))
        hl4 = hierarchies(4, 1, 2, True)
        run.explore("L c=4 levels<=2 (%d unordered pairs x %d cfg)" % (len(hl4) * (len(hl4) + 1) // 2, len(cf)),
                    mod, "shard_pairs", _tri_shards("L", cell, ph, hl4, cf))
        hl3 = hierarchies(3, 1, 3, True)
        cf = _cfgs((None,), sizes[:2], (True,), (1.0,))
        run.explore("L c=3 levels<=3 (%d unordered pairs x %d cfg)" % (len(hl3) * (len(hl3) + 1) // 2, len(cf)),
                    mod, "shard_pairs", _tri_shards("L", cell, ph, hl3, cf))
    # (3) evaluate
    for c in range(1, 4):
        hs = [canonical_labels(h) for h in hierarchies(c, 1, 2, False)]
        run.explore("E c=%d alternating labels (%d^2 x %d cfg)" % (c, len(hs), len(cfg_E_all)), mod,
                    "shard_pairs", _shards("E", cell, ph, hs, hs, cfg_E_all, False))
    hs = hierarchies(3, 1, 2, True)
    cfg_E_lab = cfg_E_few if thorough else [cfg_E_few[1], {"window": None, "frame_size": 0.375 * s,
                                                           "transitive": False, "beta": 1.0}]
    run.explore("E c=3 labelled (%d^2 x %d cfg)" % (len(hs), len(cfg_E_lab)), mod, "shard_pairs",
                _shards("E", cell, ph, hs, hs, cfg_E_lab, False))
    if thorough:
        hs = [canonical_labels(h) for h in hierarchies(4, 1, 2, False)]
        run.explore("E c=4 alternating labels (%d^2 x %d cfg)" % (len(hs), len(cfg_E_few)), mod, "shard_pairs",
                    _shards("E", cell, ph, hs, hs, cfg_E_few, False))
    # (4) rejected parameters
    bad = []
    for fs in (0.0, -1.0, -0.5 * s):
        for w in (None, 0.5 * s, 15.0 * s):
            bad.append((w, fs))
    for w, fs in ((0.25 * s, 0.5 * s), (0.5 * s, 1.0 * s), (0.375 * s, 0.5 * s), (15.0 * s, 20.0 * s),
                  (0.0, 0.25 * s), (0.125 * s, 0.25 * s)):
        bad.append((w, fs))
    cfg_V = [{"window": w, "frame_size": fs, "transitive": tr, "beta": 1.0} for (w, fs) in bad for tr in (False, True)]
    hs = [canonical_labels(h) for c in range(1, 4) for h in hierarchies(c, 1, 2, False) if c == 3 or len(h) == 1]
    hv = [h for h in hs]
    by_c = {}
    for h in hv:
        by_c.setdefault(sum(h[0][0]), []).append(h)
    vsh = []
    for c, group in sorted(by_c.items()):
        vsh += [(cell, ph, ch, group, cfg_V) for ch in core.chunks(group, 16)]
    run.explore("V rejected parameters (%d cfg)" % len(cfg_V), mod, "shard_validation", vsh)

    run.require_nonvacuous(
        "spec.fixture_keys_reproduced", "spec.selfcheck_fast_eq_bruteforce", "input.real_data_decimal_times",
        "input.window_shorter_than_track", "input.window_covers_track", "input.window_none",
        "input.window_is_one_frame", "input.one_frame_track",
        "input.some_queries_without_reference_triple", "input.no_reference_triple_at_all",
        "input.estimate_tie_on_a_reference_triple", "input.pairs_differing_by_more_than_one_level",
        "input.frame_pair_with_depth_0", "input.both_nested", "input.some_hierarchy_not_nested",
        "input.label_repeated_on_non_adjacent_segments", "input.boundaries_off_the_frame_grid",
        "input.frame_size_not_positive", "input.frame_size_exceeds_window")
