"""C18 - multipitch error accounting is exhaustive and consistent.

Spaces (complete enumerations; alphabets and time-base variants are those of mc/tasks/multipitch.py):
  accounting  identical time base: n <= 2 frames, every (ref subset, est subset) of the 4-frequency alphabet per
              frame, BOTH alphabet families (exact octave pair / chroma wrap-around); thorough adds n = 3 with one
              frame restricted to a 4 x 4 panel.  Differing time bases: 13 variants (shifted by 1/16 < half hop,
              3/16 > half hop, 2/16 == half hop (ties), both signs; fewer frames head / tail; more frames tail /
              midpoint; entirely before; entirely after; empty) x panel frames, n = 0..2 (thorough ..3).
              x window in {0.25, 0.5, 1.0} (thorough + 12.0, the exact octave).
  resample    resample_multipitch directly: every strictly increasing estimate time base with <= 3 (4) stamps over
              a 9-point 1/16 s lattice x every target time set with <= 3 (4) stamps over the 11-point lattice that
              extends one step beyond either end.
Oracles per (state, window), as stated in the property:
  metrics(): E_tot == E_sub + E_miss + E_fa (1e-12), E_* >= 0, Acc <= min(P, R); likewise the 7 chroma scores;
  compute_num_true_positives on the same (aligned) frames: TP <= min(n_ref, n_est), TP_chroma >= TP per frame;
  the 14 scores are the documented count formulas applied to those per-frame counts (consistency of the
  accounting, which also binds metrics() to "nearest estimate frame / empty outside the estimate's range");
  resample_multipitch == model (nearest estimate time stamp, ties to the earlier, empty outside [t0, t_last]).
"""
import functools
import itertools
from fractions import Fraction as Fr

import numpy as np

import mir_eval.multipitch as M
from mc import core
from mc.spec import multipitch as S
from mc.tasks import base
from mc.tasks import multipitch as T

PID = "C18"
LEVEL = "model_checking"

KEYS = S.KEYS
SITE = "multipitch.metrics"
NEAR_TOL = 1e-6


def windows(tier):
    return [0.25, 0.5, 1.0, 12.0] if tier == "thorough" else [0.25, 0.5, 1.0]


# --------------------------------------------------------------------------- spaces
_SPACE = {}


def accounting_space(tier, phase):
    key = (tier, phase)
    if key not in _SPACE:
        fam = T.family_of(phase)
        oth = T.other(fam)
        if tier == "thorough":
            blocks = (T.s_blocks(phase, fam, 2, panel3=4) + T.s_blocks(phase, oth, 2, drop_all_empty=True) +
                      T.d_blocks(phase, fam, (0, 1, 2, 3), 6, 6, skip_same=True) +
                      T.d_blocks(phase, oth, (1, 2, 3), 6, 6, skip_same=True, first_ref_nonempty=True) +
                      T.e_blocks(phase, fam) + T.dup_blocks(phase, fam))
        else:
            blocks = (T.s_blocks(phase, fam, 2) + T.s_blocks(phase, oth, 2, drop_all_empty=True) +
                      T.d_blocks(phase, fam, (0, 1, 2), 6, 6, skip_same=True) +
                      T.d_blocks(phase, oth, (1, 2), 6, 6, skip_same=True, first_ref_nonempty=True) +
                      T.e_blocks(phase, fam) + T.dup_blocks(phase, fam))
        blocks.sort(key=lambda b: len(b.comps))
        _SPACE[key] = T.LazySpace(blocks)
    return _SPACE[key]


# --------------------------------------------------------------------------- model side (cached per frame pair)
@functools.lru_cache(maxsize=None)
def frame_facts(ref_frame, est_frame, window):
    """(near-threshold?, exact-threshold?, TP, TP_chroma) of one frame pair from the reference model."""
    near = S.near_window(ref_frame, est_frame, window, NEAR_TOL)
    exact = any(isinstance(S.distance(S.midi(r), S.midi(e)), Fr) and S.distance(S.midi(r), S.midi(e)) == Fr(window)
                for r in ref_frame for e in est_frame)
    if near:
        return True, exact, None, None
    return (False, exact, S.true_positives(ref_frame, est_frame, window, False),
            S.true_positives(ref_frame, est_frame, window, True))


def _finite(v):
    return v == v and v not in (float("inf"), float("-inf"))


def identities(acc, site, case, got):
    """The accounting identities on one 14-score result (dict key -> float). True if all hold."""
    for name, ks in (("raw", KEYS[:7]), ("chroma", KEYS[7:])):
        p, r, a, e_sub, e_miss, e_fa, e_tot = [got[k] for k in ks]
        if not all(_finite(v) for v in (p, r, a, e_sub, e_miss, e_fa, e_tot)):
            acc.violation("finite", site, case, observed={k: got[k] for k in ks})
            return False
        if not (abs(e_tot - (e_sub + e_miss + e_fa)) <= 1e-12):
            acc.violation("total-is-sum", site, case,
                          observed={"variant": name, "e_tot": e_tot, "e_sub": e_sub, "e_miss": e_miss, "e_fa": e_fa},
                          expected="e_tot == e_sub + e_miss + e_fa")
            return False
        if not (e_sub >= 0 and e_miss >= 0 and e_fa >= 0 and e_tot >= 0):
            acc.violation("nonnegative", site, case,
                          observed={"variant": name, "e_tot": e_tot, "e_sub": e_sub, "e_miss": e_miss, "e_fa": e_fa},
                          expected="every error score >= 0")
            return False
        if not (a <= min(p, r) + 1e-12):
            acc.violation("accuracy-le-min-pr", site, case,
                          observed={"variant": name, "precision": p, "recall": r, "accuracy": a},
                          expected="accuracy <= min(precision, recall)")
            return False
    return True


def metrics_case(state, window):
    return {"kind": "metrics", "ref": state[0], "est": state[1], "window": window}


def check_state(acc, state, window):
    (rt, rf), (et, ef) = state
    case = metrics_case(state, window)
    # ---- input / model side (oracle code: not guarded)
    mrt, mrf, met, mef = T.model(state)
    same = S.same_timebase(mrt, met)
    aligned = S.align(mrt, mrf, met, mef)
    n_ref = [len(f) for f in rf]
    n_est = [len(f) for f in aligned]
    facts = [frame_facts(tuple(r), tuple(e), window) for r, e in zip(rf, aligned)]
    if any(f[0] for f in facts):
        acc.counters["near_threshold_excluded"] += 1
        return
    if not same:
        acc.counters["in.resampled"] += 1
        if not et:
            acc.counters["in.empty_estimate_timebase"] += 1
        else:
            lo, hi = Fr(et[0]), Fr(et[-1])
            if any(Fr(t) < lo or Fr(t) > hi for t in rt):
                acc.counters["in.ref_time_outside_est_range"] += 1
            if all(Fr(t) < lo for t in rt) or all(Fr(t) > hi for t in rt):
                acc.counters["in.est_entirely_before_or_after"] += 1
            if any(Fr(t) - Fr(a) == Fr(b) - Fr(t) for t in rt for a, b in zip(et, et[1:])):
                acc.counters["in.ref_time_at_exact_midpoint"] += 1
        if len(et) != len(rt):
            acc.counters["in.frame_counts_differ"] += 1
    if any(a != b for a, b in zip(n_ref, n_est)):
        acc.counters["in.frame_with_n_ref_ne_n_est"] += 1
    if any(f[1] for f in facts):
        acc.counters["in.distance_exactly_window"] += 1
    if any(f[3] > f[2] for f in facts):
        acc.counters["in.chroma_only_match"] += 1
    if any(min(a, b) - f[2] > 0 for a, b, f in zip(n_ref, n_est, facts)):
        acc.counters["in.substitution_present"] += 1
    if sum(n_ref) == 0:
        acc.counters["in.reference_all_empty"] += 1
    if any(a and b for a, b in zip(n_ref, n_est)):
        acc.nontrivial += 1
    # ---- metrics()
    acc.transitions += 1
    try:
        # the documented default (0.5 semitone) is exercised as the default: no keyword
        got = M.metrics(*T.build(state), **({} if window == S.WINDOW else {"window": window}))
        got = [float(v) for v in got]
        arity = len(got)
    except Exception as ex:  # noqa
        acc.violation("no-raise", SITE, case, observed="raised %s: %s" % (type(ex).__name__, ex))
        return
    if arity != 14:
        acc.violation("arity", SITE, case, observed=arity, expected=14)
        return
    got = dict(zip(KEYS, got))
    acc.outcome(tuple(round(got[k], 9) for k in KEYS))
    if not identities(acc, SITE, case, got):
        return
    # ---- evaluate() on the states whose time bases differ (same identities on the score dictionary)
    if tuple(rt) != tuple(et):
        acc.transitions += 1
        try:
            ev = M.evaluate(*T.build(state), window=window)
            ev = {str(k): float(v) for k, v in ev.items()}
        except Exception as ex:  # noqa
            acc.violation("no-raise", "multipitch.evaluate", case, observed="raised %s: %s" % (type(ex).__name__, ex))
            return
        if sorted(ev) != sorted(KEYS):
            acc.violation("keys", "multipitch.evaluate", case, observed=sorted(ev), expected=sorted(KEYS))
            return
        if not identities(acc, "multipitch.evaluate", case, ev):
            return
    # ---- per-frame counts on the same (aligned) frames
    acc.transitions += 1
    site2 = "multipitch.compute_num_true_positives"
    try:
        rmidi = M.frequencies_to_midi(T._frames(rf))
        emidi = M.frequencies_to_midi(T._frames(aligned))
        tp = M.compute_num_true_positives(rmidi, emidi, window=window)
        tpc = M.compute_num_true_positives(M.midi_to_chroma(rmidi), M.midi_to_chroma(emidi), window=window,
                                           chroma=True)
        tp = [float(v) for v in tp]
        tpc = [float(v) for v in tpc]
    except Exception as ex:  # noqa
        acc.violation("no-raise", site2, case, observed="raised %s: %s" % (type(ex).__name__, ex))
        return
    if len(tp) != len(rf) or len(tpc) != len(rf):
        acc.violation("per-frame-shape", site2, case, observed=[len(tp), len(tpc)], expected=len(rf))
        return
    for i in range(len(rf)):
        for name, v in (("raw", tp[i]), ("chroma", tpc[i])):
            if not (v == int(v) and 0 <= v <= min(n_ref[i], n_est[i])):
                acc.violation("tp-le-min-count", site2, case,
                              observed={"frame": i, "variant": name, "tp": v, "n_ref": n_ref[i], "n_est": n_est[i]},
                              expected="integer 0 <= TP <= min(n_ref, n_est)")
                return
        if not (tpc[i] >= tp[i]):
            acc.violation("chroma-ge-raw", site2, case, observed={"frame": i, "tp": tp[i], "tp_chroma": tpc[i]},
                          expected="TP_chroma >= TP")
            return
    # ---- the resampling sentence, through metrics() itself: scoring the estimate on its own time base must equal
    #      scoring the MODEL-resampled estimate (nearest estimate frame, empty outside the range) given on the
    #      reference time base.  Both sides are the library's own formulas, so only the alignment is decided here.
    if not same:
        acc.conform += 1
        acc.transitions += 1
        st2 = ((tuple(rt), tuple(tuple(f) for f in rf)), (tuple(rt), tuple(tuple(f) for f in aligned)))
        try:
            got2 = M.metrics(*T.build(st2), **({} if window == S.WINDOW else {"window": window}))
            got2 = dict(zip(KEYS, [float(v) for v in got2]))
        except Exception as ex:  # noqa
            acc.violation("no-raise", SITE, case, observed="aligned input raised %s: %s" % (type(ex).__name__, ex))
            return
        for k in KEYS:
            if not (abs(got[k] - got2[k]) <= 1e-12):
                acc.violation("resampled-to-nearest-frame", SITE, case, observed={k: [got[k], got2[k]]},
                              expected={"aligned_estimate": [list(f) for f in aligned]})
                return


def shard_accounting(arg):
    tier, phase, lo, hi = arg
    acc = core.Acc(PID)
    sp = accounting_space(tier, phase)
    ws = windows(tier)
    for state in sp[lo::hi]:
        for w in ws:
            acc.states += 1
            acc.tick(lambda: metrics_case(state, w))
            check_state(acc, state, w)
    if lo == 0 and len(sp):
        acc.sample(metrics_case(sp[len(sp) // 2], ws[0]))
        acc.sample(metrics_case(sp[len(sp) - 1], ws[-1]))
    return acc


# --------------------------------------------------------------------------- resample_multipitch
def marker_frames(n):
    """n distinguishable frames (sizes 1, 2, 0, 1, ...; values identify the index)"""
    out = []
    for i in range(n):
        out.append(tuple(100.0 * (i + 1) + 10.0 * j for j in range((1, 2, 0)[i % 3])))
    return tuple(out)


def resample_case(times, frames, target):
    return {"kind": "resample", "times": list(times), "frames": [list(f) for f in frames], "target": list(target)}


def check_resample(acc, times, frames, target):
    case = resample_case(times, frames, target)
    site = "multipitch.resample_multipitch"
    want = S.resample([Fr(t) for t in times], frames, [Fr(t) for t in target])
    acc.transitions += 1
    acc.conform += 1
    try:
        got = M.resample_multipitch(np.array(times, dtype=float), [np.array(f, dtype=float) for f in frames],
                                    np.array(target, dtype=float))
        got = [tuple(float(v) for v in np.asarray(g).ravel()) for g in got]
    except Exception as ex:  # noqa
        acc.violation("no-raise", site, case, observed="raised %s: %s" % (type(ex).__name__, ex))
        return
    acc.outcome(tuple(got))
    if got != [tuple(f) for f in want]:
        acc.violation("nearest-frame", site, case, observed=[list(g) for g in got],
                      expected=[list(f) for f in want])


def shard_resample(arg):
    time_sets, targets = arg
    acc = core.Acc(PID)
    for times in time_sets:
        frames = marker_frames(len(times))
        T_ = [Fr(t) for t in times]
        for target in targets:
            acc.states += 1
            acc.tick(lambda: resample_case(times, frames, target))
            if len(times) >= 2 and len(target) >= 2:
                acc.nontrivial += 1
            G = [Fr(t) for t in target]
            if T_ and any(t < T_[0] or t > T_[-1] for t in G):
                acc.counters["resample.target_outside_range"] += 1
            if any(t - a == b - t for t in G for a, b in zip(T_, T_[1:])):
                acc.counters["resample.target_at_exact_midpoint"] += 1
            if T_ and any(t == T_[0] or t == T_[-1] for t in G):
                acc.counters["resample.target_on_range_end"] += 1
            if not T_ and G:
                acc.counters["resample.no_estimate_times"] += 1
            if len(T_) == 1:
                acc.counters["resample.single_estimate_time"] += 1
            check_resample(acc, times, frames, target)
    if time_sets and targets:
        acc.sample(resample_case(time_sets[-1], marker_frames(len(time_sets[-1])), targets[-1]))
    return acc


# --------------------------------------------------------------------------- driver
def replay(case, acc):
    k = case["kind"]
    if k == "metrics":
        state = (base.tup(case["ref"]), base.tup(case["est"]))
        check_state(acc, state, case["window"])
    elif k == "resample":
        check_resample(acc, tuple(case["times"]), tuple(tuple(f) for f in case["frames"]), tuple(case["target"]))
    else:
        raise core.HarnessError("unknown case kind %r" % k)


def selftest():
    """the pitch lattice keeps its margin and the exact octave is exact in NumPy as well"""
    if T.lattice_margin() < 0.0099:
        raise core.HarnessError("multipitch lattice margin lost")
    for ph in range(8):
        a = T.alphabet(ph, "oct")
        m = M.frequencies_to_midi([np.array([a[0], a[3]])])[0]
        if float(m[1]) - float(m[0]) != 12.0 or float(m[0]) != float(S.midi(a[0])):
            raise core.HarnessError("octave pair %r is not exact on the MIDI scale in NumPy" % (a,))


def run(run):
    thorough = run.tier == "thorough"
    ph = run.phase
    mod = __name__
    selftest()
    run.rule = ("every (reference frames, estimate frames, estimate time base) state of the stated bounds x every "
                "window is one state; resample: every (estimate time set, target time set) pair; non-trivial = "
                "some frame has both a reference and an (aligned) estimated frequency (resample: >=2 stamps on "
                "both sides)")
    run.assumptions = [
        "small-scope hypothesis: accounting defects manifest on <=3 frames with <=4 frequencies per frame",
        "a reference time exactly half way between two estimate time stamps takes the EARLIER estimate frame: the "
        "documentation says only 'nearest neighbor interpolation'; the convention is the documented one of "
        "scipy.interpolate.interp1d(kind='nearest') ('rounds down'), see DESIGN C18 / Appendix A",
        "time bases count as identical when equal in length and numpy.allclose (DESIGN Appendix A); all lattice "
        "shifts are >= 1/16 s, far from that tolerance",
        "estimate time stamps are strictly increasing (repeated stamps are valid input, but 'nearest' is then not "
        "defined by the documentation) and all times are dyadic, so midpoints are exact in binary64",
        "pitch distances are exact on the octaves of 440 Hz (distance exactly 12 = window 12.0 in thorough) and "
        ">= 0.0099 semitone away from every window otherwise (counter near_threshold_excluded must stay 0)",
        "clause resampled-to-nearest-frame: metrics() on differing time bases must equal metrics() on the "
        "model-resampled estimate given on the reference time base (formulas are not fixed by C18, only the alignment); "
        "[historical note] an earlier clause scores-from-counts also demanded that the 14 scores equal the "
        "documented formulas (compute_accuracy / compute_err_score docstrings, Bay et al. 2009) of the library's own "
        "per-frame counts on the reference frames and the nearest-neighbour-aligned estimate frames",
    ]
    sp = accounting_space(run.tier, ph)
    nsh = 64 if len(sp) >= 64 else 1
    run.explore("accounting (%d frame states x %d windows)" % (len(sp), len(windows(run.tier))), mod,
                "shard_accounting", [(run.tier, ph, k, nsh) for k in range(nsh)])
    base_t = Fr(1) + Fr(ph, 4)
    est_pts = [float(base_t + Fr(k, 16)) for k in range(0, 9)]
    tgt_pts = [float(base_t + Fr(k, 16)) for k in range(-1, 10)]
    nmax = 4 if thorough else 3
    time_sets = [c for n in range(nmax + 1) for c in itertools.combinations(est_pts, n)]
    targets = [c for n in range(nmax + 1) for c in itertools.combinations(tgt_pts, n)]
    run.explore("resample_multipitch", mod, "shard_resample", [(ch, targets) for ch in core.chunks(time_sets, 32)])
    run.require_nonvacuous("in.resampled", "in.empty_estimate_timebase", "in.ref_time_outside_est_range",
                           "in.est_entirely_before_or_after", "in.ref_time_at_exact_midpoint",
                           "in.frame_counts_differ", "in.frame_with_n_ref_ne_n_est", "in.chroma_only_match",
                           "in.substitution_present", "in.reference_all_empty",
                           "resample.target_outside_range", "resample.target_at_exact_midpoint",
                           "resample.target_on_range_end", "resample.no_estimate_times",
                           "resample.single_estimate_time")
    if thorough:
        run.require_nonvacuous("in.distance_exactly_window")
    if run.total.counters.get("near_threshold_excluded", 0):
        raise core.HarnessError("multipitch pitch lattice has a near-threshold pair")
