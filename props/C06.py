"""C06 - swapping reference and estimate exchanges precision and recall (edge relation `swap`)."""
from mc import core, generic
from mc.tasks import base

PID = "C06"
LEVEL = "model_checking"


def replay(case, acc):
    generic.replay_rel(case, acc, "swap")


def run(run):
    run.rule = ("edge relation swap(a,b)->(b,a) on every unordered pair state admissible in both roles x every "
                "function with a symmetric criterion x its configuration alphabet; non-trivial = |a| != |b|")
    run.assumptions = ["equality to 1e-12 relative; pairs with |a| != |b| dominate (equal sizes hide wrong-side "
                       "normalisers); F symmetric only at beta=1"]
    for name in base.tasks():
        task = base.load(name)
        if not any(f.swap for f in task.funcs):
            continue
        run.explore("%s swap edges" % name, "mc.generic", "shard_swap",
                    generic.shard_plan(name, "pair", run.tier, run.phase, 64))
    run.require_nonvacuous("sides_differ_in_size")      # input side; swap.asymmetric_result_states is reported only
