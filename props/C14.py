"""C14 - valid annotations are always scored; malformed ones are rejected cleanly.

Valid side
  adapters     every pair state x function x configuration of every task adapter must return (no exception)
  coincidence  segment / chord / hierarchy evaluate() on a boundary-coincidence lattice: estimates that start
               before / at / after the reference start, end before / at / after its end, have a boundary exactly on
               the reference start or end, lie outside the reference span or are empty
Fault side (single-fault enumeration)
  per entry point a panel of valid base inputs x every documented fault x every position it can be applied at:
  the call must raise ValueError (InvalidChordException for chord labels) - not return, not raise anything else.
"""
import copy
import itertools
import warnings

import numpy as np

from mc import core, generic, lib
from mc.tasks import base

PID = "C14"
LEVEL = "fault_enumeration"

import mir_eval
from mir_eval import (alignment, beat, chord, hierarchy, key, melody, multipitch, onset, pattern, segment,
                      separation, tempo, transcription, transcription_velocity, util)

A = np.array


# ============================================================================== valid side: adapters
def shard_noraise(arg):
    taskname, which, tier, phase, lo, hi = arg
    task = base.load(taskname)
    acc = core.Acc(PID)
    sp = generic.space(taskname, which, tier, phase)
    for state in sp[lo::hi]:
        acc.states += 1
        if generic.nontrivial_pair(state):
            acc.nontrivial += 1
        for func in task.funcs:
            for cfg in func.configs(tier):
                if not generic.in_domain(acc, func, state, cfg):
                    continue
                acc.tick(lambda: generic.case_of(task, func, state, cfg))
                acc.transitions += 1
                try:
                    with warnings.catch_warnings():
                        warnings.simplefilter("ignore")
                        func.fn(*func.build(state), **cfg)
                except Exception as ex:  # noqa
                    acc.violation("valid-input-scored", func.name, generic.case_of(task, func, state, cfg),
                                  observed="raised %s: %s" % (type(ex).__name__, ex))
    if lo == 0 and sp:
        acc.sample(generic.case_of(task, task.funcs[0], sp[len(sp) // 2], {}))
    return acc


# ============================================================================== valid side: coincidence lattice
def contiguous(bounds):
    return [(a, b) for a, b in zip(bounds, bounds[1:])]


def coincidence_estimates(lo, hi, phase):
    """All contiguous estimates with <=3 segments whose boundaries come from a lattice around [lo, hi]."""
    pts = sorted(set([max(0.0, lo - 1.0), max(0.0, lo - 0.5), lo, lo + 0.5, (lo + hi) / 2.0, hi - 0.5, hi,
                      hi + 0.5, hi + 1.0]))
    out = [()]
    for n in (2, 3, 4):
        for b in itertools.combinations(pts, n):
            out.append(tuple(contiguous(b)))
    return out


REF_SEGS = [((0.0, 2.0), (2.0, 4.0)), ((0.0, 1.0), (1.0, 3.0), (3.0, 4.0)), ((1.0, 2.5), (2.5, 4.0)),
            ((0.0, 4.0),)]
CHORD_LABELS = ["C:maj", "G:7", "A:min", "N"]
SEG_LABELS = ["a", "b", "a", "c"]


def check_coincidence(acc, which, ref, est, cfg):
    case = {"kind": "coincidence", "which": which, "ref": [list(x) for x in ref], "est": [list(x) for x in est],
            "cfg": cfg}
    ri = A(ref, dtype=float).reshape(-1, 2)
    ei = A(est, dtype=float).reshape(-1, 2)
    acc.transitions += 1
    try:
        with warnings.catch_warnings():
            warnings.simplefilter("ignore")
            if which == "segment":
                r = segment.evaluate(ri, SEG_LABELS[:len(ref)], ei, ["x", "y", "z", "w"][:len(est)], **cfg)
            elif which == "chord":
                r = chord.evaluate(ri, CHORD_LABELS[:len(ref)], ei, ["C", "G", "A:min", "N"][:len(est)], **cfg)
            else:
                r = hierarchy.evaluate([A([[ri.min(), ri.max()]]), ri], [["top"], SEG_LABELS[:len(ref)]],
                                       [A([[ei.min(), ei.max()]]), ei], [["top"], ["x", "y", "z", "w"][:len(est)]],
                                       **cfg)
        acc.outcome(tuple(sorted(r.keys()))[:3])
    except Exception as ex:  # noqa
        acc.violation("valid-input-scored", "%s.evaluate" % which, case,
                      observed="raised %s: %s" % (type(ex).__name__, ex))


def shard_coincidence(arg):
    which, ref, phase, tier = arg
    acc = core.Acc(PID)
    lo, hi = ref[0][0], ref[-1][1]
    cfgs = {"segment": [{}, {"frame_size": 0.5}, {"trim": True}],
            "chord": [{}],
            "hierarchy": [{"frame_size": 0.5}, {"frame_size": 0.5, "window": 0.5}, {"frame_size": 0.25, "window": 1.0},
                          {"frame_size": 0.5, "window": None}]}[which]
    for est in coincidence_estimates(lo, hi, phase):
        if which == "hierarchy" and len(est) == 0:
            continue            # an empty level has no span: outside the documented conventions
        for cfg in cfgs:
            acc.states += 1
            acc.tick(lambda: {"kind": "coincidence", "which": which, "ref": [list(x) for x in ref],
                              "est": [list(x) for x in est], "cfg": cfg})
            if est and (est[0][0] in (lo, hi) or est[-1][1] in (lo, hi) or any(b in (lo, hi) for _, b in est[:-1])):
                acc.counters["coincidence.boundary_on_reference_start_or_end"] += 1
                acc.nontrivial += 1
            if est and (est[-1][1] <= lo or est[0][0] >= hi):
                acc.counters["coincidence.estimate_outside_reference_span"] += 1
            if not est:
                acc.counters["coincidence.empty_estimate"] += 1
            if cfg.get("window") is not None and cfg.get("window") == cfg.get("frame_size"):
                acc.counters["coincidence.window_equals_frame_size"] += 1
            check_coincidence(acc, which, ref, est, cfg)
    acc.sample({"kind": "coincidence", "which": which, "ref": [list(x) for x in ref], "est": [[0.5, 4.0]], "cfg": {}})
    return acc


# ============================================================================== fault side
class Entry(object):
    def __init__(self, name, fn, base, faults, exc=ValueError):
        self.name, self.fn, self.base, self.faults, self.exc = name, fn, base, faults, exc


def ev_faults(i, n):
    """documented event faults applied to positional argument i (array of n>=2 events)"""
    f = []
    for p in range(n - 1):
        f.append(("unsorted@%d" % p, i, lambda a, p=p: _swap(a, p)))
    f.append(("2-d", i, lambda a: a.reshape(1, -1)))
    f.append(("too-large", i, lambda a: _set(a, -1, a[-1] + 1e5)))
    return f


def _swap(a, p):
    a = a.copy()
    a[p], a[p + 1] = a[p + 1], a[p]
    return a


def _set(a, idx, v):
    a = a.copy()
    a[idx] = v
    return a


def iv_faults(i, n):
    f = []
    for p in range(n):
        f.append(("negative-time@%d" % p, i, lambda a, p=p: _set(a, (p, 0), -abs(a[p, 0]) - 0.5)))
        f.append(("zero-duration@%d" % p, i, lambda a, p=p: _set(a, (p, 1), a[p, 0])))
        f.append(("negative-duration@%d" % p, i, lambda a, p=p: _set(_set(a, (p, 0), a[p, 1]), (p, 1), a[p, 0])))
    f.append(("n-by-3", i, lambda a: np.hstack([a, a[:, :1] + 9.0])))
    f.append(("1-d", i, lambda a: a.ravel()))
    return f


def beyond_faults(i, t_end):
    """one malformed row appended strictly after t_end (the end of the reference span)"""
    rows = [("negative-duration", [t_end + 2.0, t_end + 1.0]), ("zero-duration", [t_end + 2.0, t_end + 2.0]),
            ("negative-duration-near", [t_end + 0.5, t_end + 0.25])]
    return [("beyond-span:%s" % n, i, (lambda a, row=row: np.vstack([a, [row]]))) for n, row in rows]


def before_faults(i, t_start):
    """one malformed row prepended strictly before t_start > 0 (the start of the reference span)"""
    rows = [("negative-duration", [t_start - 0.5, t_start - 0.75]), ("zero-duration", [t_start - 0.5, t_start - 0.5])]
    return [("before-span:%s" % n, i, (lambda a, row=row: np.vstack([[row], a]))) for n, row in rows]


def at_all(name, i, n, fn):
    """the same fault at every position p < n of positional argument i"""
    return [("%s@%d" % (name, p), i, (lambda a, p=p: fn(a, p))) for p in range(n)]


def drop_last(i):
    return ("drop-one", i, lambda a: a[:-1] if isinstance(a, np.ndarray) else list(a)[:-1])


def add_one(i):
    return ("add-one", i, lambda a: np.concatenate([a, a[-1:]]) if isinstance(a, np.ndarray) else list(a) + [a[-1]])


def entries():
    E = []
    b_r, b_e = (lambda: A([5.0, 5.5, 6.0, 6.5, 7.0])), (lambda: A([5.0, 5.5625, 6.0, 6.5]))
    for f in ("f_measure", "cemgil", "goto", "p_score", "continuity", "information_gain"):
        E.append(Entry("beat.%s" % f, getattr(beat, f), [b_r, b_e], ev_faults(0, 5) + ev_faults(1, 4)))
    E.append(Entry("onset.f_measure", onset.f_measure, [b_r, b_e], ev_faults(0, 5) + ev_faults(1, 4)))
    # beat/onset evaluate: faults that survive the documented trimming are still faults of the annotation
    E.append(Entry("beat.evaluate", beat.evaluate, [b_r, b_e],
                   [x for x in ev_faults(0, 5) + ev_faults(1, 4) if not x[0].startswith("2-d")]))
    E.append(Entry("onset.evaluate", onset.evaluate, [b_r, b_e], ev_faults(0, 5) + ev_faults(1, 4)))
    # alignment
    a_r, a_e = (lambda: A([0.5, 1.0, 2.0])), (lambda: A([0.5, 1.25, 2.5]))
    al = at_all("unsorted", 0, 2, _swap) + at_all("unsorted", 1, 2, _swap) + [
          ("2-d", 0, lambda a: a.reshape(1, -1)), ("2-d", 1, lambda a: a.reshape(1, -1)),
          ("negative", 0, lambda a: _set(a, 0, -0.5)), ("negative", 1, lambda a: _set(a, 0, -0.5)),
          ("all-negative", 0, lambda a: a - 10.0), ("all-negative", 1, lambda a: a - 10.0),
          drop_last(0), drop_last(1), add_one(1), ("empty-reference", 0, lambda a: a[:0]),
          ("not-an-array", 0, lambda a: a.tolist())]
    for f in ("absolute_error", "percentage_correct", "percentage_correct_segments", "karaoke_perceptual_metric",
              "evaluate"):
        E.append(Entry("alignment.%s" % f, getattr(alignment, f), [a_r, a_e], al))
    # tempo
    t = [lambda: A([60.0, 120.0]), lambda: 0.25, lambda: A([64.0, 120.0])]
    tf = [("size-1", 0, lambda a: a[:1]), ("size-3", 0, lambda a: np.append(a, 90.0)), ("size-1", 2, lambda a: a[:1]),
          ("size-3", 2, lambda a: np.append(a, 90.0)), ("inf", 0, lambda a: _set(a, 1, np.inf)),
          ("both-zero-reference", 0, lambda a: a * 0.0), ("weight<0", 1, lambda w: -0.25),
          ("weight>1", 1, lambda w: 1.25)] + \
        at_all("negative", 0, 2, lambda a, p: _set(a, p, -60.0)) + at_all("negative", 2, 2, lambda a, p: _set(a, p, -1.0)) + \
        at_all("nan", 0, 2, lambda a, p: _set(a, p, np.nan)) + at_all("nan", 2, 2, lambda a, p: _set(a, p, np.nan)) + \
        at_all("inf", 2, 2, lambda a, p: _set(a, p, np.inf))
    E.append(Entry("tempo.detection", tempo.detection, t, tf))
    E.append(Entry("tempo.evaluate", tempo.evaluate, t, tf))
    E.append(Entry("tempo.detection[tol]", lambda r, w, e, tol: tempo.detection(r, w, e, tol=tol),
                   t + [lambda: 0.08], [("tol<0", 3, lambda x: -0.01), ("tol>1", 3, lambda x: 1.5)]))
    # key
    kf = [(n, i, (lambda s, v=v: v)) for i in (0, 1) for n, v in
          [("no-mode", "C"), ("bad-tonic", "H major"), ("bad-mode", "C dorian"), ("X-with-mode", "X major"),
           ("three-words", "C major x"), ("empty", ""), ("mode-case", "C Major")]]
    E.append(Entry("key.weighted_score", key.weighted_score, [lambda: "C major", lambda: "a minor"], kf))
    E.append(Entry("key.evaluate", key.evaluate, [lambda: "C major", lambda: "a minor"], kf))
    # melody (cent/voicing level)
    m = [lambda: A([0.0, 1.0, 1.0, 0.0]), lambda: A([0.0, 5350.0, 5350.0, 0.0]), lambda: A([0.0, 1.0, 1.0, 1.0]),
         lambda: A([0.0, 5350.0, 5390.0, 4150.0])]
    mf = [drop_last(i) for i in range(4)] + [add_one(i) for i in range(4)]
    vf = []
    for i in (0, 2):
        vf += at_all("voicing<0", i, 4, lambda a, p: _set(a, p, -0.1)) + at_all("voicing>1", i, 4, lambda a, p: _set(a, p, 1.5))
    for f in ("raw_pitch_accuracy", "raw_chroma_accuracy", "overall_accuracy"):
        E.append(Entry("melody.%s" % f, getattr(melody, f), m, mf + vf))
    mv = [m[0], m[2]]
    for f in ("voicing_recall", "voicing_false_alarm", "voicing_measures"):
        E.append(Entry("melody.%s" % f, getattr(melody, f), mv,
                       [drop_last(0), drop_last(1), add_one(0)] +
                       at_all("voicing<0", 0, 4, lambda a, p: _set(a, p, -0.1)) +
                       at_all("voicing>1", 0, 4, lambda a, p: _set(a, p, 1.5)) +
                       at_all("voicing<0", 1, 4, lambda a, p: _set(a, p, -0.1)) +
                       at_all("voicing>1", 1, 4, lambda a, p: _set(a, p, 1.5))))
    mt = [lambda: A([0.0, 0.25, 0.5, 0.75]), lambda: A([0.0, 220.0, 220.0, 0.0]), lambda: A([0.0, 0.25, 0.5, 0.75]),
          lambda: A([0.0, 220.0, -225.0, 110.0])]
    # melody.evaluate: no melody validator documents a time/frequency length check (to_cent_voicing resamples),
    # so no fault is demanded at that level; voicing-range faults enter through est_voicing / ref_reward
    E.append(Entry("melody.evaluate[voicing]",
                   lambda rt, rf, et, ef, ev: melody.evaluate(rt, rf, et, ef, est_voicing=ev),
                   mt + [lambda: A([0.5, 1.0, 0.5, 1.0])],
                   [("voicing>1", 4, lambda a: _set(a, 1, 1.5)), ("voicing<0", 4, lambda a: _set(a, 3, -0.5))]))
    # multipitch
    mp = [lambda: A([0.0, 0.25, 0.5]), lambda: [A([440.0, 660.0]), A([]), A([220.0])], lambda: A([0.0, 0.25, 0.5]),
          lambda: [A([440.0]), A([330.0]), A([220.0, 440.0])]]

    def fset(fr, k, v):
        fr = [x.copy() for x in fr]
        fr[k] = _set(fr[k], 0, v)
        return fr
    mpf = [drop_last(0), drop_last(1), drop_last(2), drop_last(3), add_one(1), add_one(3),
           ("unsorted-times", 0, lambda a: _swap(a, 0)), ("unsorted-times", 2, lambda a: _swap(a, 1)),
           ("2-d-times", 0, lambda a: a.reshape(1, -1)), ("too-large-time", 2, lambda a: _set(a, -1, 1e5)),
           ("freq-negative", 1, lambda fr: fset(fr, 0, -440.0))]
    for i, frames_with_freq in ((1, (0, 2)), (3, (0, 1, 2))):
        for k in frames_with_freq:
            for nm, v in (("freq<20", 19.0), ("freq>5000", 5001.0), ("freq=0", 0.0)):
                mpf.append(("%s@frame%d" % (nm, k), i, (lambda fr, k=k, v=v: fset(fr, k, v))))
    E.append(Entry("multipitch.metrics", multipitch.metrics, mp, mpf))
    E.append(Entry("multipitch.evaluate", multipitch.evaluate, mp, mpf))
    # transcription
    n = [lambda: A([[0.0, 0.5], [0.5, 1.0], [1.0, 2.0]]), lambda: A([440.0, 220.0, 330.0]),
         lambda: A([[0.04, 0.5], [0.5, 1.25]]), lambda: A([442.0, 220.0])]
    def pitch_faults(i, n):
        return [("pitch=%g@%d" % (v, p), i, (lambda a, p=p, v=v: _set(a, p, v))) for p in range(n) for v in (0.0, -440.0)]
    nf = iv_faults(0, 3) + iv_faults(2, 2) + [drop_last(1), drop_last(3), add_one(1), add_one(3)] + \
        pitch_faults(1, 3) + pitch_faults(3, 2)
    E.append(Entry("transcription.precision_recall_f1_overlap", transcription.precision_recall_f1_overlap, n, nf))
    E.append(Entry("transcription.evaluate", transcription.evaluate, n, nf))
    ni = [n[0], n[2]]
    nif = iv_faults(0, 3) + iv_faults(1, 2)
    E.append(Entry("transcription.onset_precision_recall_f1", transcription.onset_precision_recall_f1, ni, nif))
    E.append(Entry("transcription.offset_precision_recall_f1", transcription.offset_precision_recall_f1, ni, nif))
    nv = [n[0], n[1], lambda: A([64.0, 100.0, 30.0]), n[2], n[3], lambda: A([60.0, 90.0])]
    nvf = iv_faults(0, 3) + iv_faults(3, 2) + [drop_last(1), drop_last(2), drop_last(4), drop_last(5), add_one(2),
                                                 add_one(5)] + pitch_faults(1, 3) + pitch_faults(4, 2) + \
        [("velocity<0@%d" % p, 2, (lambda a, p=p: _set(a, p, -1.0))) for p in range(3)] + \
        [("velocity<0@%d" % p, 5, (lambda a, p=p: _set(a, p, -0.5))) for p in range(2)]
    E.append(Entry("transcription_velocity.precision_recall_f1_overlap",
                   transcription_velocity.precision_recall_f1_overlap, nv, nvf))
    E.append(Entry("transcription_velocity.evaluate", transcription_velocity.evaluate, nv, nvf))
    # segment boundaries
    s = [lambda: A([[0.0, 1.0], [1.0, 2.5], [2.5, 4.0]]), lambda: A([[0.0, 1.5], [1.5, 4.0]])]
    sf = iv_faults(0, 3) + iv_faults(1, 2)
    E.append(Entry("segment.detection", segment.detection, s, sf))
    E.append(Entry("segment.deviation", segment.deviation, s, sf))
    # segment labelling
    sl = [s[0], lambda: ["a", "b", "a"], s[1], lambda: ["x", "y"]]
    slf = iv_faults(0, 3) + iv_faults(2, 2) + [drop_last(1), drop_last(3), add_one(1), add_one(3),
                                                 ("not-starting-at-0", 0, lambda a: a + 0.5),
                                                 ("not-starting-at-0", 2, lambda a: _set(a, (0, 0), 0.25)),
                                                 ("different-ends", 2, lambda a: _set(a, (-1, 1), 5.0)),
                                                 ("different-ends", 0, lambda a: _set(a, (-1, 1), 3.5))]
    # a negative time also moves the start away from 0: still a ValueError by either documented check
    for f in ("pairwise", "rand_index", "ari", "mutual_information", "nce", "vmeasure"):
        E.append(Entry("segment.%s" % f, getattr(segment, f), sl, slf))
    E.append(Entry("segment.evaluate", segment.evaluate, sl,
                   [x for x in iv_faults(0, 3) + iv_faults(2, 2) if not x[0].startswith("negative-time")] +
                   [drop_last(1), drop_last(3), add_one(1), add_one(3)]))
    # chord
    c = [lambda: ["C:maj", "A:min7", "X", "D:sus4(b7)"], lambda: ["C", "A:min", "G", "D:7"]]
    bad_labels = ["C:majj", "H", "C::maj", "C:(3", "C/", "C:maj/", "", "C:maj(", "N:maj", "C#b:min", "C:min7)(", "C\n"]
    cf = [drop_last(0), drop_last(1), add_one(1)]
    cl = [("bad-label:%r" % b, i, (lambda l, b=b, p=p: l[:p] + [b] + l[p + 1:])) for b in bad_labels for i in (0, 1)
          for p in (0, 3)]
    for f in ("thirds", "thirds_inv", "triads", "triads_inv", "tetrads", "tetrads_inv", "root", "mirex", "majmin",
              "majmin_inv", "sevenths", "sevenths_inv"):
        E.append(Entry("chord.%s" % f, getattr(chord, f), c, cf))
        E.append(Entry("chord.%s[label]" % f, getattr(chord, f), c, cl, exc=chord.InvalidChordException))
    for f in ("encode", "split", "validate_chord_label"):
        E.append(Entry("chord.%s[label]" % f, getattr(chord, f), [lambda: "C:maj"],
                       [("bad-label:%r" % b, 0, (lambda s, b=b: b)) for b in bad_labels],
                       exc=chord.InvalidChordException))
    ci = [lambda: A([[0.0, 1.0], [1.0, 2.0], [2.0, 3.0]]), lambda: A([[0.0, 1.5], [1.5, 3.0]])]
    cif = iv_faults(0, 3) + iv_faults(1, 2) + [("overlap", 0, lambda a: _set(a, (0, 1), 1.5)),
                                                 ("overlap", 0, lambda a: _set(a, (2, 0), 1.5))]
    E.append(Entry("chord.directional_hamming_distance", chord.directional_hamming_distance, ci, cif))
    E.append(Entry("chord.overseg", chord.overseg, ci, cif))
    cif2 = iv_faults(0, 3) + iv_faults(1, 2) + [("overlap", 1, lambda a: _set(a, (0, 1), 2.0))]
    E.append(Entry("chord.underseg", chord.underseg, ci, cif2))
    E.append(Entry("chord.seg", chord.seg, ci, cif + [("overlap", 1, lambda a: _set(a, (0, 1), 2.0))]))
    E.append(Entry("chord.weighted_accuracy", chord.weighted_accuracy,
                   [lambda: A([1.0, 0.0, -1.0, 1.0]), lambda: A([1.0, 2.0, 1.0, 0.5])],
                   [drop_last(0), drop_last(1), add_one(1), ("negative-weight", 1, lambda a: _set(a, 2, -1.0))]))
    ce = [ci[0], lambda: ["C:maj", "G:7/3", "N"], ci[1], lambda: ["C", "G:maj(9)"]]
    E.append(Entry("chord.evaluate", chord.evaluate, ce,
                   [drop_last(1), drop_last(3), add_one(3)] +
                   [x for x in iv_faults(0, 3) if x[0].startswith(("zero", "negative-d", "n-by", "1-d"))]))
    E.append(Entry("chord.evaluate[label]", chord.evaluate, ce,
                   [("bad-label:%r" % b, i, (lambda l, b=b: [b] + l[1:])) for b in bad_labels for i in (1, 3)],
                   exc=chord.InvalidChordException))
    # pattern
    o1 = [(0.0, 60.0), (0.5, 62.0), (1.0, 64.0)]
    o2 = [(4.0, 60.0), (4.5, 62.0), (5.0, 64.0)]
    p = [lambda: [[list(o1), list(o2)], [list(o1)]], lambda: [[list(o2)], [list(o1), list(o2)]]]
    pf = [("empty-pattern", i, lambda x: x + [[]]) for i in (0, 1)] + \
         [("3-tuple-onset", i, lambda x: [[[(0.0, 60.0, 1.0)] + x[0][0][1:]] + x[0][1:]] + x[1:]) for i in (0, 1)] + \
         [("1-tuple-onset", i, lambda x: x[:-1] + [[[(0.5,)]]]) for i in (0, 1)]
    for f in ("standard_FPR", "establishment_FPR", "occurrence_FPR", "three_layer_FPR", "first_n_three_layer_P",
              "first_n_target_proportion_R", "evaluate"):
        E.append(Entry("pattern.%s" % f, getattr(pattern, f), p, pf))
    # hierarchy
    h = [lambda: [A([[0.0, 4.0]]), A([[0.0, 2.0], [2.0, 4.0]])], lambda: [["a"], ["b", "c"]],
         lambda: [A([[0.0, 4.0]]), A([[0.0, 1.0], [1.0, 4.0]])], lambda: [["a"], ["b", "b"]]]

    def lvl(hh, k, fn):
        hh = [x.copy() for x in hh]
        hh[k] = fn(hh[k])
        return hh
    hf_iv = [("level-not-starting-at-0", i, lambda hh: lvl(hh, 1, lambda a: _set(a, (0, 0), 0.5))) for i in (0, 2)] + \
            [("level-different-end", i, lambda hh: lvl(hh, 1, lambda a: _set(a, (-1, 1), 5.0))) for i in (0, 2)] + \
            [("zero-duration", i, lambda hh: lvl(hh, 1, lambda a: _set(a, (0, 1), 0.0))) for i in (0, 2)] + \
            [("n-by-3", i, lambda hh: lvl(hh, 1, lambda a: np.hstack([a, a[:, :1] + 9.0]))) for i in (0, 2)]
    ht = [h[0], h[2]]
    E.append(Entry("hierarchy.tmeasure", lambda r, e: hierarchy.tmeasure(r, e, frame_size=0.5, window=2.0), ht,
                   [(nm, 0 if i == 0 else 1, f) for nm, i, f in hf_iv]))
    E.append(Entry("hierarchy.lmeasure", lambda r, rl, e, el: hierarchy.lmeasure(r, rl, e, el, frame_size=0.5), h, hf_iv))
    E.append(Entry("hierarchy.tmeasure[params]",
                   lambda r, e, fs, w: hierarchy.tmeasure(r, e, frame_size=fs, window=w), ht + [lambda: 0.5, lambda: 2.0],
                   [("frame_size=0", 2, lambda x: 0.0), ("frame_size<0", 2, lambda x: -1.0),
                    ("frame_size>window", 2, lambda x: 2.5), ("frame_size>window", 3, lambda x: 0.25)]))
    E.append(Entry("hierarchy.lmeasure[params]",
                   lambda r, rl, e, el, fs: hierarchy.lmeasure(r, rl, e, el, frame_size=fs), h + [lambda: 0.5],
                   [("frame_size=0", 4, lambda x: 0.0), ("frame_size<0", 4, lambda x: -0.5)]))
    E.append(Entry("hierarchy.evaluate[params]",
                   lambda r, rl, e, el, fs, w: hierarchy.evaluate(r, rl, e, el, frame_size=fs, window=w),
                   h + [lambda: 0.5, lambda: 2.0],
                   [("frame_size=0", 4, lambda x: 0.0), ("frame_size<0", 4, lambda x: -1.0),
                    ("frame_size>window", 4, lambda x: 2.5)]))
    # separation (cheap: validation happens before any heavy computation)
    sp = [lambda: np.vstack([np.sin(np.arange(64) / 3.0), np.cos(np.arange(64) / 5.0)]),
          lambda: np.vstack([np.sin(np.arange(64) / 3.0) * 0.9, np.cos(np.arange(64) / 5.0) + 0.1])]
    spf = [("silent-source", 0, lambda a: _set(a, (1, slice(None)), 0.0)),
           ("silent-source", 1, lambda a: _set(a, (0, slice(None)), 0.0)),
           ("shape-mismatch", 1, lambda a: a[:, :-1]), ("shape-mismatch", 0, lambda a: a[:1]),
           ("4-d", 0, lambda a: a.reshape(2, 8, 4, 2)), ("4-d-both", 0, lambda a: a.reshape(2, 8, 4, 2))]
    for f in ("validate", "bss_eval_sources", "bss_eval_sources_framewise", "bss_eval_images",
              "bss_eval_images_framewise", "evaluate"):
        E.append(Entry("separation.%s" % f, getattr(separation, f), sp, spf))
    # appended last so that entry indices in older replay files stay valid
    # pattern: a mis-shaped (onset, midi) tuple at every (pattern, occurrence, note) position of either side
    def tup(x, pi, oi, ni, t):
        x = [[list(o) for o in pat] for pat in x]
        x[pi][oi][ni] = t
        return x
    ppos = [(nm, i, (lambda x, pi=pi, oi=oi, ni=ni, t=t: tup(x, pi, oi, ni, t)))
            for i in (0, 1) for pi in range(2) for oi in range(len(p[i]()[pi])) for ni in range(3)
            for nm, t in (("3-tuple-onset@%d.%d.%d" % (pi, oi, ni), (0.25, 61.0, 1.0)),
                          ("1-tuple-onset@%d.%d.%d" % (pi, oi, ni), (0.25,)))]
    for f in ("validate", "standard_FPR", "establishment_FPR", "occurrence_FPR", "three_layer_FPR",
              "first_n_three_layer_P", "first_n_target_proportion_R", "evaluate"):
        E.append(Entry("pattern.%s[positions]" % f, getattr(pattern, f), p, ppos))
    # malformed estimated intervals lying strictly beyond the reference span (the span adjustment of evaluate()
    # must not make them disappear before validation); labels are padded so that only the interval is at fault
    E.append(Entry("segment.evaluate[beyond-span]",
                   lambda r, rl, e, el: segment.evaluate(r, rl, e, (list(el) + ["q", "q"])[:len(e)]), sl,
                   beyond_faults(2, 4.0)))
    ce1 = [lambda: ci[0]() + 1.0, ce[1], lambda: ci[1]() + 1.0, ce[3]]
    E.append(Entry("chord.evaluate[beyond-span]",
                   lambda r, rl, e, el: chord.evaluate(r, rl, e, (list(el) + ["A:min", "A:min"])[:len(e)]), ce1,
                   beyond_faults(2, 4.0) + before_faults(2, 1.0)))
    return E


_ENTRIES = None


def get_entries():
    global _ENTRIES
    if _ENTRIES is None:
        _ENTRIES = entries()
    return _ENTRIES


def check_fault(acc, ei, fi):
    e = get_entries()[ei]
    name, argi, mut = e.faults[fi]
    case = {"kind": "fault", "entry": e.name, "entry_index": ei, "fault_index": fi, "fault": name, "arg": argi}
    with warnings.catch_warnings():
        warnings.simplefilter("ignore")
        # the unfaulted base input must be accepted (otherwise the panel itself is wrong: harness error)
        try:
            e.fn(*[b() for b in e.base])
        except Exception as ex:  # noqa
            acc.violation("valid-input-scored", e.name, dict(case, fault="<none: base input>"),
                          observed="raised %s: %s" % (type(ex).__name__, ex))
            return
        args = [b() for b in e.base]
        args[argi] = mut(args[argi])
        if name == "4-d-both":
            args[1] = args[1].reshape(args[0].shape)
        acc.transitions += 1
        try:
            r = e.fn(*args)
            acc.outcome((e.name, "returned"))
            acc.violation("raises-ValueError", e.name, case, observed="returned %s" % repr(r)[:120],
                          expected=e.exc.__name__)
        except e.exc:
            acc.outcome((e.name, e.exc.__name__))
        except Exception as ex:  # noqa
            acc.outcome((e.name, type(ex).__name__))
            acc.violation("raises-ValueError", e.name, case, observed="raised %s: %s" % (type(ex).__name__, ex),
                          expected=e.exc.__name__)


def shard_faults(arg):
    acc = core.Acc(PID)
    for ei in arg:
        e = get_entries()[ei]
        for fi in range(len(e.faults)):
            acc.states += 1
            acc.nontrivial += 1
            acc.tick({"kind": "fault", "entry": e.name, "entry_index": ei, "fault_index": fi,
                      "fault": e.faults[fi][0], "arg": e.faults[fi][1]})
            check_fault(acc, ei, fi)
    if arg:
        e = get_entries()[arg[0]]
        acc.sample({"kind": "fault", "entry": e.name, "fault": e.faults[0][0], "arg": e.faults[0][1]})
    return acc


# ============================================================================== driver
def replay(case, acc):
    k = case["kind"]
    if k == "fault":
        ei = case["entry_index"]
        if get_entries()[ei].name != case["entry"]:
            raise core.HarnessError("entry table changed since the replay file was written")
        check_fault(acc, ei, case["fault_index"])
    elif k == "coincidence":
        check_coincidence(acc, case["which"], [tuple(x) for x in case["ref"]], [tuple(x) for x in case["est"]],
                          case["cfg"])
    elif k == "pair":
        task = base.load(case["task"])
        func = task.func(case["func"])
        state = (base.tup(case["ref"]), base.tup(case["est"]))
        try:
            with warnings.catch_warnings():
                warnings.simplefilter("ignore")
                func.fn(*func.build(state), **case.get("cfg", {}))
        except Exception as ex:  # noqa
            acc.violation("valid-input-scored", func.name, case, observed="raised %s: %s" % (type(ex).__name__, ex))
    else:
        raise core.HarnessError("unknown case kind %r" % k)


def run(run):
    run.rule = ("valid side: every adapter pair state x function x configuration, plus evaluate() of segment / "
                "chord / hierarchy on a boundary-coincidence lattice; fault side: every entry point x every "
                "documented single fault x every position; a state is non-trivial when it carries a fault or a "
                "boundary coincidence")
    run.assumptions = [
        "only faults that the task's validator documents are demanded; ValueError (InvalidChordException for chord "
        "labels) is the only accepted outcome on the fault side",
        "beat.evaluate with 2-d beat arrays is not demanded: trimming (documented pre-processing) flattens them",
        "segment.evaluate documents that it adjusts spans, so 'not starting at 0 / different ends' are valid there",
        "an empty reference for segment/chord/hierarchy evaluate() is outside the claim (span is taken from it)",
    ]
    for name in base.tasks():
        run.explore("%s valid pairs" % name, __name__, "shard_noraise",
                    generic.shard_plan(name, "pair", run.tier, run.phase, 64))
    shards = []
    for which in ("segment", "chord", "hierarchy"):
        for ref in REF_SEGS:
            if which != "chord" and ref[0][0] != 0.0:
                continue
            shards.append((which, ref, run.phase, run.tier))
    run.explore("evaluate() on the coincidence lattice", __name__, "shard_coincidence", shards)
    n = len(get_entries())
    run.explore("single faults (%d entry points)" % n, __name__, "shard_faults", core.chunks(list(range(n)), 32))
    run.require_nonvacuous("coincidence.boundary_on_reference_start_or_end",
                           "coincidence.estimate_outside_reference_span", "coincidence.empty_estimate",
                           "coincidence.window_equals_frame_size")
