"""C02 - a perfect estimate receives the perfect score in every task."""
from mc import core, generic
from mc.tasks import base

PID = "C02"
LEVEL = "model_checking"


def replay(case, acc):
    generic.replay(case, acc, "perfect")


def run(run):
    run.rule = ("every single annotation x of each task's (deeper) single space is scored against an exact copy "
                "of itself under default + single (thorough: pairwise) non-default parameters; optimum table "
                "guarded by model-side non-degeneracy predicates; non-trivial = >=2 items")
    run.assumptions = [
        "non-degeneracy as stated in the property: >=5 strictly increasing beats for Goto, P-score "
        "precondition (beats further apart than twice the window), >=2 distinct beats for continuity / "
        "information gain, distinct beats for best-metric-level Cemgil",
    ]
    for name in base.tasks():
        task = base.load(name)
        if task.single_space is None:
            continue
        run.explore("%s singles" % name, "mc.generic", "shard_perfect",
                    generic.shard_plan(name, "single", run.tier, run.phase, 64))
