"""C04 - event, frame and note metrics equal their published definitions.

For every task adapter in mc/tasks: every state of the pair space (small-scope product space S +
deviation-bounded space D, see the adapter) x every function x the deviation-bounded configuration
alphabet (defaults, every single non-default value; thorough: every pair) is executed on the real
code and compared with the independent reference model (mc/spec) to 1e-9.
Reference models are bound to the repository fixtures first (model vs recorded output*.json)."""
from mc import core, generic
from mc.tasks import base

PID = "C04"
LEVEL = "model_checking"


def replay(case, acc):
    generic.replay(case, acc, "defn")


def run(run):
    run.rule = ("every (reference, estimate) pair of each task's small-scope space x every metric function x "
                "default + single (thorough: pairwise) non-default parameter values; non-trivial = both sides "
                ">=2 items and differ")
    run.assumptions = [
        "scope: event-, frame- and note-based scores (beat, onset, tempo, key, alignment, pattern, melody, multipitch, "
        "transcription, transcription_velocity, segment boundary detection / deviation); chord, hierarchy and the "
        "segment labelling indices are decided by C10-C12, C17 and C16 and are not compared here",
        "small-scope hypothesis; exact dyadic/decimal lattices so that threshold comparisons are decided exactly",
        "states on which the documented definition is undefined (zero inter-beat interval, value within 1e-9 "
        "of a threshold or histogram edge) are skipped and counted (counter undefined_or_near_threshold_skipped)",
        "Goto, continuity and information gain: the published definition is an algorithm (Davies et al. / Beat "
        "Evaluation Toolbox); the model is a from-scratch scalar transcription in exact rationals, bound to the "
        "recorded fixture outputs; information-gain first-annotation convention as in DESIGN Appendix A",
    ]
    for name in base.tasks():
        task = base.load(name)
        if not generic.c04_funcs(task):
            continue          # chord / hierarchy: owned by C10-C12 / C17 (their models are still fixture-bound there)
        if hasattr(task, "fixture_check"):
            n = task.fixture_check(run.tier)
            run.total.counters["fixture_pairs_model_conformant:%s" % name] += n
        run.explore("%s pairs" % name, "mc.generic", "shard_defn",
                    generic.shard_plan(name, "pair", run.tier, run.phase, 64))
        if hasattr(task, "fixture_states"):
            nfx = len(task.fixture_states(run.tier))
            run.explore("%s perturbed repository fixtures" % name, "mc.generic", "shard_fixture",
                        [(name, run.tier, [i]) for i in range(nfx)])
