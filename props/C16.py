"""C16 - segment labelling scores equal their clustering-index definitions.

Every state is a pair of labelled segmentations (common span, start 0) x frame_size; inside a state every beta of the
alphabet is executed.  The real functions segment.pairwise / rand_index / ari / mutual_information / nce / vmeasure
are run and compared (1e-9) with the exact reference model mc.spec.segment_labels evaluated on the integer
contingency table of the two frame-label sequences of the step-function model.

Spaces (all enumerated completely, nothing sampled):
  main       n cells (5 quick, 6 thorough), every composition into segments, restricted-growth label strings over
             <=3 names (adjacent equal labels allowed), all ordered pairs, frame_size in {cell/2, cell} (0.25, 0.5 for
             the 0.5 s cell), beta in {0.5, 1, 2}
  small      spans of 1..4 (thorough 1..5) cells, one name per segment allowed (all-singleton partitions, 1 frame)
  fs0.1      frame_size 0.1 (the documented default) with boundaries at odd multiples of 0.05
  case       name menus in which two names differ only in case ('a'/'A'): they must collide; additionally the
             library is re-run on the lower-cased labels and must return the same numbers
  frames     a panel of shapes at 64 / 81 / 100 frames (one cluster, balanced / unbalanced k clusters, repeats)
Where the textbook formula is 0/0 the model says "undefined"; the key is skipped and counted (undef.<key>).
Before anything is explored the model must reproduce the recorded outputs of the repository fixtures
(tests/data/segment/output*.json) to 1e-7 - otherwise exit 2.
"""
import glob
import json
import math
import os
from fractions import Fraction as Fr

import numpy as np

from mc import core, lib
from mc.spec import segment_labels as M

PID = "C16"
LEVEL = "model_checking"

import mir_eval
from mir_eval import segment

TOL = 1e-9
BETAS = (0.5, 1.0, 2.0)
UNDEF = M.UNDEF

# clause names: "equals-definition:<slug>"
SLUG = {"Pairwise Precision": "pairwise-precision", "Pairwise Recall": "pairwise-recall",
        "Pairwise F-measure": "pairwise-f", "Rand Index": "rand", "Adjusted Rand Index": "ari",
        "Mutual Information": "mi", "Adjusted Mutual Information": "ami", "Normalized Mutual Information": "nmi",
        "NCE Over": "nce-over", "NCE Under": "nce-under", "NCE F-measure": "nce-f",
        "V Precision": "v-precision", "V Recall": "v-recall", "V-measure": "v-f"}

# ------------------------------------------------------------------------------------------ phase menus
# (reference names, estimate names): six distinct names each, no two names of one side equal ignoring case;
# the estimate's names sort differently from their first-use order, so "same partition, other names" is exercised.
NAME_MENUS = [
    (("a", "b", "c", "d", "e", "f"), ("c", "a", "b", "f", "d", "e")),
    (("Verse", "Chorus", "Bridge", "Intro", "Outro", "Solo"), ("B", "A", "C", "E", "D", "F")),
    (("1", "2", "10", "3", "20", "0"), ("z", "y", "x", "w", "v", "u")),
    (("verse (solo)", "verse", "Verse 2", "N", "x", "__T_MIN"), ("s2", "s0", "s1", "s5", "s3", "s4")),
    (("C", "B", "A", "F", "E", "D"), ("a", "b", "c", "d", "e", "f")),
    (("silence", "Refrain", "refrain'", "A'", "A''", "a"), ("9", "8", "7", "6", "5", "4")),
    (("b", "a", "c", "e", "d", "f"), ("Chorus", "Verse", "Break", "End", "Coda", "Fade")),
    (("x", "Y", "z", "W", "v", "U"), ("beta", "alpha", "Gamma", "delta", "Epsilon", "zeta")),
]
# menus with an intended collision (index pairs that must fall into one cluster)
CASE_MENUS = [
    (("a", "A", "b", "B"), ("X", "y", "x", "Y")),
    (("Verse", "verse", "chorus", "VERSE"), ("b", "a", "B", "A")),
    (("a", "b", "A", "c"), ("Intro", "INTRO", "outro", "intro")),
    (("N", "x", "n", "X"), ("c", "C", "b", "a")),
    (("solo", "Solo", "bridge", "solo "), ("q", "r", "R", "Q")),
    (("A'", "a'", "a", "A"), ("b1", "B1", "b2", "B2")),
    (("z", "y", "Z", "Y"), ("Chorus", "chorus", "Verse", "verse")),
    (("a", "A", "b", "c"), ("e", "f", "E", "g")),
]
CELLS = [0.5, 0.75, 0.5, 1.0, 0.625, 0.5, 0.75, 1.0]     # cell length per phase (dyadic)


# ------------------------------------------------------------------------------------------ annotations
def annotations(ncells, kmax, names, cell, shift=0.0, tail=0.0):
    """Every (boundaries, labels): compositions of ncells cells x restricted-growth strings over <=kmax names.
    `shift` moves every boundary except the first (fs0.1 space: 0.5k + 0.05); `tail` is added to the common end
    only (a partial last frame: T/frame_size is then not an integer)."""
    out = []
    for comp in lib.compositions(ncells):
        cuts = [0]
        for c in comp:
            cuts.append(cuts[-1] + c)
        bounds = [0.0] + [float(Fr(k) * Fr(cell) + Fr(shift)) for k in cuts[1:]]
        bounds[-1] = float(Fr(bounds[-1]) + Fr(tail))
        for rg in lib.restricted_growth(len(comp), kmax):
            out.append((tuple(bounds), tuple(names[v] for v in rg)))
    return out


def _blocks(lengths, labels, names, fs):
    bounds = [0.0]
    for n in lengths:
        bounds.append(bounds[-1] + n * fs)
    return (tuple(bounds), tuple(names[v] for v in labels))


def frame_panel(n, names, fs):
    """Shapes at n frames: one cluster, balanced / unbalanced k clusters, repeats, geometric, shifted."""
    shapes = []

    def add(lengths, labels):
        assert sum(lengths) == n and all(x > 0 for x in lengths)
        s = _blocks(lengths, labels, names, fs)
        if s not in shapes:
            shapes.append(s)

    add([n], [0])
    add([n // 2, n - n // 2], [0, 0])
    for k in (2, 3, 4, 5):
        base = [n // k] * k
        base[-1] += n - sum(base)
        add(base, list(range(k)))                                  # balanced
        add([1] * (k - 1) + [n - (k - 1)], list(range(k)))         # k-1 single frames then the rest
        add([n - (k - 1)] + [1] * (k - 1), list(range(k)))         # the rest then single frames
        sh = list(base)
        sh[0] += 1
        sh[-1] -= 1
        add(sh, list(range(k)))                                    # balanced, boundary moved by one frame
        for m in (8, 16):
            b = [n // m] * m
            b[-1] += n - sum(b)
            add(b, [i % k for i in range(m)])                      # repeated labels
        add(base, [0] * (k - 1) + [1])                             # adjacent equal labels merge
    g, rest = [], n
    while rest > 1 and len(g) < 5:
        g.append(rest - rest // 2)
        rest //= 2
    g[-1] += rest
    add(g, list(range(len(g))))                                    # geometric
    add(g, [i % 2 for i in range(len(g))])
    add([1, n - 2, 1], [0, 1, 0])
    add([1, n - 2, 1], [0, 1, 2])
    add([n - 1, 1], [0, 1])
    return shapes


# ------------------------------------------------------------------------------------------ the oracle
def _intervals(bounds):
    return np.array([[bounds[i], bounds[i + 1]] for i in range(len(bounds) - 1)], dtype=float)


def _ivs(bounds):
    return [(bounds[i], bounds[i + 1]) for i in range(len(bounds) - 1)]


def _lib(acc, fn, rb, rl, eb, el, **kw):
    """One execution of a public function on fresh inputs: (ok, value-or-message)."""
    acc.transitions += 1
    try:
        return True, fn(_intervals(rb), list(rl), _intervals(eb), list(el), **kw)
    except Exception as ex:  # noqa
        return False, "raised %s: %s" % (type(ex).__name__, ex)


def _num(x):
    """Scalar float of a returned score; anything that is not a real scalar is returned as a string."""
    try:
        if isinstance(x, (tuple, list, dict, str)) or (isinstance(x, np.ndarray) and x.ndim > 0):
            return "non-scalar %r" % (x,)
        return float(x)
    except Exception:  # noqa
        return "non-scalar %r" % (x,)


def _triple(x):
    try:
        if len(x) != 3:
            return None
        return [_num(v) for v in x]
    except Exception:  # noqa
        return None


def _agree(obs, exp):
    if isinstance(obs, str):
        return False
    return lib.close(obs, float(exp), TOL)


def check_pair(acc, rb, rl, eb, el, fs, betas, case_rel=False, full_identity=True):
    """All clauses of C16 on one (reference, estimate, frame_size) state."""
    case = lambda: {"kind": "pair", "rb": list(rb), "rl": list(rl), "eb": list(eb), "el": list(el),  # noqa
                    "fs": fs, "betas": list(betas), "case_rel": case_rel, "full_identity": full_identity}
    # ---- model side (inputs only)
    yr = M.frame_labels(_ivs(rb), rl, fs)
    ye = M.frame_labels(_ivs(eb), el, fs)
    if len(yr) != len(ye) or not yr or None in yr or None in ye:
        raise core.HarnessError("invalid state generated: %r" % (case(),))
    tab = M.contingency(yr, ye)
    a, b, n = M.margins(tab)
    same = M.same_partition(yr, ye)
    c = acc.counters
    c["frames_total"] += n
    q = Fr(rb[-1]) / Fr(fs)
    if q.denominator != 1:
        c["in.partial_last_frame"] += 1
        if q - (q.numerator // q.denominator) > Fr(1, 2):
            c["in.partial_last_frame_more_than_half"] += 1
    if same:
        c["in.partitions_coincide"] += 1
        if [str(x).lower() for x in rl] != [str(x).lower() for x in el] or tuple(rb) != tuple(eb):
            c["in.partitions_coincide_other_names_or_cuts"] += 1
    if len(a) == 1 and len(b) == 1:
        c["in.both_one_cluster"] += 1
    elif len(a) == 1 or len(b) == 1:
        c["in.exactly_one_side_one_cluster"] += 1
    if len(a) == n or len(b) == n:
        c["in.a_side_all_singletons"] += 1
    if len(a) == n and len(b) == n and n > 1:
        c["in.both_all_singletons"] += 1
    if M.independent(tab) and len(a) > 1 and len(b) > 1:
        c["in.independent_nontrivial"] += 1
    if len(a) != len(b):
        c["in.nonsquare_table"] += 1
    for labs in (rl, el):
        low = [str(x).lower() for x in labs]
        if len(set(low)) < len(set(labs)):
            c["in.case_collision_within_annotation"] += 1
        if any(low[i] == low[i + 1] for i in range(len(low) - 1)):
            c["in.adjacent_equal_labels"] += 1
    if len(a) > 1 and len(b) > 1 and not same:
        acc.nontrivial += 1

    def compare(key, site, obs, exp):
        if exp == UNDEF:
            c["undef." + key] += 1
            # observation only (never a verdict here): what the library returns where the formula is 0/0
            if isinstance(obs, float) and obs != obs:
                c["obs.nan_where_undefined." + key] += 1
            elif isinstance(obs, float) and key == "Normalized Mutual Information" and abs(obs) > TOL:
                c["obs.nmi_not_0_when_one_side_is_one_cluster"] += 1
            return
        acc.conform += 1
        if not _agree(obs, exp):
            acc.violation("equals-definition:" + SLUG[key], site, case(), observed={key: obs},
                          expected={key: float(exp)})

    def raised(site, msg):
        acc.violation("no-raise", site, case(), observed=msg)

    def triple_or_violation(site, ok, val):
        if not ok:
            raised(site, val)
            return None
        t = _triple(val)
        if t is None:
            acc.violation("equals-definition:arity", site, case(), observed=repr(val)[:200],
                          expected="3 scores")
        return t

    summary = []
    # ---- beta-independent functions
    ok, val = _lib(acc, segment.rand_index, rb, rl, eb, el, frame_size=fs)
    if not ok:
        raised("segment.rand_index", val)
    else:
        compare("Rand Index", "segment.rand_index", _num(val), M.rand_index(tab))
        summary.append(_num(val))
    ok, val = _lib(acc, segment.ari, rb, rl, eb, el, frame_size=fs)
    if not ok:
        raised("segment.ari", val)
    else:
        o = _num(val)
        compare("Adjusted Rand Index", "segment.ari", o, M.ari(tab))
        summary.append(o)
        if same:
            acc.conform += 1
            if not _agree(o, 1.0):
                acc.violation("ari-one-on-equal-partitions", "segment.ari", case(), observed=o, expected=1.0)
    ok, val = _lib(acc, segment.mutual_information, rb, rl, eb, el, frame_size=fs)
    t = triple_or_violation("segment.mutual_information", ok, val)
    mi_fwd = None
    if t is not None:
        exp = M.mutual_information(tab)
        for key, o, e in zip(("Mutual Information", "Adjusted Mutual Information",
                              "Normalized Mutual Information"), t, exp):
            compare(key, "segment.mutual_information", o, e)
        mi_fwd = t[0]
        summary.extend(t)
    ok, val = _lib(acc, segment.mutual_information, eb, el, rb, rl, frame_size=fs)
    t = triple_or_violation("segment.mutual_information", ok, val)
    if t is not None and mi_fwd is not None:
        acc.conform += 1
        if isinstance(mi_fwd, str) or isinstance(t[0], str) or not lib.close(mi_fwd, t[0], TOL):
            acc.violation("mi-symmetric", "segment.mutual_information", case(),
                          observed={"MI(ref,est)": mi_fwd, "MI(est,ref)": t[0]})
    # ---- beta-dependent functions
    for beta in betas:
        ok, val = _lib(acc, segment.pairwise, rb, rl, eb, el, frame_size=fs, beta=beta)
        t = triple_or_violation("segment.pairwise", ok, val)
        if t is not None:
            for key, o, e in zip(("Pairwise Precision", "Pairwise Recall", "Pairwise F-measure"), t,
                                 M.pairwise(tab, beta)):
                compare(key, "segment.pairwise", o, e)
            if beta == betas[0]:
                summary.extend(t[:2])
        ok, val = _lib(acc, segment.nce, rb, rl, eb, el, frame_size=fs, beta=beta)
        t = triple_or_violation("segment.nce", ok, val)
        if t is not None:
            for key, o, e in zip(("NCE Over", "NCE Under", "NCE F-measure"), t, M.nce(tab, beta, False)):
                compare(key, "segment.nce", o, e)
            if beta == betas[0]:
                summary.extend(t[:2])
        tm = None
        if beta == 1.0 or full_identity:
            # (vmeasure itself is compared with the model for every beta; the second path to the same numbers
            # is executed for every beta only in the smaller spaces - nce costs ~3 ms per call)
            ok, val = _lib(acc, segment.nce, rb, rl, eb, el, frame_size=fs, beta=beta, marginal=True)
            tm = triple_or_violation("segment.nce[marginal=True]", ok, val)
        if tm is not None:
            for key, o, e in zip(("V Precision", "V Recall", "V-measure"), tm, M.nce(tab, beta, True)):
                compare(key, "segment.nce[marginal=True]", o, e)
        ok, val = _lib(acc, segment.vmeasure, rb, rl, eb, el, frame_size=fs, beta=beta)
        tv = triple_or_violation("segment.vmeasure", ok, val)
        if tv is not None:
            for key, o, e in zip(("V Precision", "V Recall", "V-measure"), tv, M.vmeasure(tab, beta)):
                compare(key, "segment.vmeasure", o, e)
            if beta == betas[0]:
                summary.extend(tv[:2])
            # V = weighted harmonic mean of the returned precision and recall
            acc.conform += 1
            if all(not isinstance(x, str) for x in tv):
                hm = lib.fbeta(tv[0], tv[1], beta)
                if not lib.close(tv[2], hm, TOL):
                    acc.violation("v-harmonic-mean", "segment.vmeasure", case(), observed=tv, expected=hm)
            if tm is not None:
                acc.conform += 1
                if any(isinstance(x, str) or isinstance(y, str) or not lib.close(x, y, 1e-12)
                       for x, y in zip(tv, tm)):
                    acc.violation("vmeasure-is-nce-marginal", "segment.vmeasure", case(),
                                  observed={"vmeasure": tv, "nce(marginal=True)": tm})
    # ---- case-insensitivity as a relation on the implementation itself
    if case_rel:
        rl2 = [x.lower() for x in rl]
        el2 = [x.lower() for x in el]
        for name, fn, kw in (("segment.pairwise", segment.pairwise, {}), ("segment.rand_index", segment.rand_index, {}),
                             ("segment.ari", segment.ari, {}),
                             ("segment.mutual_information", segment.mutual_information, {}),
                             ("segment.nce", segment.nce, {}), ("segment.vmeasure", segment.vmeasure, {})):
            ok1, v1 = _lib(acc, fn, rb, rl, eb, el, frame_size=fs, **kw)
            ok2, v2 = _lib(acc, fn, rb, rl2, eb, el2, frame_size=fs, **kw)
            acc.conform += 1
            if not ok1 or not ok2:
                raised(name, v1 if not ok1 else v2)
                continue
            x1 = np.atleast_1d(np.asarray(v1, dtype=float))
            x2 = np.atleast_1d(np.asarray(v2, dtype=float))
            if x1.shape != x2.shape or not np.allclose(x1, x2, rtol=0, atol=1e-12, equal_nan=True):
                acc.violation("case-insensitive", name, case(), observed={"as given": x1, "lower-cased": x2})
    acc.outcome(tuple(x if isinstance(x, str) else (None if x != x else round(x, 7)) for x in summary))


# ------------------------------------------------------------------------------------------ shards
def shard_pairs(arg):
    refs, ests, fss, betas, case_rel, full_identity = arg
    acc = core.Acc(PID)
    for (rb, rl) in refs:
        for (eb, el) in ests:
            if rb[-1] != eb[-1]:
                continue
            for fs in fss:
                acc.states += 1
                acc.tick(lambda: {"kind": "pair", "rb": list(rb), "rl": list(rl), "eb": list(eb), "el": list(el),
                                  "fs": fs, "betas": list(betas), "case_rel": case_rel,
                                  "full_identity": full_identity})
                check_pair(acc, rb, rl, eb, el, fs, betas, case_rel, full_identity)
    if refs and ests:
        acc.sample({"kind": "pair", "rb": list(refs[-1][0]), "rl": list(refs[-1][1]), "eb": list(ests[-1][0]),
                    "el": list(ests[-1][1]), "fs": fss[0], "betas": list(betas), "case_rel": case_rel,
                    "full_identity": full_identity})
    return acc


def check_large(acc, rb, rl, eb, el, fs):
    """Long annotations (>= 2^16 frames): only the metrics whose cost is linear in the number of frames (ARI, MI /
    NMI, V-measure); pair counts there exceed 2^31, which is where fixed-width integer arithmetic would wrap."""
    case = {"kind": "large", "rb": list(rb), "rl": list(rl), "eb": list(eb), "el": list(el), "fs": fs}
    n = int(Fr(rb[-1]) / Fr(fs))
    # frame label sequences analytically: boundaries are multiples of fs, so frame k belongs to the segment with
    # b_i <= k*fs < b_{i+1}
    def seq(bounds, labels):
        out = []
        for (a, b), l in zip(zip(bounds, bounds[1:]), labels):
            out += [str(l).lower()] * int((Fr(b) - Fr(a)) / Fr(fs))
        return out
    yr, ye = seq(rb, rl), seq(eb, el)
    if len(yr) != n or len(ye) != n:
        raise core.HarnessError("large-frame state is not on the frame grid")
    tab = M.contingency(yr, ye)
    acc.conform += 1
    ok, val = _lib(acc, segment.ari, rb, rl, eb, el, frame_size=fs)
    if not ok or not _agree(_num(val), M.ari(tab)):
        acc.violation("equals-definition:ari", "segment.ari", case, observed=val if not ok else _num(val),
                      expected=float(M.ari(tab)))
        return
    ok, val = _lib(acc, segment.mutual_information, rb, rl, eb, el, frame_size=fs)
    exp_mi, exp_nmi = M.mutual_info(tab), M.nmi(tab)
    t = _triple(val) if ok else None
    if t is None or not _agree(t[0], exp_mi) or (exp_nmi is not M.UNDEF and not _agree(t[2], exp_nmi)):
        acc.violation("equals-definition:mi", "segment.mutual_information", case, observed=val if not ok else t,
                      expected=[float(exp_mi), None, None if exp_nmi is M.UNDEF else float(exp_nmi)])
        return
    ok, val = _lib(acc, segment.vmeasure, rb, rl, eb, el, frame_size=fs)
    exp_v = M.vmeasure(tab, 1.0)
    t = _triple(val) if ok else None
    if t is None or any(not _agree(o, e) for o, e in zip(t, exp_v) if e is not M.UNDEF):
        acc.violation("equals-definition:v-f", "segment.vmeasure", case, observed=val if not ok else t,
                      expected=[None if e is M.UNDEF else float(e) for e in exp_v])
    acc.outcome(("large", n))


def shard_large(arg):
    acc = core.Acc(PID)
    for rb, rl, eb, el, fs in arg:
        acc.states += 1
        acc.nontrivial += 1
        acc.counters["in.frames_2^16_or_more"] += 1
        acc.tick({"kind": "large", "rb": list(rb), "rl": list(rl), "eb": list(eb), "el": list(el), "fs": fs})
        check_large(acc, rb, rl, eb, el, fs)
    return acc


def replay(case, acc):
    if case.get("kind") == "large":
        check_large(acc, case["rb"], case["rl"], case["eb"], case["el"], case["fs"])
        return
    if case.get("kind") != "pair":
        raise core.HarnessError("unknown case kind %r" % case.get("kind"))
    check_pair(acc, tuple(case["rb"]), tuple(case["rl"]), tuple(case["eb"]), tuple(case["el"]), case["fs"],
               tuple(case["betas"]), case.get("case_rel", False), case.get("full_identity", True))


# ------------------------------------------------------------------------------------------ model validation
FIXTURE_KEYS = ("Pairwise Precision", "Pairwise Recall", "Pairwise F-measure", "Rand Index", "Adjusted Rand Index",
                "Mutual Information", "Adjusted Mutual Information", "Normalized Mutual Information",
                "NCE Over", "NCE Under", "NCE F-measure", "V Precision", "V Recall", "V-measure")


def validate_model():
    """The reference model must reproduce the recorded fixture outputs and the documented perfect-score example.
    Returns (n fixtures, n fixtures whose frames depend on the binary32 sample grid)."""
    root = os.path.join(os.environ.get("VERIF_REPO", "/repo"), "tests", "data", "segment")
    if not os.path.isdir(root):
        root = "/repo/tests/data/segment"
    refs = sorted(glob.glob(os.path.join(root, "ref*.lab")))
    ests = sorted(glob.glob(os.path.join(root, "est*.lab")))
    outs = sorted(glob.glob(os.path.join(root, "output*.json")))
    if not (len(refs) == len(ests) == len(outs) > 0):
        raise core.HarnessError("segment fixtures not found under %s" % root)
    sensitive = 0
    for rf, ef, of in zip(refs, ests, outs):
        with open(of) as f:
            want = json.load(f)
        ref, est = M.read_lab(rf), M.read_lab(ef)
        yr, ye = M.evaluate_frames(ref, est, 0.1, M.float32_grid)      # documented default frame_size
        if (yr, ye) != M.evaluate_frames(ref, est, 0.1, None):
            sensitive += 1
        got = M.all_scores(M.contingency(yr, ye), 1.0)
        for k in FIXTURE_KEYS:
            if got[k] == UNDEF or abs(float(got[k]) - want[k]) > 1e-7:
                raise core.HarnessError("reference model disagrees with fixture %s on %r: model %r, recorded %r"
                                        % (os.path.basename(of), k, got[k], want[k]))
    # tests/test_segment.py::test_segment_structure_perfect
    y = M.frame_labels([(0, 1), (1, 2)], ["a", "b"], 0.25)
    got = M.all_scores(M.contingency(y, y), 1.0)
    for k in FIXTURE_KEYS:
        want = math.log(2) if k == "Mutual Information" else 1.0
        if abs(float(got[k]) - want) > 1e-12:
            raise core.HarnessError("reference model fails the documented perfect-score example on %r" % k)
    return len(outs), sensitive


def selftest():
    validate_model()
    t = [[2, 0], [1, 3]]
    assert M.pairwise(t, 1.0)[:2] == (Fr(2, 3), Fr(4, 7)) and M.rand_index(t) == Fr(4 + 6, 15)
    assert M.ari([[1, 0], [0, 1]]) == 1 and M.nmi([[3, 2]]) == UNDEF and M.pairwise([[1], [1]])[1] == UNDEF


# ------------------------------------------------------------------------------------------ driver
def run(run):
    thorough = run.tier == "thorough"
    mod = __name__
    ph = run.phase
    nfix, nsens = validate_model()
    run.total.counters["fixtures_reproduced_by_model"] = nfix
    run.total.counters["fixtures_sensitive_to_float32_grid"] = nsens
    run.rule = ("a state is one ordered pair (reference, estimate) of labelled segmentations with a common span x one "
                "frame_size (every beta of the alphabet is executed inside the state); states are distinct by "
                "construction (compositions x restricted-growth label strings); non-trivial = both sides have >=2 "
                "clusters and the two partitions differ")
    run.assumptions = [
        "small-scope hypothesis: defects of the clustering indices show on <=6 cells / <=24 frames, plus the "
        "64-100 frame panel for count-dependent effects",
        "frame labels follow the step-function model (segment [s,e) owns t, later line wins on a shared boundary) "
        "sampled at k*frame_size, k < floor(T/frame_size); intervals are supplied in time order; lattices are dyadic "
        "(0.1: boundaries at odd multiples of 0.05) so the library's binary32 sample grid cannot change a label",
        "scores compared at 1e-9 absolute; keys whose textbook formula is 0/0 are skipped and counted (undef.*): "
        "pairwise precision/recall/F with no co-clustered pair on that side, Rand on a single frame, NMI when "
        "exactly one side is a single cluster (0/sqrt(0*H)), AMI when both sides are all singletons",
        "documented conventions mirrored: F-measure of (0,0) is 0 (util.f_measure); a one-label side has NCE/V "
        "component 0; both sides one cluster -> ARI=AMI=NMI=1; both all singletons -> ARI=1 (sklearn special "
        "cases quoted in the code comments); NMI uses the sqrt normaliser, AMI the max normaliser (legacy sklearn)",
        "empty annotations are outside the quantifier (1..many segments)",
    ]
    rn, en = NAME_MENUS[ph]
    cell = CELLS[ph]
    fss = [cell / 2, cell]
    n_main = 6 if thorough else 5
    refs = annotations(n_main, 3, rn, cell)
    ests = annotations(n_main, 3, en, cell)
    nsh = 64 if thorough else 48
    run.explore("main %d cells x fs%s x beta%s" % (n_main, fss, list(BETAS)), mod, "shard_pairs",
                [(ch, ests, fss, BETAS, False, False) for ch in core.chunks(refs, nsh)])
    # small spans with one name per segment
    top = 5 if thorough else 4
    shards = []
    for ncells in range(1, top + 1):
        r = annotations(ncells, ncells, rn, cell)
        e = annotations(ncells, ncells, en, cell)
        shards += [(ch, e, fss, BETAS, False, True) for ch in core.chunks(r, 16 if ncells >= 4 else 1)]
    run.explore("small spans 1..%d cells, <=1 name per segment" % top, mod, "shard_pairs", shards)
    # the same with a partial last frame: T = n*cell + 3/8 cell, so T/fs has fractional part .375 / .75
    shards = []
    for ncells in range(1, 5):
        r = annotations(ncells, ncells, rn, cell, tail=0.375 * cell)
        e = annotations(ncells, ncells, en, cell, tail=0.375 * cell)
        shards += [(ch, e, fss, (1.0,), False, True) for ch in core.chunks(r, 16 if ncells >= 4 else 1)]
    run.explore("small spans 1..4 cells, partial last frame", mod, "shard_pairs", shards)
    # documented default frame size on the off-grid lattice
    n01 = 5 if thorough else 4
    r = annotations(n01, 3, rn, 0.5, shift=0.05, tail=0.03)
    e = annotations(n01, 3, en, 0.5, shift=0.05, tail=0.03)
    run.explore("fs0.1, %d cells, boundaries at odd multiples of 0.05, end at +0.08" % n01, mod, "shard_pairs",
                [(ch, e, [0.1], (1.0,), False, True) for ch in core.chunks(r, 32)])
    # case collisions
    crn, cen = CASE_MENUS[ph]
    ncase = 5 if thorough else 4
    r = annotations(ncase, 4, crn, cell)
    e = annotations(ncase, 4, cen, cell)
    run.explore("case-colliding names, %d cells" % ncase, mod, "shard_pairs",
                [(ch, e, [cell], (1.0,), True, True) for ch in core.chunks(r, 48)])
    # mixed-case names with NO all-capitals label anywhere (a shortcut that folds case only "when needed" hides here)
    r = annotations(ncase, 4, ("Verse", "verse", "chorus", "Chorus"), cell)
    e = annotations(ncase, 4, ("Ab", "ab", "cD", "Cd"), cell)
    run.explore("mixed-case names without an all-capitals label, %d cells" % ncase, mod, "shard_pairs",
                [(ch, e, [cell], (1.0,), True, True) for ch in core.chunks(r, 48)])
    # >= 2^16 frames (linear-cost metrics only)
    fs_l = 2.0 ** -10
    big = []
    for cut_r, cut_e in ((50000, 30000), (46400, 46400), (65000, 500), (35000, 35001)):
        nfr = 70000 if ph % 2 == 0 else 66000
        big.append(((0.0, cut_r * fs_l, nfr * fs_l), (rn[0], rn[1]), (0.0, cut_e * fs_l, nfr * fs_l), (en[0], en[1]), fs_l))
    big.append(((0.0, 20000 * fs_l, 40000 * fs_l, 70000 * fs_l), (rn[0], rn[1], rn[0]),
                (0.0, 47000 * fs_l, 70000 * fs_l), (en[0], en[1]), fs_l))
    run.explore("long annotations (66-70 thousand frames): ARI, MI/NMI, V-measure", mod, "shard_large", [[b] for b in big])
    # frame-count panel
    shards = []
    for n in ((64, 81, 100) if thorough else (64, 100)):
        r = frame_panel(n, rn, 0.25)
        e = frame_panel(n, en, 0.25)
        shards += [(ch, e, [0.25], (1.0,), False, True) for ch in core.chunks(r, 16)]
    run.explore("frame-count panel", mod, "shard_pairs", shards)
    run.require_nonvacuous(
        "in.partitions_coincide", "in.partitions_coincide_other_names_or_cuts", "in.both_one_cluster",
        "in.exactly_one_side_one_cluster", "in.a_side_all_singletons", "in.both_all_singletons",
        "in.independent_nontrivial", "in.nonsquare_table", "in.case_collision_within_annotation",
        "in.adjacent_equal_labels", "undef.Pairwise Precision", "undef.Pairwise Recall",
        "undef.Normalized Mutual Information", "undef.Adjusted Mutual Information", "undef.Rand Index",
        "in.partial_last_frame_more_than_half", "in.frames_2^16_or_more")
