"""C13 - interval pre-processing preserves the annotation it re-expresses.

Step-function model: an annotation maps elementary half-cells [k/2,(k+1)/2) to label-or-None.
Spaces (complete enumerations):
  adjust     all time-ordered disjoint interval sequences (<=3, thorough <=4) on the integer lattice 0..6
             x labels present/None x (t_min,t_max) over {None} + every lattice / half-lattice point and one
             beyond either end
  merge      all pairs of contiguous segmentations of <=5 cells (common start/end)
  interp     all interval sequences x all non-decreasing sample grids (<=3, thorough <=4 points) over the
             half lattice;  intervals_to_samples x sample sizes x offsets
  bounds     all strictly increasing boundary lists (<=5) over a lattice that contains values 4e-6 apart
"""
import itertools
from fractions import Fraction as Fr

import numpy as np

from mc import core, lib
from mir_eval import util

PID = "C13"
LEVEL = "model_checking"

START, END = "__T_MIN", "__T_MAX"


# --------------------------------------------------------------------------- enumeration helpers
def interval_seqs(points, nmax):
    """All time-ordered, pairwise disjoint (shared end points allowed) interval sequences."""
    out = []

    def go(prefix, lo_idx):
        if prefix:
            out.append(tuple(prefix))
        if len(prefix) == nmax:
            return
        for i in range(lo_idx, len(points)):
            for j in range(i + 1, len(points)):
                go(prefix + [(points[i], points[j])], j)
    go([], 0)
    return out


def cell_label(seq, labels, c):
    """Label of the (last) interval containing the open half-cell (c, c+1/2); None if uncovered."""
    r = None
    for (s, e), l in zip(seq, labels):
        if Fr(s) <= c and c + Fr(1, 2) <= Fr(e):
            r = l
    return r


# --------------------------------------------------------------------------- adjust_intervals
def model_adjust(seq, labels, t_min, t_max):
    """Expected per-half-cell labelling of the range, or None when the range is empty.
    Returns (lo, hi, {cell: set of acceptable labels or None for 'uncovered'})."""
    lo = Fr(t_min) if t_min is not None else min(Fr(s) for s, _ in seq)
    hi = Fr(t_max) if t_max is not None else max(Fr(e) for _, e in seq)
    if lo >= hi:
        return None
    kept = [(max(Fr(s), lo), min(Fr(e), hi), l) for (s, e), l in zip(seq, labels)
            if min(Fr(e), hi) > max(Fr(s), lo)]
    cells = {}
    c = lo
    while c < hi:
        if not kept:
            cells[c] = {START, END}          # nothing of the input in range: either fill label
        else:
            lab = None
            covered = False
            for s, e, l in kept:
                if s <= c and c + Fr(1, 2) <= e:
                    lab, covered = l, True
            if covered:
                cells[c] = {lab}
            elif c < kept[0][0]:
                cells[c] = {START}
            elif c >= kept[-1][1]:
                cells[c] = {END}
            else:
                cells[c] = None              # internal gap: no label
        c += Fr(1, 2)
    return lo, hi, cells


def check_adjust(acc, seq, with_labels, t_min, t_max):
    labels = ["L%d" % i for i in range(len(seq))]
    m = model_adjust(seq, labels, t_min, t_max)
    if m is None:
        return
    lo, hi, cells = m
    case = {"kind": "adjust", "seq": [list(x) for x in seq], "with_labels": with_labels,
            "t_min": t_min, "t_max": t_max}
    site = "util.adjust_intervals"
    iv = np.array(seq, dtype=float)
    lab_in = list(labels) if with_labels else None
    acc.transitions += 1
    acc.conform += 1
    try:
        out_iv, out_lab = util.adjust_intervals(iv, lab_in, t_min=t_min, t_max=t_max)
        out_iv = np.asarray(out_iv, dtype=float)
    except Exception as ex:  # noqa
        acc.violation("no-raise", site, case, observed="raised %s: %s" % (type(ex).__name__, ex))
        return
    acc.outcome((len(out_iv), tuple(out_lab) if out_lab else None))
    if out_iv.ndim != 2 or out_iv.shape[1] != 2 or len(out_iv) == 0:
        acc.violation("shape", site, case, observed=out_iv.tolist())
        return
    obs = {"intervals": out_iv.tolist(), "labels": out_lab}
    if (out_iv[:, 1] <= out_iv[:, 0]).any():
        acc.violation("positive-duration", site, case, observed=obs)
        return
    if Fr(float(out_iv[0, 0])) != lo or Fr(float(out_iv.min())) != lo:
        acc.violation("begins-at-t_min", site, case, observed=obs, expected=float(lo))
        return
    if Fr(float(out_iv[-1, 1])) != hi or Fr(float(out_iv.max())) != hi:
        acc.violation("ends-at-t_max", site, case, observed=obs, expected=float(hi))
        return
    if with_labels:
        if out_lab is None or len(out_lab) != len(out_iv):
            acc.violation("label-count", site, case, observed=obs)
            return
        olab = out_lab
    else:
        olab = None        # what is returned for labels=None is not fixed by the property (geometry only)
    # per-cell labelling (geometry only when labels=None: covered vs uncovered)
    for c, want in cells.items():
        got = set()
        for k, (s, e) in enumerate(out_iv.tolist()):
            if Fr(s) <= c and c + Fr(1, 2) <= Fr(e):
                got.add(olab[k] if olab is not None else "*")
            elif Fr(s) < c + Fr(1, 2) and Fr(e) > c:
                got.add("<partial>")
        if want is None:
            ok = (got == set())
        elif olab is None:
            ok = (got == {"*"})
        else:
            ok = (len(got) == 1 and next(iter(got)) in want)
        if not ok:
            acc.violation("cell-label", site, case, observed=dict(obs, cell=float(c), got=sorted(map(str, got))),
                          expected=sorted(want) if want else None)
            return


def shard_adjust(arg):
    seqs, tvals = arg
    acc = core.Acc(PID)
    for seq in seqs:
        for t_min in tvals:
            for t_max in tvals:
                if t_min is not None and t_max is not None and t_min >= t_max:
                    continue
                for with_labels in (True, False):
                    acc.states += 1
                    acc.tick(lambda: {"kind": "adjust", "seq": [list(x) for x in seq], "with_labels": with_labels,
                                      "t_min": t_min, "t_max": t_max})
                    ends = set(x for iv in seq for x in iv)
                    if t_min in ends or t_max in ends:
                        acc.counters["adjust.crop_point_on_boundary"] += 1
                        acc.nontrivial += 1
                    if t_min is not None and all(e <= t_min for _, e in seq):
                        acc.counters["adjust.all_before_range"] += 1
                    if t_max is not None and all(s >= t_max for s, _ in seq):
                        acc.counters["adjust.all_after_range"] += 1
                    if any(seq[i][1] < seq[i + 1][0] for i in range(len(seq) - 1)):
                        acc.counters["adjust.internal_gap"] += 1
                    check_adjust(acc, seq, with_labels, t_min, t_max)
    if seqs:
        acc.sample({"kind": "adjust", "seq": [list(x) for x in seqs[-1]], "with_labels": True,
                    "t_min": tvals[1], "t_max": tvals[-1]})
    return acc


# --------------------------------------------------------------------------- merge_labeled_intervals
def seg_from_comp(comp, unit=1.0, start=0.0):
    t = start
    out = []
    for k in comp:
        out.append((t, t + k * unit))
        t += k * unit
    return out


def check_merge(acc, cx, cy, unit, start):
    x = seg_from_comp(cx, unit, start)
    y = seg_from_comp(cy, unit, start)
    xl = ["x%d" % i for i in range(len(x))]
    yl = ["y%d" % i for i in range(len(y))]
    case = {"kind": "merge", "cx": list(cx), "cy": list(cy), "unit": unit, "start": start}
    site = "util.merge_labeled_intervals"
    acc.transitions += 1
    acc.conform += 1
    try:
        iv, ox, oy = util.merge_labeled_intervals(np.array(x, dtype=float), list(xl), np.array(y, dtype=float),
                                                  list(yl))
        iv = np.asarray(iv, dtype=float)
    except Exception as ex:  # noqa
        acc.violation("no-raise", site, case, observed="raised %s: %s" % (type(ex).__name__, ex))
        return
    bounds = sorted(set(Fr(v) for s in (x, y) for p in s for v in p))
    want_iv = list(zip(bounds[:-1], bounds[1:]))
    got_iv = [(Fr(a), Fr(b)) for a, b in iv.tolist()]
    obs = {"intervals": iv.tolist(), "x": ox, "y": oy}
    acc.outcome((len(got_iv),))
    if got_iv != want_iv:
        acc.violation("common-refinement", site, case, observed=obs, expected=[[float(a), float(b)] for a, b in want_iv])
        return
    if len(ox) != len(want_iv) or len(oy) != len(want_iv):
        acc.violation("label-count", site, case, observed=obs)
        return
    for k, (a, b) in enumerate(want_iv):
        wx = [l for (s, e), l in zip(x, xl) if Fr(s) <= a and b <= Fr(e)]
        wy = [l for (s, e), l in zip(y, yl) if Fr(s) <= a and b <= Fr(e)]
        if [ox[k]] != wx or [oy[k]] != wy:
            acc.violation("labels-preserved", site, case, observed=obs, expected={"k": k, "x": wx, "y": wy})
            return
    tot = sum((b - a) for a, b in got_iv)
    if tot != Fr(x[-1][1]) - Fr(x[0][0]):
        acc.violation("duration-conserved", site, case, observed=float(tot))


def shard_merge(arg):
    comps_x, comps_all, units = arg
    acc = core.Acc(PID)
    for cx in comps_x:
        for cy in comps_all:
            if sum(cx) != sum(cy):
                continue
            for unit, start in units:
                acc.states += 1
                acc.tick({"kind": "merge", "cx": list(cx), "cy": list(cy), "unit": unit, "start": start})
                if len(cx) > 1 and len(cy) > 1:
                    acc.nontrivial += 1
                bx = set(itertools.accumulate(cx))
                by = set(itertools.accumulate(cy))
                if (bx & by) - {sum(cx)}:
                    acc.counters["merge.shared_interior_boundary"] += 1
                check_merge(acc, cx, cy, unit, start)
    return acc


# --------------------------------------------------------------------------- interpolate / samples
FILL = "__fill"


def model_interp(seq, labels, t):
    r = FILL
    for (s, e), l in zip(seq, labels):
        if Fr(s) <= Fr(t) <= Fr(e):
            r = l          # later interval wins at a shared boundary
    return r


def check_interp(acc, seq, grid, dtype="float"):
    labels = ["L%d" % i for i in range(len(seq))]
    case = {"kind": "interp", "seq": [list(x) for x in seq], "grid": list(grid), "dtype": dtype}
    site = "util.interpolate_intervals"
    acc.transitions += 1
    acc.conform += 1
    try:
        got = util.interpolate_intervals(np.array(seq, dtype=dtype), list(labels), np.array(grid, dtype=float),
                                         fill_value=FILL)
    except Exception as ex:  # noqa
        acc.violation("no-raise", site, case, observed="raised %s: %s" % (type(ex).__name__, ex))
        return
    want = [model_interp(seq, labels, t) for t in grid]
    acc.outcome(tuple(got))
    if list(got) != want:
        acc.violation("sample-label", site, case, observed=list(got), expected=want)


def check_samples(acc, seq, size, offset, dtype="float"):
    labels = ["L%d" % i for i in range(len(seq))]
    case = {"kind": "samples", "seq": [list(x) for x in seq], "size": size, "offset": offset, "dtype": dtype}
    site = "util.intervals_to_samples"
    acc.transitions += 1
    acc.conform += 1
    try:
        times, got = util.intervals_to_samples(np.array(seq, dtype=dtype), list(labels), offset=offset,
                                               sample_size=size, fill_value=FILL)
    except Exception as ex:  # noqa
        acc.violation("no-raise", site, case, observed="raised %s: %s" % (type(ex).__name__, ex))
        return
    tmax = max(Fr(e) for _, e in seq)
    dyadic = Fr(size).denominator & (Fr(size).denominator - 1) == 0 and Fr(size).denominator <= 1024
    if dyadic:
        n = int(tmax / Fr(size))          # floor
        want_t = [Fr(k) * Fr(size) + Fr(offset) for k in range(n)]
        if [Fr(t) for t in times] != want_t:
            acc.violation("sample-times", site, case, observed=list(times), expected=[float(t) for t in want_t])
            return
    else:
        # decimal sample size (the documented default 0.1): the grid is built in single precision, so the returned
        # times are only required to be the nominal grid to single precision; what the property fixes is that each RETURNED
        # time carries the label of the interval containing THAT time
        n = int(float(tmax) / size)
        if len(times) != n or any(abs(t - (k * size + offset)) > 1e-7 + 5e-7 * abs(k * size + offset)
                                  for k, t in enumerate(times)):
            acc.violation("sample-times", site, case, observed=list(times),
                          expected="k*%g+%g to single precision (5e-7 relative), k<%d" % (size, offset, n))
            return
        want_t = [Fr(t) for t in times]
    want = [model_interp(seq, labels, t) for t in want_t]
    acc.outcome(tuple(got))
    if list(got) != want:
        acc.violation("sample-label", site, case, observed={"times": list(times), "labels": list(got)}, expected=want)


def shard_interp(arg):
    seqs, grid_pts, gmax, sizes = arg[:4]
    dtype = arg[4] if len(arg) > 4 else "float"      # "int64": integer-typed interval arrays (whole-second annotations)
    acc = core.Acc(PID)
    grids = list(lib.multisets(grid_pts, gmax, 1))
    for seq in seqs:
        ends = set(x for iv in seq for x in iv)
        shared = set(seq[i][1] for i in range(len(seq) - 1) if seq[i][1] == seq[i + 1][0])
        for grid in grids:
            acc.states += 1
            acc.tick(lambda: {"kind": "interp", "seq": [list(x) for x in seq], "grid": list(grid), "dtype": dtype})
            if set(grid) & shared:
                acc.counters["interp.sample_on_shared_boundary"] += 1
                acc.nontrivial += 1
            if set(grid) & ends:
                acc.counters["interp.sample_on_interval_end"] += 1
            if any(model_interp(seq, [0] * len(seq), t) == FILL for t in grid):
                acc.counters["interp.sample_outside_all"] += 1
            if dtype != "float":
                acc.counters["interp.integer_typed_interval_array"] += 1
            check_interp(acc, seq, grid, dtype)
        for size, offset in sizes:
            acc.states += 1
            acc.nontrivial += 1
            acc.tick(lambda: {"kind": "samples", "seq": [list(x) for x in seq], "size": size, "offset": offset,
                              "dtype": dtype})
            check_samples(acc, seq, size, offset, dtype)
    return acc


# --------------------------------------------------------------------------- boundaries <-> intervals
def r5(x):
    """Documented rounding: 5 decimals (as binary64, via exact rounding of the rational value).  The lattice
    must stay away from rounding ties (np.round is rint(x*1e5)/1e5, exact only away from ties)."""
    q = Fr(x) * 100000
    if abs((q - (q.numerator // q.denominator)) - Fr(1, 2)) < Fr(1, 1000):
        raise core.HarnessError("boundary lattice value %r is within 1e-8 of a 5-decimal rounding tie" % x)
    return float(Fr(lib.round_half_even(q), 100000))


def check_bounds(acc, b):
    case = {"kind": "bounds", "b": list(b)}
    acc.transitions += 1
    acc.conform += 1
    try:
        iv = util.boundaries_to_intervals(np.array(b, dtype=float))
        back = util.intervals_to_boundaries(iv)
    except Exception as ex:  # noqa
        acc.violation("no-raise", "util.boundaries_to_intervals", case,
                      observed="raised %s: %s" % (type(ex).__name__, ex))
        return
    want_iv = [[b[i], b[i + 1]] for i in range(len(b) - 1)]
    if np.asarray(iv).tolist() != want_iv:
        acc.violation("intervals-from-boundaries", "util.boundaries_to_intervals", case,
                      observed=np.asarray(iv).tolist(), expected=want_iv)
        return
    want_b = sorted(set(r5(x) for x in b))
    acc.outcome((len(b), len(want_b)))
    if [float(x) for x in back] != want_b:
        acc.violation("round-trip", "util.intervals_to_boundaries", case, observed=[float(x) for x in back],
                      expected=want_b)
        return
    # the other direction on the (already rounded) contiguous segmentation
    if len(want_b) >= 2:
        try:
            iv2 = util.boundaries_to_intervals(util.intervals_to_boundaries(np.array(want_iv, dtype=float)))
        except Exception as ex:  # noqa
            acc.violation("no-raise", "util.intervals_to_boundaries", case,
                          observed="raised %s: %s" % (type(ex).__name__, ex))
            return
        w2 = [[want_b[i], want_b[i + 1]] for i in range(len(want_b) - 1)]
        if np.asarray(iv2).tolist() != w2:
            acc.violation("round-trip", "util.boundaries_to_intervals", case, observed=np.asarray(iv2).tolist(),
                          expected=w2)


def shard_bounds(arg):
    lists = arg
    acc = core.Acc(PID)
    for b in lists:
        acc.states += 1
        acc.tick({"kind": "bounds", "b": list(b)})
        if len(b) >= 3:
            acc.nontrivial += 1
        if len(set(r5(x) for x in b)) < len(b):
            acc.counters["bounds.collapse_under_rounding"] += 1
        if any(r5(x) != x for x in b):
            acc.counters["bounds.value_changed_by_rounding"] += 1
        check_bounds(acc, b)
    return acc


# --------------------------------------------------------------------------- driver
def replay(case, acc):
    k = case["kind"]
    if k == "adjust":
        check_adjust(acc, [tuple(x) for x in case["seq"]], case["with_labels"], case["t_min"], case["t_max"])
    elif k == "merge":
        check_merge(acc, tuple(case["cx"]), tuple(case["cy"]), case["unit"], case["start"])
    elif k == "interp":
        check_interp(acc, [tuple(x) for x in case["seq"]], case["grid"], case.get("dtype", "float"))
    elif k == "samples":
        check_samples(acc, [tuple(x) for x in case["seq"]], case["size"], case["offset"], case.get("dtype", "float"))
    elif k == "bounds":
        check_bounds(acc, case["b"])
    else:
        raise core.HarnessError("unknown case kind %r" % k)


def run(run):
    thorough = run.tier == "thorough"
    mod = __name__
    ph = run.phase
    run.rule = ("complete enumeration of interval sequences / segmentation pairs / sample grids / boundary lists "
                "within the stated bounds; non-trivial = a crop point, sample or boundary coincides with an "
                "existing interval end (adjust/interp), both sides have >1 segment (merge), >=3 boundaries")
    run.assumptions = [
        "'first/last input interval' in the adjust_intervals clause is read as first/last interval that "
        "intersects the requested range: a gap that straddles t_min/t_max receives the fill label (the output "
        "must begin at t_min / end at t_max), gaps between two kept intervals stay unlabelled",
        "when no input interval intersects the range the single fill interval may carry either fill label",
        "times are integers / half-integers shifted by phase*8 (exact in binary64); sample sizes dyadic",
    ]
    base = 8.0 * ph
    npts = 9 if thorough else 8
    pts = [base + k for k in range(npts)]
    seqs = interval_seqs(pts, 5 if thorough else 4)
    tvals = [None] + [base + k / 2.0 for k in range(-2 if ph else 0, 2 * npts + 1)]
    run.explore("adjust_intervals", mod, "shard_adjust", [(ch, tvals) for ch in core.chunks(seqs, 64)])
    # a time axis that crosses zero (adjust_intervals does not validate, and t_min / t_max == 0.0 must behave like
    # any other crop point): independent of the phase
    npts0 = [float(k) for k in range(-3, 4 if thorough else 3)]
    nseqs = interval_seqs(npts0, 3)
    ntvals = [None] + [k / 2.0 for k in range(-8, 9)]
    run.explore("adjust_intervals, zero-crossing axis", mod, "shard_adjust",
                [(ch, ntvals) for ch in core.chunks(nseqs, 32)])
    comps = [c for n in range(1, 9 if thorough else 8) for c in lib.compositions(n)]
    units = [(1.0, base), (0.5, base + 0.25)]
    run.explore("merge_labeled_intervals", mod, "shard_merge", [(ch, comps, units) for ch in core.chunks(comps, 32)])
    ipts = [base + k for k in range(6 if thorough else 5)]
    iseqs = interval_seqs(ipts, 4 if thorough else 3)
    gpts = [base + k / 2.0 for k in range(-1 if ph else 0, 12 if thorough else 10)]
    sizes = [(0.5, 0.0), (0.25, 0.0), (1.0, 0.0), (0.5, 0.25), (1.0, 0.5)]
    run.explore("interpolate/samples", mod, "shard_interp",
                [(ch, gpts, 4 if thorough else 3, sizes) for ch in core.chunks(iseqs, 32)])
    # the same on integer-typed interval arrays (annotations in whole seconds), sample points on the half-second lattice
    zpts = [float(ph + k) for k in range(5)]
    zseqs = interval_seqs(zpts, 3)
    zg = [ph + k / 2.0 for k in range(-1 if ph else 0, 10)]
    run.explore("interpolate/samples, integer-typed intervals", mod, "shard_interp",
                [(ch, zg, 2, sizes, "int64") for ch in core.chunks(zseqs, 32)])
    dpts = [round(base + k / 10.0, 10) for k in (0, 3, 7, 12, 14, 19, 23)]
    dseqs = interval_seqs(dpts, 3)
    run.explore("intervals_to_samples on the default 0.1 s grid", mod, "shard_interp",
                [(ch, [dpts[0]], 1, [(0.1, 0.0), (0.1, 0.05)]) for ch in core.chunks(dseqs, 32)])
    bl = [base + v for v in (0.0, 0.25, 0.5, 0.500004, 0.500016, 0.75, 1.0, 1.123456789, 1.1234599, 2.0, 2.000006)]
    blists = [b for b in lib.subsets(bl, 6 if thorough else 5, 2)]
    run.explore("boundaries<->intervals", mod, "shard_bounds", core.chunks(blists, 16))
    run.require_nonvacuous("adjust.crop_point_on_boundary", "adjust.all_before_range", "adjust.all_after_range",
                           "adjust.internal_gap", "merge.shared_interior_boundary",
                           "interp.sample_on_shared_boundary", "interp.sample_outside_all",
                           "bounds.value_changed_by_rounding")
