"""C08 - scores ignore time origin, item order and segment label names (edge relations shift / permute / relabel)."""
from mc import core, generic
from mc.tasks import base

PID = "C08"
LEVEL = "model_checking"
KINDS = ("shift", "permute", "relabel")      # exactly the relations the property lists


def replay(case, acc):
    generic.replay_edge(case, acc, PID)


def run(run):
    run.rule = ("from every pair state: shift edges (a common exactly-representable offset on both sides), permute "
                "edges (reorderings of unordered collections) and relabel edges (label bijections per annotation); "
                "both end points are executed and all listed scores must be equal to 1e-12; non-trivial = the state "
                "has at least one edge to a different state")
    run.assumptions = ["shift edges only on dyadic lattices (x + d exact); beats stay >= the trim time; inputs stay "
                       "<= MAX_TIME"]
    for name in base.tasks():
        task = base.load(name)
        kinds = [k for k in KINDS if k in getattr(task, "edges", {})]
        if not kinds:
            continue
        run.explore("%s %s edges" % (name, "/".join(kinds)), "mc.generic", "shard_edges",
                    generic.edge_plan(PID, name, run.tier, run.phase, kinds))
    run.require_nonvacuous("edges:shift")
