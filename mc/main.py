"""CLI: python -m mc.main <Cxx> [--tier quick|thorough] [--replay FILE] | --list"""
import argparse
import importlib
import json
import os
import sys
import traceback

from . import core


def selftest():
    """setup_cmd: import every property module, sanity-check the shared exact helpers."""
    import glob
    import mir_eval
    from . import lib
    assert lib.max_matching([0b11, 0b01], 2) == 2
    assert lib.max_matching([0b01, 0b01], 2) == 1
    assert lib.round_half_even(lib.Fr(5, 2)) == 2 and lib.round_half_even(lib.Fr(7, 2)) == 4
    assert lib.d4(0.05) == 0.05
    n = 0
    with open(os.path.join(core.VERIF, "MANIFEST.json")) as f:
        claimed = [c["property_id"] for c in json.load(f)["checks"]]
    for pid in claimed:          # only claimed checks: other modules may be work in progress
        mod = importlib.import_module("props." + pid)
        if hasattr(mod, "selftest"):
            mod.selftest()
        n += 1
    print("selftest ok: %d property modules, mir_eval at %s" % (n, mir_eval.__file__))
    return 0


def main(argv=None):
    if (argv or sys.argv[1:])[:1] == ["--selftest"]:
        try:
            return selftest()
        except Exception:
            sys.stderr.write("HARNESS ERROR (selftest):\n" + traceback.format_exc())
            return 2
    ap = argparse.ArgumentParser()
    ap.add_argument("pid")
    ap.add_argument("--tier", default=os.environ.get("VERIF_TIER") or "quick", choices=["quick", "thorough"])
    ap.add_argument("--replay")
    args = ap.parse_args(argv)
    try:
        seed = int(os.environ.get("VERIF_SEED", "0") or 0)
    except ValueError:
        seed = 0
    try:
        import mir_eval
        root = os.environ.get("VERIF_REPO", "/repo")
        if not os.path.realpath(mir_eval.__file__).startswith(os.path.realpath(root) + os.sep):
            raise core.HarnessError("mir_eval imported from %s, not from %s" % (mir_eval.__file__, root))
        mod = importlib.import_module("props.%s" % args.pid)
        if args.replay:
            with open(args.replay) as f:
                rec = json.load(f)
            core.snapshot_library_state()
            if rec.get("kind") == "shard-history":
                import base64
                import pickle
                arg = pickle.loads(base64.b64decode(rec["arg_pickle_b64"]))
                acc = core._run_shard((rec["shard_module"], rec["shard_fn"], arg, args.pid))
                want = json.dumps([rec["clause"], rec["site"], rec["case"]], sort_keys=True)
                hit = [v for v in acc.viol
                       if json.dumps([v["clause"], v["site"], v["case"]], sort_keys=True) == want]
                for v in hit:
                    print("replay (shard history): clause=%s site=%s observed=%s expected=%s" % (
                        v["clause"], v["site"], json.dumps(v["observed"])[:400], json.dumps(v["expected"])[:400]))
                if hit:
                    print("VIOLATION property=%s replay=%s" % (args.pid, args.replay))
                    return 1
                print("replay: no violation")
                return 0
            acc = core.Acc(args.pid)
            import signal
            signal.signal(signal.SIGALRM, core._on_alarm)
            signal.setitimer(signal.ITIMER_REAL, core.CALL_BUDGET_S)
            try:
                mod.replay(rec["case"], acc)
            except core.Hang:
                acc.violation("terminates", "watchdog", rec["case"], observed="no result within budget")
            finally:
                signal.setitimer(signal.ITIMER_REAL, 0)
            bad = [v for v in acc.viol]
            for v in bad:
                print("replay: clause=%s site=%s observed=%s expected=%s" % (
                    v["clause"], v["site"], json.dumps(v["observed"])[:400], json.dumps(v["expected"])[:400]))
            if bad:
                print("VIOLATION property=%s replay=%s" % (args.pid, args.replay))
                return 1
            for fid, n in acc.known.items():
                print("KNOWN-FINDING: property=%s %s" % (args.pid, fid))
            print("replay: no violation")
            return 0
        run = core.Run(args.pid, args.tier, seed, mod.LEVEL, "props.%s" % args.pid)
        mod.run(run)
        return run.finish()
    except core.HarnessError as e:
        sys.stderr.write("HARNESS ERROR: %s\n" % e)
        return 2
    except Exception:
        sys.stderr.write("HARNESS ERROR (unexpected):\n" + traceback.format_exc())
        return 2


if __name__ == "__main__":
    sys.exit(main())
