"""Reference model for mir_eval.transcription and mir_eval.transcription_velocity, written from the
module / function docstrings (MIREX note-tracking criteria; Hawthorne et al. 2018 for velocity).

A note is a tuple ``(onset, offset, pitch_hz[, velocity])``.  Onsets / offsets / velocities may be
``fractions.Fraction`` (exact lattice inputs: every threshold decision is then made on the exact
rational value of the binary64 inputs) or plain floats (repository fixtures: the documented formula is
evaluated in binary64 in its natural order).  Pitches are always floats (the criterion goes through log2).

Documented definitions used
  d4(x)        "round the distance to 4 decimals, then compare"  (module docstring, N_DECIMALS)
  onset  ok    d4(|on_r - on_e|)  <cmp>  onset_tolerance
  pitch  ok    1200*|log2 p_r - log2 p_e|  <cmp>  pitch_tolerance
  offset ok    d4(|off_r - off_e|)  <cmp>  max(offset_ratio * (off_r - on_r), offset_min_tolerance)
  <cmp>        "<=" , or "<" when strict
  matching     a maximum one-to-one matching of the notes that satisfy the criteria in use
  P, R, F      |matching| / |est|, |matching| / |ref|, F_beta;  all 0 when a side is empty
  AOR          mean over the matched pairs of (min off - max on) / (max off - min on), 0 if none
  velocity     reference velocities -> (v - min) / max(1, max - min); least-squares line from the matched
               estimated to the matched (normalised) reference velocities; a matched pair is kept iff
               |line(v_est) - v_ref| < velocity_tolerance

The maximum matching is NOT unique, and AOR / the velocity filter depend on which one is taken.  The model
therefore enumerates every maximum matching (brute force, small graphs) and returns a ``Choice``: the set
of admissible results.  ``Undefined`` is raised when a comparison is within rounding distance (1e-9; pitch:
1e-6 cent) of its threshold, unless the binary64 evaluation of the threshold is provably exact.
"""
import math
from fractions import Fraction as Fr

from mc.lib import fbeta, round_half_even
from mc.spec.beat import Undefined

EPS = 1e-9          # band around a tolerance inside which an inexact comparison is not decided
PITCH_EPS = 1e-6    # cents
FIX_EPS = 1e-7      # float (fixture) mode: comparisons closer than this to the threshold are counted

# float (fixture) mode: do not raise on near-threshold comparisons, count them instead
_MODE = {"guard": True, "near": 0}


class float_mode(object):
    """``with float_mode() as m: ...`` evaluates the formulas in binary64 without the near-threshold guard;
    ``m.near`` counts the comparisons that were within FIX_EPS of their threshold."""

    def __enter__(self):
        self.saved = dict(_MODE)
        _MODE["guard"] = False
        _MODE["near"] = 0
        return self

    @property
    def near(self):
        return _MODE["near"]

    def __exit__(self, *a):
        self.count = _MODE["near"]
        _MODE.update(self.saved)
        return False


def _near(what):
    if _MODE["guard"]:
        raise Undefined(what)
    _MODE["near"] += 1


def _is_exact(x):
    return isinstance(x, (Fr, int))


# ------------------------------------------------------------------------------------- criteria
def d4(x):
    """Distance rounded to 4 decimals (as the nearest binary64 of n/10^4)."""
    if _is_exact(x):
        q = Fr(x) * 10000
        fl = math.floor(q)
        if abs(q - fl - Fr(1, 2)) < Fr(1, 10 ** 5):
            raise Undefined("distance within 1e-9 s of a 4-decimal rounding tie")
        return float(Fr(round_half_even(q), 10000))
    y = x * 1e4
    if abs(y - math.floor(y) - 0.5) < 1e-3:
        _near("4-decimal rounding tie")
    return round(y) / 1e4


def _cmp(a, b, strict):
    return a < b if strict else a <= b


def _decide(d, lo, hi, strict, what):
    """d <cmp> t for an (inexactly known) threshold t in [lo, hi]."""
    a, b = _cmp(d, lo, strict), _cmp(d, hi, strict)
    if a != b:
        _near(what)
    return a


def pitch_cents(p, q):
    return 1200.0 * abs(math.log2(p) - math.log2(q))


def offset_tolerance(r, offset_ratio, offset_min_tolerance):
    """(lo, hi) enclosing max(offset_ratio * reference duration, offset_min_tolerance)."""
    if _is_exact(r[0]) and _is_exact(r[1]):
        t = Fr(offset_ratio) * (Fr(r[1]) - Fr(r[0]))
        tf = offset_ratio * (float(r[1]) - float(r[0]))        # the same formula in binary64
        m = Fr(offset_min_tolerance)
        if Fr(tf) == t:
            return max(t, m), max(t, m)
        return max(t - Fr(EPS), m), max(t + Fr(EPS), m)
    t = max(offset_ratio * (r[1] - r[0]), offset_min_tolerance)
    return t, t


class Geometry(object):
    """Distances between the notes of one (reference, estimate) pair; they do not depend on the tolerances, so
    they are computed once per pair (lazily, entry by entry) and shared by all parameter settings."""

    def __init__(self, R, E):
        self.R, self.E = R, E
        self.on, self.off, self.cents, self.tol = {}, {}, {}, {}

    def onset(self, i, j):
        d = self.on.get((i, j))
        if d is None:
            d = self.on[(i, j)] = d4(abs(self.R[i][0] - self.E[j][0]))
        return d

    def offset(self, i, j):
        d = self.off.get((i, j))
        if d is None:
            d = self.off[(i, j)] = d4(abs(self.R[i][1] - self.E[j][1]))
        return d

    def pitch(self, i, j):
        c = self.cents.get((i, j))
        if c is None:
            c = self.cents[(i, j)] = pitch_cents(self.R[i][2], self.E[j][2])
        return c

    def offset_tol(self, i, ratio, min_tol):
        t = self.tol.get((i, ratio, min_tol))
        if t is None:
            t = self.tol[(i, ratio, min_tol)] = offset_tolerance(self.R[i], ratio, min_tol)
        return t


_GEOM = [None, None, None]


def geometry(R, E):
    if _GEOM[0] is not R or _GEOM[1] is not E:
        _GEOM[:] = [R, E, Geometry(R, E)]
    return _GEOM[2]


def note_pred(R, E, onset_tolerance=0.05, pitch_tolerance=50.0, offset_ratio=0.2, offset_min_tolerance=0.05,
              strict=False, use_onset=True, use_pitch=True, use_offset=True):
    """The documented criteria as a predicate on (reference index, estimate index)."""
    g = geometry(R, E)
    exact = bool(R) and _is_exact(R[0][0])

    def pred(i, j):
        if use_onset and not _cmp(g.onset(i, j), onset_tolerance, strict):      # binary64 vs binary64: exact
            return False
        if use_pitch:
            c = g.pitch(i, j)
            if abs(c - pitch_tolerance) < PITCH_EPS:
                _near("pitch distance within 1e-6 cent of the tolerance")
            if not _cmp(c, pitch_tolerance, strict):
                return False
        if use_offset and offset_ratio is not None:
            d = g.offset(i, j)
            lo, hi = g.offset_tol(i, offset_ratio, offset_min_tolerance)
            if not exact and abs(d - lo) < FIX_EPS and d != lo:
                _near("offset distance near tolerance")
            if not _decide(d, lo, hi, strict, "offset distance within 1e-9 of offset_ratio * duration"):
                return False
        return True
    return pred


# ------------------------------------------------------------------------------------- matchings
def graph(R, E, pred, window=None):
    """Adjacency lists ref -> [est].  ``window`` (seconds) enables an onset pre-filter for big inputs: only
    estimates whose onset is within ``window`` of the reference onset are offered to ``pred``."""
    if window is None or len(R) * len(E) < 4096:
        return [[j for j in range(len(E)) if pred(i, j)] for i in range(len(R))]
    import bisect
    order = sorted(range(len(E)), key=lambda j: E[j][0])
    ons = [E[j][0] for j in order]
    adj = []
    for i in range(len(R)):
        a = bisect.bisect_left(ons, R[i][0] - window)
        b = bisect.bisect_right(ons, R[i][0] + window)
        adj.append(sorted(j for j in order[a:b] if pred(i, j)))
    return adj


def matching_size(adj, n_est):
    """Size of a maximum matching (augmenting paths, iterative; any size)."""
    match_e = [-1] * n_est

    def augment(u0):
        # iterative DFS over alternating paths
        seen = set()
        stack = [(u0, iter(adj[u0]))]
        path = []
        while stack:
            u, it = stack[-1]
            advanced = False
            for v in it:
                if v in seen:
                    continue
                seen.add(v)
                path.append((u, v))
                if match_e[v] < 0:
                    for (a, b) in path:
                        match_e[b] = a
                    return True
                stack.append((match_e[v], iter(adj[match_e[v]])))
                advanced = True
                break
            if not advanced:
                stack.pop()
                if path:
                    path.pop()
        return False
    size = 0
    for u in range(len(adj)):
        if adj[u] and augment(u):
            size += 1
    return size


def maximum_matchings(adj, refs=None):
    """Every maximum matching of a small bipartite graph, as sorted tuples of (ref, est) pairs."""
    refs = list(range(len(adj))) if refs is None else list(refs)
    best = []
    size = [0]

    def go(k, used, cur):
        if len(cur) + (len(refs) - k) < size[0]:
            return
        if k == len(refs):
            if len(cur) > size[0]:
                size[0] = len(cur)
                best[:] = []
            best.append(tuple(cur))
            return
        i = refs[k]
        for j in adj[i]:
            if j not in used:
                used.add(j)
                cur.append((i, j))
                go(k + 1, used, cur)
                cur.pop()
                used.discard(j)
        go(k + 1, used, cur)
    go(0, set(), [])
    return [m for m in best if len(m) == size[0]]


def components(adj):
    """Connected components of the feasibility graph that contain at least one edge: [(refs, ests)]."""
    by_est = {}
    for i, nb in enumerate(adj):
        for j in nb:
            by_est.setdefault(j, []).append(i)
    seen_r, out = set(), []
    for i0 in range(len(adj)):
        if i0 in seen_r or not adj[i0]:
            continue
        rs, es, stack = [], set(), [i0]
        seen_r.add(i0)
        while stack:
            i = stack.pop()
            rs.append(i)
            for j in adj[i]:
                if j not in es:
                    es.add(j)
                    for i2 in by_est[j]:
                        if i2 not in seen_r:
                            seen_r.add(i2)
                            stack.append(i2)
        out.append((sorted(rs), sorted(es)))
    return out


# ------------------------------------------------------------------------------------- results
class Choice(object):
    """The documented definition admits each of ``options`` (tuples of floats, one entry per output that
    depends on the choice of maximum matching).  The adapter binds the observed outputs; ``pick`` is then
    the admissible tuple nearest to them."""

    def __init__(self, options):
        self.options = options
        self.keymap = {}
        self.observed = None

    def bind(self, observed):
        self.observed = tuple(observed)

    def pick(self):
        if len(self.options) == 1:
            return self.options[0]
        if self.observed is None:
            from mc.core import HarnessError
            raise HarnessError("Choice evaluated before the observed outputs were bound")

        def dist(o):
            d = max(abs(a - b) for a, b in zip(o, self.observed))
            return d if d == d else float("inf")
        return min(self.options, key=dist)

    def component(self, idx):
        return Component(self, idx)


class Component(object):
    def __init__(self, choice, idx):
        self.choice = choice
        self.idx = idx

    def __float__(self):
        return float(self.choice.pick()[self.idx])

    def __repr__(self):
        return "one-of%r" % (sorted(set(round(o[self.idx], 12) for o in self.choice.options)),)


def _dedupe(options):
    out = []
    for o in sorted(options):
        if not out or max(abs(a - b) for a, b in zip(o, out[-1])) > 1e-12:
            out.append(o)
    return out


def overlap_ratio(r, e):
    return (min(r[1], e[1]) - max(r[0], e[0])) / (max(r[1], e[1]) - min(r[0], e[0]))


def average_overlap_ratio(R, E, matching):
    if not matching:
        return 0.0
    return float(sum(overlap_ratio(R[i], E[j]) for i, j in matching) / len(matching))


def _prf(m, R, E, beta):
    p, r = Fr(m, len(E)), Fr(m, len(R))
    return p, r, fbeta(p, r, beta)


def precision_recall_f1_overlap(R, E, onset_tolerance=0.05, pitch_tolerance=50.0, offset_ratio=0.2,
                                offset_min_tolerance=0.05, strict=False, beta=1.0):
    if not R or not E:
        return 0.0, 0.0, 0.0, 0.0
    adj = graph(R, E, note_pred(R, E, onset_tolerance, pitch_tolerance, offset_ratio, offset_min_tolerance,
                                strict))
    ms = maximum_matchings(adj)
    p, r, f = _prf(len(ms[0]), R, E, beta)
    opts = _dedupe([(average_overlap_ratio(R, E, m),) for m in ms])
    aor = opts[0][0] if len(opts) == 1 else Choice(opts).component(0)
    return p, r, f, aor


def precision_recall_f1_overlap_no_offset(R, E, onset_tolerance=0.05, pitch_tolerance=50.0, strict=False,
                                          beta=1.0):
    return precision_recall_f1_overlap(R, E, onset_tolerance, pitch_tolerance, None, 0.05, strict, beta)


def onset_precision_recall_f1(R, E, onset_tolerance=0.05, strict=False, beta=1.0):
    if not R or not E:
        return 0.0, 0.0, 0.0
    adj = graph(R, E, note_pred(R, E, onset_tolerance, strict=strict, use_pitch=False, use_offset=False))
    return _prf(matching_size(adj, len(E)), R, E, beta)


def offset_precision_recall_f1(R, E, offset_ratio=0.2, offset_min_tolerance=0.05, strict=False, beta=1.0):
    if not R or not E:
        return 0.0, 0.0, 0.0
    adj = graph(R, E, note_pred(R, E, offset_ratio=offset_ratio, offset_min_tolerance=offset_min_tolerance,
                                strict=strict, use_onset=False, use_pitch=False))
    return _prf(matching_size(adj, len(E)), R, E, beta)


# ------------------------------------------------------------------------------------- velocity
def normalise_velocities(R):
    vs = [n[3] for n in R]
    lo, hi = min(vs), max(vs)
    rng = max(1, hi - lo)
    return [(v - lo) / rng if not _is_exact(v) else Fr(v - lo) / rng for v in vs]


def fitted(xs, ys):
    """Values at xs of the least-squares line y ~ a*x + b.  When all xs coincide the minimiser (a, b) is not
    unique but the fitted values are: the mean of ys."""
    n = len(xs)
    mx, my = sum(xs) / n, sum(ys) / n
    sxx = sum((x - mx) ** 2 for x in xs)
    if sxx == 0:
        return [my] * n
    a = sum((x - mx) * (y - my) for x, y in zip(xs, ys)) / sxx
    return [my + a * (x - mx) for x in xs]


def velocity_filter(R, E, matching, velocity_tolerance=0.1, ref_norm=None):
    """Pairs of ``matching`` whose rescaled estimated velocity is within the tolerance of the reference."""
    if not matching:
        return []
    ref_norm = normalise_velocities(R) if ref_norm is None else ref_norm
    ys = [ref_norm[i] for i, _ in matching]
    xs = [E[j][3] for _, j in matching]
    exact = _is_exact(xs[0]) and _is_exact(ys[0])
    if exact:
        xs = [Fr(x) for x in xs]
    keep = []
    for (pair, fy, y) in zip(matching, fitted(xs, ys), ys):
        err = abs(fy - y)
        if abs(float(err) - velocity_tolerance) < (EPS if exact else FIX_EPS):
            _near("velocity error within rounding distance of the tolerance")
        if err < velocity_tolerance:
            keep.append(pair)
    return keep


def velocity_precision_recall_f1_overlap(R, E, onset_tolerance=0.05, pitch_tolerance=50.0, offset_ratio=0.2,
                                         offset_min_tolerance=0.05, strict=False, velocity_tolerance=0.1,
                                         beta=1.0):
    if not R or not E:
        return 0.0, 0.0, 0.0, 0.0
    adj = graph(R, E, note_pred(R, E, onset_tolerance, pitch_tolerance, offset_ratio, offset_min_tolerance,
                                strict))
    ref_norm = normalise_velocities(R)
    opts = []
    for m in maximum_matchings(adj):
        kept = velocity_filter(R, E, list(m), velocity_tolerance, ref_norm)
        p, r, f = _prf(len(kept), R, E, beta)
        opts.append((float(p), float(r), float(f), average_overlap_ratio(R, E, kept)))
    opts = _dedupe(opts)
    if len(opts) == 1:
        return opts[0]
    c = Choice(opts)
    return tuple(c.component(k) for k in range(4))


# ------------------------------------------------------------------------------------- evaluate bundles
EVALUATE_KEYS = ("Precision", "Recall", "F-measure", "Average_Overlap_Ratio", "Precision_no_offset",
                 "Recall_no_offset", "F-measure_no_offset", "Average_Overlap_Ratio_no_offset", "Onset_Precision",
                 "Onset_Recall", "Onset_F-measure", "Offset_Precision", "Offset_Recall", "Offset_F-measure")
VELOCITY_EVALUATE_KEYS = EVALUATE_KEYS[:8]


def evaluate(R, E, **kw):
    """transcription.evaluate with the documented key set (offset_ratio not None)."""
    def pick(*names):
        return {k: kw[k] for k in names if k in kw}
    out = {}
    a = pick("onset_tolerance", "pitch_tolerance", "offset_ratio", "offset_min_tolerance", "strict", "beta")
    (out["Precision"], out["Recall"], out["F-measure"], out["Average_Overlap_Ratio"]) = \
        precision_recall_f1_overlap(R, E, **a)
    a["offset_ratio"] = None
    (out["Precision_no_offset"], out["Recall_no_offset"], out["F-measure_no_offset"],
     out["Average_Overlap_Ratio_no_offset"]) = precision_recall_f1_overlap(R, E, **a)
    (out["Onset_Precision"], out["Onset_Recall"], out["Onset_F-measure"]) = \
        onset_precision_recall_f1(R, E, **pick("onset_tolerance", "strict", "beta"))
    (out["Offset_Precision"], out["Offset_Recall"], out["Offset_F-measure"]) = \
        offset_precision_recall_f1(R, E, **pick("offset_ratio", "offset_min_tolerance", "strict", "beta"))
    return out
