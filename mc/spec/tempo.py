"""Reference model for mir_eval.tempo.detection, written from the function docstring and the module
conventions (MIREX audio tempo estimation).

    hit_i   = reference tempo i is > 0 and some estimated tempo e has |e - ref_i| <= tol * ref_i
              (the relative error of the closest estimate does not exceed tol)
    P-score = weight * hit_0 + (1 - weight) * hit_1
    One-correct  = hit_0 or hit_1
    Both-correct = hit_0 and hit_1

Generic over the number type: Fractions (exact lattice values) or floats (fixtures).  `tol` and the weight
are taken as the exact rational value of their binary64 when the tempi are Fractions.
"""
from fractions import Fraction as Fr

from mc.spec.beat import Undefined

EPS = 1e-9


def _le(a, b, eps=EPS):
    """a <= b; refuses to decide when a != b but the two are within rounding distance."""
    if a != b and abs(float(a) - float(b)) <= eps * max(1.0, abs(float(b))):
        raise Undefined("relative error within rounding distance of tol")
    return a <= b


def valid(ref, weight, est, tol=0.08):
    """The documented input domain (module conventions + validate + Raises section)."""
    if len(ref) != 2 or len(est) != 2:
        return False
    if any(t < 0 for t in ref) or any(t < 0 for t in est):
        return False
    if all(t == 0 for t in ref):
        return False
    if weight < 0 or weight > 1:
        return False
    if tol < 0 or tol > 1:
        return False
    return True


def hits(ref, est, tol=0.08, eps=EPS):
    exact = all(isinstance(t, Fr) for t in list(ref) + list(est))
    t = Fr(tol) if exact else float(tol)
    out = []
    for r in ref:
        if r > 0:
            rel = min(abs(r - e) for e in est) / r
            out.append(_le(rel, t, eps))
        else:
            out.append(False)          # a zero reference tempo (absent annotation) can never be hit
    return out


def detection(ref, weight, est, tol=0.08, eps=EPS):
    if not valid(ref, weight, est, tol):
        raise Undefined("outside the documented input domain (ValueError documented)")
    h = hits(ref, est, tol, eps)
    exact = all(isinstance(t, Fr) for t in list(ref) + list(est))
    w = Fr(weight) if exact else float(weight)
    p = w * (1 if h[0] else 0) + (1 - w) * (1 if h[1] else 0)
    one = 1.0 if (h[0] or h[1]) else 0.0
    both = 1.0 if (h[0] and h[1]) else 0.0
    return p, one, both
