"""Reference model of mir_eval.hierarchy (T-measure, L-measure, evaluate).

Written from the documented definition (module / function docstrings of
mir_eval.hierarchy, McFee, Nieto & Bello 2015; McFee, Nieto, Farbood & Bello 2017), plain
Python + fractions, no NumPy, no code shared with the implementation.

Definition
----------
* A hierarchy is an ordered list of levels (level 1 = coarsest); each level is a list of
  segments ``[a, b)`` that tile ``[0, T)`` (and, for the L-measure, one label per segment).
* Time is sampled in frames of ``frame_size`` seconds.  A time stamp is rounded *down* to the frame
  grid (``_round``: "t - mod(t, frame_size)"), i.e. boundary ``t`` becomes frame index
  ``idx(t) = trunc((t - mod(t, fs)) / fs)`` (= ``floor(t / fs)`` whenever the arithmetic is exact, see
  ``frame_index``); a segment ``[a, b)`` holds the frames ``idx(a) <= k < idx(b)`` and the track
  has ``idx(T) - idx(0)`` frames.  The window is converted the same way: ``w = idx(window)``.
* depth(u, v):  T-measure (``lca``): the deepest level at which frames u and v lie in one segment;
  L-measure (``meet``): the deepest level at which the segments of u and v carry the same label;
  0 when there is no such level.
* For a query frame q the candidate frames are ``C(q) = {i : q-w <= i < q+w, 0 <= i < n, i != q}``
  with ``w = floor(window / frame_size)`` frames (``window=None``: every frame; the L-measure has
  no window).  A *reference triple* is ``(q, i, j)``, ``i, j in C(q)``, with
  ``ref(q,i) > ref(q,j)`` (``transitive=True``, "full") or ``ref(q,i) == ref(q,j) + 1``
  (``transitive=False``, "reduced": exactly one level).  It is *recalled* when
  ``est(q,i) > est(q,j)`` strictly.
* recall = mean over the queries owning >= 1 reference triple of (#recalled / #reference triples);
  0 when no query owns one.  precision = the same with the two annotations exchanged.
  F = (1+b^2) P R / (b^2 P + R), 0 when P = R = 0.
* ``frame_size <= 0`` and ``frame_size > window`` are rejected (ValueError in the library,
  ``Reject`` here).

Documented defaults are hard-coded: window = 15.0 s, frame_size = 0.1 s, beta = 1.0.
"""
import math
from fractions import Fraction as Fr

DEFAULT_WINDOW = 15.0
DEFAULT_FRAME_SIZE = 0.1
DEFAULT_BETA = 1.0


class Reject(Exception):
    """The documented parameter conditions under which the library must raise ValueError."""


# --------------------------------------------------------------------------- quantisation
def frame_index_exact(t, fs):
    """floor(t / fs) in exact rational arithmetic on the binary64 values."""
    q = Fr(t) / Fr(fs)
    return q.numerator // q.denominator


def frame_index(t, fs):
    """Frame index of time stamp t >= 0: the documented rounding ``t - mod(t, frame_size)``
    (``_round``), divided by the frame size and truncated - evaluated in binary64 exactly as the
    docstring writes it.  On dyadic lattices every step is exact and this is floor(t / fs); on
    decimal data (frame_size = 0.1) the repository fixtures are only reproduced by this form
    (68.826 s -> frame 687, whereas floor(68.826 / 0.1) = 688), so it is the normative one."""
    t = float(t)
    fs = float(fs)
    if t < 0 or not fs > 0:
        raise ValueError("frame_index needs t >= 0 and fs > 0")
    return int((t - math.fmod(t, fs)) / fs)


def floor_div(t, fs):
    return frame_index(t, fs)


def window_frames(window, frame_size):
    """Number of whole frames in the window (None = unbounded)."""
    if window is None:
        return None
    return floor_div(window, frame_size)


def check_parameters(frame_size, window=None, has_window=True):
    if not frame_size > 0:
        raise Reject("frame_size <= 0")
    if has_window and window is not None and frame_size > window:
        raise Reject("frame_size > window")


def bounds(intervals_hier):
    ts = [t for level in intervals_hier for seg in level for t in seg]
    return min(ts), max(ts)


def n_frames(intervals_hier, frame_size):
    t0, t1 = bounds(intervals_hier)
    return floor_div(t1, frame_size) - floor_div(t0, frame_size)


def frame_segments(level, frame_size, n):
    """For one level: index of the segment holding each frame (None if no segment holds it)."""
    out = [None] * n
    for s, (a, b) in enumerate(level):
        lo, hi = floor_div(a, frame_size), floor_div(b, frame_size)
        for k in range(max(lo, 0), min(hi, n)):
            out[k] = s
    return out


def frame_keys(intervals_hier, labels_hier, frame_size, n):
    """keys[level][frame]: what has to coincide for two frames to 'agree' at that level -
    the segment index (T-measure, labels_hier None) or the segment's label (L-measure)."""
    keys = []
    for li, level in enumerate(intervals_hier):
        seg = frame_segments(level, frame_size, n)
        if labels_hier is None:
            keys.append([None if s is None else ("seg", s) for s in seg])
        else:
            labs = labels_hier[li]
            if len(labs) != len(level):
                raise ValueError("label / interval count mismatch at level %d" % li)
            keys.append([None if s is None else ("lab", str(labs[s])) for s in seg])
    return keys


def depth_matrix(intervals_hier, labels_hier, frame_size):
    """n x n matrix (list of lists) of lca (labels None) or meet depths; levels count from 1."""
    n = n_frames(intervals_hier, frame_size)
    keys = frame_keys(intervals_hier, labels_hier, frame_size, n)
    d = [[0] * n for _ in range(n)]
    for u in range(n):
        for v in range(n):
            deepest = 0
            for li in range(len(keys)):
                ku, kv = keys[li][u], keys[li][v]
                if ku is not None and ku == kv:
                    deepest = li + 1
            d[u][v] = deepest
    return d


# --------------------------------------------------------------------------- the triple count
def candidates(q, n, w):
    if w is None:
        lo, hi = 0, n
    else:
        lo, hi = max(0, q - w), min(n, q + w)
    return [i for i in range(lo, hi) if i != q]


def is_reference_triple(rqi, rqj, transitive):
    return rqi > rqj if transitive else rqi == rqj + 1


def recall_triples(ref, est, transitive, w, stats=None):
    """Brute force over every triple (q, i, j): O(n^3).  Returns a Fraction.

    ``stats`` (optional dict) receives input-side facts used for non-vacuity counters."""
    n = len(ref)
    if len(est) != n:
        raise ValueError("frame counts differ")
    total = Fr(0)
    counted = 0
    ties = 0
    skipped = 0
    multi_level = 0
    for q in range(n):
        cand = candidates(q, n, w)
        n_ref = n_ok = 0
        for i in cand:
            for j in cand:
                if ref[q][i] > ref[q][j] + 1:
                    multi_level += 1
                if is_reference_triple(ref[q][i], ref[q][j], transitive):
                    n_ref += 1
                    if est[q][i] > est[q][j]:
                        n_ok += 1
                    elif est[q][i] == est[q][j]:
                        ties += 1
        if n_ref:
            total += Fr(n_ok, n_ref)
            counted += 1
        else:
            skipped += 1
    if stats is not None:
        stats["queries_counted"] = counted
        stats["queries_skipped"] = skipped
        stats["estimate_ties"] = ties
        stats["multi_level_pairs"] = multi_level
    return total / counted if counted else Fr(0)


def recall_classes(ref_keys, est_keys, transitive, w):
    """The same quantity for long tracks (repository fixtures): frames with identical keys at every
    level of both annotations are interchangeable, so triples are counted per class of frames with
    prefix sums.  Must agree exactly with ``recall_triples`` (asserted on every enumerated state)."""
    n = len(ref_keys[0]) if ref_keys else 0
    if n == 0:
        return Fr(0)
    sig = [(tuple(k[f] for k in ref_keys), tuple(k[f] for k in est_keys)) for f in range(n)]
    classes = {}
    cls = []
    for s in sig:
        cls.append(classes.setdefault(s, len(classes)))
    reps = [None] * len(classes)
    for s, c in classes.items():
        reps[c] = s
    K = len(reps)

    def depth(a, b):
        d = 0
        for li in range(len(a)):
            if a[li] is not None and a[li] == b[li]:
                d = li + 1
        return d

    rd = [[depth(reps[a][0], reps[b][0]) for b in range(K)] for a in range(K)]
    ed = [[depth(reps[a][1], reps[b][1]) for b in range(K)] for a in range(K)]
    pref = [[0] * (n + 1) for _ in range(K)]
    for f in range(n):
        c = cls[f]
        for k in range(K):
            pref[k][f + 1] = pref[k][f] + (1 if k == c else 0)
    total = Fr(0)
    counted = 0
    memo = {}
    for q in range(n):
        if w is None:
            lo, hi = 0, n
        else:
            lo, hi = max(0, q - w), min(n, q + w)
        cq = cls[q]
        counts = tuple(pref[k][hi] - pref[k][lo] - (1 if (k == cq and lo <= q < hi) else 0) for k in range(K))
        key = (cq, counts)
        frac = memo.get(key)
        if frac is None:
            hist = {}
            for k in range(K):
                if counts[k]:
                    p = (rd[cq][k], ed[cq][k])
                    hist[p] = hist.get(p, 0) + counts[k]
            n_ref = n_ok = 0
            for (r1, e1), c1 in hist.items():
                for (r2, e2), c2 in hist.items():
                    if is_reference_triple(r1, r2, transitive):
                        n_ref += c1 * c2
                        if e1 > e2:
                            n_ok += c1 * c2
            frac = Fr(n_ok, n_ref) if n_ref else None
            memo[key] = frac
        if frac is not None:
            total += frac
            counted += 1
    return total / counted if counted else Fr(0)


def fbeta(p, r, beta):
    if p == 0 and r == 0:
        return 0.0
    p, r = float(p), float(r)
    return (1 + beta ** 2) * p * r / (beta ** 2 * p + r)


# --------------------------------------------------------------------------- public metrics
def _measure(ref_i, ref_l, est_i, est_l, transitive, w, frame_size, beta, fast=False, stats=None):
    if fast:
        n = n_frames(ref_i, frame_size)
        if n_frames(est_i, frame_size) != n:
            raise ValueError("frame counts differ")
        rk = frame_keys(ref_i, ref_l, frame_size, n)
        ek = frame_keys(est_i, est_l, frame_size, n)
        rec = recall_classes(rk, ek, transitive, w)
        pre = recall_classes(ek, rk, transitive, w)
    else:
        r = depth_matrix(ref_i, ref_l, frame_size)
        e = depth_matrix(est_i, est_l, frame_size)
        rs = {} if stats is not None else None
        ps = {} if stats is not None else None
        rec = recall_triples(r, e, transitive, w, rs)
        pre = recall_triples(e, r, transitive, w, ps)
        if stats is not None:
            stats["n"] = len(r)
            stats["recall"] = rs
            stats["precision"] = ps
            stats["depth_zero"] = any(x == 0 for row in r for x in row) or any(x == 0 for row in e for x in row)
    return pre, rec, fbeta(pre, rec, beta)


def tmeasure(ref_i, est_i, transitive=False, window=DEFAULT_WINDOW, frame_size=DEFAULT_FRAME_SIZE,
             beta=DEFAULT_BETA, fast=False, stats=None):
    """(precision, recall, F): precision / recall exact Fractions, F a float."""
    check_parameters(frame_size, window)
    w = window_frames(window, frame_size)
    return _measure(ref_i, None, est_i, None, transitive, w, frame_size, beta, fast, stats)


def lmeasure(ref_i, ref_l, est_i, est_l, frame_size=DEFAULT_FRAME_SIZE, beta=DEFAULT_BETA, fast=False,
             stats=None):
    check_parameters(frame_size, has_window=False)
    return _measure(ref_i, ref_l, est_i, est_l, True, None, frame_size, beta, fast, stats)


def align(intervals, labels, t_min, t_max):
    """util.adjust_intervals as documented: drop what lies outside [t_min, t_max], crop what crosses
    it, pad with '__T_MIN' / '__T_MAX' segments where the data does not reach the range."""
    segs = [(Fr(a), Fr(b), l) for (a, b), l in zip(intervals, labels)]
    if t_min is not None:
        t_min = Fr(t_min)
        segs = [(max(a, t_min), b, l) for a, b, l in segs if b > t_min]
    if t_max is not None:
        t_max = Fr(t_max)
        segs = [(a, min(b, t_max), l) for a, b, l in segs if a < t_max]
    if t_min is not None and segs and segs[0][0] > t_min:
        segs.insert(0, (t_min, segs[0][0], "__T_MIN"))
    if t_max is not None and segs and segs[-1][1] < t_max:
        segs.append((segs[-1][1], t_max, "__T_MAX"))
    return [(a, b) for a, b, _ in segs], [l for _, _, l in segs]


def evaluate(ref_i, ref_l, est_i, est_l, window=DEFAULT_WINDOW, frame_size=DEFAULT_FRAME_SIZE,
             beta=DEFAULT_BETA, fast=False):
    """The nine documented keys of hierarchy.evaluate (floats)."""
    _, t_end = bounds(ref_i)
    ra = [align(i, l, 0, None) for i, l in zip(ref_i, ref_l)]
    ea = [align(i, l, 0, t_end) for i, l in zip(est_i, est_l)]
    ri, rl = [x[0] for x in ra], [x[1] for x in ra]
    ei, el = [x[0] for x in ea], [x[1] for x in ea]
    out = {}
    p, r, f = tmeasure(ri, ei, False, window, frame_size, beta, fast)
    out["T-Precision reduced"], out["T-Recall reduced"], out["T-Measure reduced"] = float(p), float(r), f
    p, r, f = tmeasure(ri, ei, True, window, frame_size, beta, fast)
    out["T-Precision full"], out["T-Recall full"], out["T-Measure full"] = float(p), float(r), f
    p, r, f = lmeasure(ri, rl, ei, el, frame_size, beta, fast)
    out["L-Precision"], out["L-Recall"], out["L-Measure"] = float(p), float(r), f
    return out


# --------------------------------------------------------------------------- fixtures
def read_lab(path):
    """Minimal reader of 'start end label' annotation files ('#' comment lines skipped)."""
    ivs, labs = [], []
    with open(path) as f:
        for line in f:
            line = line.strip()
            if not line or line.startswith("#"):
                continue
            parts = line.split(None, 2)
            ivs.append((float(parts[0]), float(parts[1])))
            labs.append(parts[2] if len(parts) > 2 else "")
    return ivs, labs


DOC_EXAMPLE = {
    "ref_i": [[[0, 30], [30, 60]], [[0, 15], [15, 30], [30, 45], [45, 60]]],
    "est_i": [[[0, 45], [45, 60]], [[0, 15], [15, 30], [30, 45], [45, 60]]],
    "ref_l": [["A", "B"], ["a", "b", "a", "c"]],
    "est_l": [["A", "B"], ["a", "a", "b", "b"]],
    # printed in the hierarchy.evaluate docstring
    "expected": {"T-Measure full": 0.94822745804853459, "T-Measure reduced": 0.8732458222764804,
                 "T-Precision full": 0.96569179094693058, "T-Precision reduced": 0.89939075137018787,
                 "T-Recall full": 0.93138358189386117, "T-Recall reduced": 0.84857799953694923},
}
