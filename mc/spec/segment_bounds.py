"""Reference model for mir_eval.segment.detection / deviation (boundary metrics), from the documented definition.

* boundaries of an annotation = the sorted set of all interval end points, each rounded to 5 decimals
  (util.intervals_to_boundaries documents q=5); `trim=True` ignores the first and the last boundary
  ("typically start (0) and end-of-track markers");
* detection: a reference boundary is hit by an estimated boundary within `window` (|r - e| <= window), every
  boundary used at most once -> m = size of a MAXIMUM one-to-one matching; precision = m/|E|, recall = m/|R|,
  F = weighted harmonic mean (beta), 0 when both are 0; a side without boundaries -> (0, 0, 0);
* deviation: (median over reference boundaries of the distance to the closest estimated boundary,
              median over estimated boundaries of the distance to the closest reference boundary);
  a side without boundaries -> (NaN, NaN).
Documented defaults: window = 0.5, beta = 1.0, trim = False.

Generic over the number type: Fractions for exact lattice inputs, floats for fixture data.  `Undefined` (the one class
of mc.spec.beat) is raised when a float comparison is within 1e-9 of its threshold.

Also here: the interval-level model of util.adjust_intervals that segment.evaluate documents ("adjust timespan of
estimations relative to ground truth"), needed only to bind the models to the recorded fixture outputs.
"""
from fractions import Fraction as Fr

from mc.lib import max_matching_pred, round_half_even
from mc.spec.beat import Undefined

NAN = float("nan")
EPS = 1e-9


def round5(x):
    """x rounded to 5 decimals (exact rational of the input, ties to even), as a Fraction."""
    return Fr(round_half_even(Fr(x) * 100000), 100000)


def boundaries(intervals, trim=False):
    pts = sorted(set(round5(t) for iv in intervals for t in iv))
    if trim:
        pts = pts[1:-1]
    return pts


def n_boundaries(intervals, trim=False):
    return len(boundaries(intervals, trim))


def _within(d, w, exact):
    if not exact and d != w and abs(float(d) - float(w)) <= EPS:
        raise Undefined("boundary distance within 1e-9 of the window")
    return d <= w


def f_beta(p, r, beta):
    if p == 0 and r == 0:
        return Fr(0)
    b2 = Fr(beta) ** 2
    return (1 + b2) * p * r / (b2 * p + r)


def detection(ref, est, window=0.5, beta=1.0, trim=False, exact=True):
    R, E = boundaries(ref, trim), boundaries(est, trim)
    if not R or not E:
        return Fr(0), Fr(0), Fr(0)
    w = Fr(window)
    m = max_matching_pred(len(R), len(E), lambda i, j: _within(abs(R[i] - E[j]), w, exact))
    p, r = Fr(m, len(E)), Fr(m, len(R))
    return p, r, f_beta(p, r, beta)


def _median(xs):
    xs = sorted(xs)
    n = len(xs)
    return xs[n // 2] if n % 2 else (xs[n // 2 - 1] + xs[n // 2]) / 2


def deviation(ref, est, trim=False):
    R, E = boundaries(ref, trim), boundaries(est, trim)
    if not R or not E:
        return NAN, NAN
    r2e = _median([min(abs(r - e) for e in E) for r in R])
    e2r = _median([min(abs(r - e) for r in R) for e in E])
    return r2e, e2r


# ----------------------------------------------------------------------------- evaluate()'s span adjustment
def adjust(intervals, labels, t_min=None, t_max=None, start_label="__T_MIN", end_label="__T_MAX"):
    """util.adjust_intervals per its docstring: intervals completely outside [t_min, t_max] are removed, partially
    outside ones cropped, and if the range exceeds the data an interval is appended at that end."""
    ivs = [(Fr(s), Fr(e), lab) for (s, e), lab in zip(intervals, labels)]
    if t_min is not None:
        t_min = Fr(t_min)
        ivs = [(max(s, t_min), e, lab) for (s, e, lab) in ivs if e > t_min]
        lo = min(s for (s, e, lab) in ivs)
        if lo > t_min:
            ivs.insert(0, (t_min, lo, start_label))
    if t_max is not None:
        t_max = Fr(t_max)
        ivs = [(s, min(e, t_max), lab) for (s, e, lab) in ivs if s < t_max]
        hi = max(e for (s, e, lab) in ivs)
        if hi < t_max:
            ivs.append((hi, t_max, end_label))
    return [(s, e) for (s, e, lab) in ivs], [lab for (s, e, lab) in ivs]


def evaluate_inputs(ref, est):
    """(ref_intervals, ref_labels, est_intervals, est_labels) as segment.evaluate hands them to the metrics."""
    (ri, rl), (ei, el) = ref, est
    ri, rl = adjust(ri, rl, t_min=0)
    t_end = max(e for (s, e) in ri)
    ei, el = adjust(ei, el, t_min=0, t_max=t_end)
    return ri, rl, ei, el
