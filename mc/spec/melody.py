"""Reference model for mir_eval.melody, written from the documented definitions (module docstring, function
docstrings, Salamon et al. 2014, Poliner et al. 2007, Bittner & Bosch 2019; DESIGN.md Appendix A "melody").

Plain Python, generic over the number type: times / voicings / cents may be `fractions.Fraction` (exact lattice
values) or floats (fixture data, cents that went through log2).  Pitch comparisons between exact rationals are
decided exactly; as soon as a float is involved they are decided with a margin (`MARGIN` cent) and raise
`Undefined` inside it.  Documented defaults are hard-coded: cent_tolerance=50, base_frequency=10 Hz, hop=None,
kind="linear".

Pre-processing (`to_cent_voicing`)
  1. a series whose first time is > 0 gets a sample at t=0 repeating its first value (frequency and, if given,
     voicing / reward);
  2. voicing: the given array with entries at zero frequency forced to 0, else 1[f > 0]; f <- |f|;
  3. cents = 1200*log2(f / base), 0 Hz stays 0;
  4. hop None: the estimate is resampled to the reference times; hop given: each series is resampled to
     {0, hop, ..., hop*floor(t_max/hop)} of its own t_max;
  5. the estimate is padded with zeros / truncated to the reference length.
Resampling (`resample`): nothing happens if the time bases are equal; times rounded to 10 decimals; if the new
base extends past the old one a sample (t_new_max, 0, 0) is appended; kind "linear": zeros are replaced by the
last reported value, the result is interpolated linearly and set to 0 wherever the zero-order hold of the
original series is 0; kinds "zero"/"nearest": the series itself is interpolated with that kind (scipy's documented
"nearest" rounds half-way points down); voicing: nearest if kind is "nearest", linear if kind is "linear" and
the voicing is not binary, zero-order hold otherwise.  Any other kind: Undefined (outside the model).
"""
import bisect
import math
from fractions import Fraction as Fr

from mc.spec.beat import Undefined

MARGIN = 1e-6          # cents: a float pitch difference this close to the tolerance is not decided
KEYS = ("Voicing Recall", "Voicing False Alarm", "Raw Pitch Accuracy", "Raw Chroma Accuracy", "Overall Accuracy")
_E10 = 10 ** 10


def _exact(x):
    return isinstance(x, (int, Fr)) and not isinstance(x, bool)


def r10(t):
    """time rounded to 10 decimals (exact decimal value, ties to even)"""
    q = Fr(t) * _E10
    fl = q.numerator // q.denominator
    r = q - fl
    if r > Fr(1, 2) or (r == Fr(1, 2) and fl % 2):
        fl += 1
    return Fr(fl, _E10)


# --------------------------------------------------------------------------------------- conversions
def hz2cents(freqs, base_frequency=10.0):
    return [0 if f == 0 else 1200.0 * math.log2(abs(float(f)) / float(base_frequency)) for f in freqs]


def freq_to_voicing(freqs, voicing=None):
    if voicing is None:
        v = [1 if f > 0 else 0 for f in freqs]
    else:
        if len(voicing) != len(freqs):
            raise Undefined("voicing array and frequency array differ in length")
        v = [0 if f == 0 else x for f, x in zip(freqs, voicing)]
    return [abs(f) for f in freqs], v


def constant_hop_timebase(hop, end_time):
    hop, end_time = Fr(hop), r10(end_time)
    if hop <= 0:
        raise Undefined("hop must be positive")
    n = (end_time / hop).__floor__()
    return [r10(hop * k) for k in range(n + 1)]


# --------------------------------------------------------------------------------------- resampling
def _equivalent(a, b):
    if len(a) != len(b):
        return False
    if all(Fr(x) == Fr(y) for x, y in zip(a, b)):
        return True
    if all(abs(Fr(x) - Fr(y)) <= Fr(1, 10 ** 6) + abs(Fr(y)) / 1000 for x, y in zip(a, b)):
        raise Undefined("time bases nearly but not exactly equal")
    return False


def _zoh(t, y, x):
    return y[bisect.bisect_right(t, x) - 1]


def _nearest(t, y, x):
    i = bisect.bisect_right(t, x) - 1
    if i + 1 < len(t) and (t[i + 1] - x) < (x - t[i]):      # half-way points round down
        i += 1
    return y[i]


def _linear(t, y, x):
    i = bisect.bisect_right(t, x) - 1
    if t[i] == x or i + 1 >= len(t):
        return y[i]
    w = (x - t[i]) / (t[i + 1] - t[i])
    a, b = y[i], y[i + 1]
    if _exact(a) and _exact(b):
        return a + (b - a) * w
    return float(a) + (float(b) - float(a)) * float(w)


def resample(times, values, voicing, times_new, kind="linear"):
    """-> (values_resampled, voicing_resampled)"""
    if not (len(times) == len(values) == len(voicing)):
        raise Undefined("series arrays differ in length")
    if _equivalent(times, times_new):
        return list(values), list(voicing)
    if kind not in ("linear", "zero", "nearest"):
        raise Undefined("interpolation kind %r outside the model" % (kind,))
    t = [r10(x) for x in times]
    tn = [r10(x) for x in times_new]
    y, v = list(values), list(voicing)
    if not t or not tn:
        raise Undefined("empty time base")
    if max(tn) > max(t):
        t.append(max(tn))
        y.append(0)
        v.append(0)
    if any(b <= a for a, b in zip(t, t[1:])):
        raise Undefined("times not strictly increasing")
    if len(t) < 2 or min(tn) < t[0] or max(tn) > t[-1]:
        raise Undefined("new time base outside the series")
    if kind == "linear":
        held = list(y)
        for i in range(1, len(held)):
            if y[i] == 0:
                held[i] = held[i - 1]
        out = [(_linear(t, held, x) if _zoh(t, y, x) != 0 else 0) for x in tn]
    elif kind == "zero":
        out = [_zoh(t, y, x) for x in tn]
    else:
        out = [_nearest(t, y, x) for x in tn]
    binary = all(x == 0 or x == 1 for x in v)
    if kind == "nearest":
        vo = [_nearest(t, v, x) for x in tn]
    elif kind == "linear" and not binary:
        vo = [_linear(t, v, x) for x in tn]
    else:
        vo = [_zoh(t, v, x) for x in tn]
    return out, vo


def to_cent_voicing(ref_time, ref_freq, est_time, est_freq, est_voicing=None, ref_reward=None,
                    base_frequency=10.0, hop=None, kind="linear", cents=None):
    """-> (ref_voicing, ref_cent, est_voicing, est_cent).  `cents` (model-side hook, not a library parameter)
    replaces the Hz->cent conversion, e.g. by an exact table for lattice frequencies."""
    if len(ref_time) == 0 or len(est_time) == 0:
        raise Undefined("resampling an empty series is not defined by the documentation")
    if len(ref_time) != len(ref_freq) or len(est_time) != len(est_freq):
        raise Undefined("time and frequency arrays differ in length")
    ref_time, ref_freq = [Fr(t) for t in ref_time], list(ref_freq)
    est_time, est_freq = [Fr(t) for t in est_time], list(est_freq)
    ref_reward = None if ref_reward is None else list(ref_reward)
    est_voicing = None if est_voicing is None else list(est_voicing)
    if ref_time[0] > 0:
        ref_time.insert(0, Fr(0))
        ref_freq.insert(0, ref_freq[0])
        if ref_reward is not None:
            ref_reward.insert(0, ref_reward[0])
    if est_time[0] > 0:
        est_time.insert(0, Fr(0))
        est_freq.insert(0, est_freq[0])
        if est_voicing is not None:
            est_voicing.insert(0, est_voicing[0])
    ref_freq, ref_v = freq_to_voicing(ref_freq, ref_reward)
    est_freq, est_v = freq_to_voicing(est_freq, est_voicing)
    conv = cents if cents is not None else (lambda fs: hz2cents(fs, base_frequency))
    ref_c, est_c = conv(ref_freq), conv(est_freq)
    if hop is not None:
        ref_c, ref_v = resample(ref_time, ref_c, ref_v, constant_hop_timebase(hop, max(ref_time)), kind)
        est_c, est_v = resample(est_time, est_c, est_v, constant_hop_timebase(hop, max(est_time)), kind)
    else:
        est_c, est_v = resample(est_time, est_c, est_v, ref_time, kind)
    n = len(ref_c)
    est_c = (list(est_c) + [0] * n)[:n]
    est_v = (list(est_v) + [0] * n)[:n]
    return ref_v, ref_c, est_v, est_c


# --------------------------------------------------------------------------------------- measures
def _check_voicing(ref_v, est_v):
    if len(ref_v) != len(est_v):
        raise Undefined("voicing arrays differ in length")
    for x in list(ref_v) + list(est_v):
        if x < 0 or x > 1:
            raise Undefined("voicing outside [0, 1]")


def voicing_measures(ref_v, est_v):
    _check_voicing(ref_v, est_v)
    if len(ref_v) == 0:
        return 0.0, 0.0
    voiced = [e for r, e in zip(ref_v, est_v) if r > 0]
    unvoiced = [e for r, e in zip(ref_v, est_v) if r == 0]
    recall = sum(voiced) / len(voiced) if voiced else 1
    false_alarm = sum(unvoiced) / len(unvoiced) if unvoiced else 0
    return recall, false_alarm


def _below(d, tol):
    """d < tol; exact for rationals, with a margin when a float takes part"""
    if _exact(d) and _exact(tol):
        return d < tol
    d, tol = float(d), float(tol)
    if abs(d - tol) <= MARGIN:
        raise Undefined("pitch difference within 1e-6 cent of the tolerance")
    return d < tol


def _tol(cent_tolerance):
    return cent_tolerance if _exact(cent_tolerance) else Fr(cent_tolerance)


def correct_pitch(rc, ec, tol, chroma=False):
    """a frame's frequency is correct: both frames report a frequency and it deviates by less than tol cents
    (chroma: after mapping onto one octave, i.e. the distance to the nearest multiple of 1200 cents)"""
    if rc == 0 or ec == 0:
        return False
    d = abs(rc - ec)
    if chroma:
        k = d % 1200 if _exact(d) else math.fmod(d, 1200.0)
        d = min(k, 1200 - k)
    return _below(d, tol)


def _check4(ref_v, ref_c, est_v, est_c):
    _check_voicing(ref_v, est_v)
    if not (len(ref_v) == len(ref_c) == len(est_c) == len(est_v)):
        raise Undefined("arrays differ in length")


def _raw(ref_v, ref_c, est_v, est_c, cent_tolerance, chroma):
    _check4(ref_v, ref_c, est_v, est_c)
    total = sum(ref_v)
    if len(ref_v) == 0 or total == 0:
        return 0.0
    tol = _tol(cent_tolerance)
    return sum(r for r, a, b in zip(ref_v, ref_c, est_c) if correct_pitch(a, b, tol, chroma)) / total


def raw_pitch_accuracy(ref_v, ref_c, est_v, est_c, cent_tolerance=50):
    return _raw(ref_v, ref_c, est_v, est_c, cent_tolerance, False)


def raw_chroma_accuracy(ref_v, ref_c, est_v, est_c, cent_tolerance=50):
    return _raw(ref_v, ref_c, est_v, est_c, cent_tolerance, True)


def overall_accuracy(ref_v, ref_c, est_v, est_c, cent_tolerance=50):
    _check4(ref_v, ref_c, est_v, est_c)
    n = len(ref_v)
    if n == 0:
        return 0.0
    tol = _tol(cent_tolerance)
    total = sum(ref_v)
    n_voiced = sum(1 for r in ref_v if r > 0)
    hit = sum(r * e for r, a, e, b in zip(ref_v, ref_c, est_v, est_c) if correct_pitch(a, b, tol))
    rej = sum(1 - e for r, e in zip(ref_v, est_v) if not r > 0)
    if total == 0:
        scaled = 0
    else:
        ratio = Fr(n_voiced) / Fr(total) if _exact(total) else n_voiced / total
        scaled = ratio * hit
    return (scaled + rej) / n


def measures(ref_v, ref_c, est_v, est_c, cent_tolerance=50):
    vr, vfa = voicing_measures(ref_v, est_v)
    return (vr, vfa, raw_pitch_accuracy(ref_v, ref_c, est_v, est_c, cent_tolerance),
            raw_chroma_accuracy(ref_v, ref_c, est_v, est_c, cent_tolerance),
            overall_accuracy(ref_v, ref_c, est_v, est_c, cent_tolerance))


def pipeline(ref_time, ref_freq, est_time, est_freq, est_voicing=None, ref_reward=None, cent_tolerance=50,
             base_frequency=10.0, hop=None, kind="linear"):
    """evaluate()-style inputs -> the five scores in `KEYS` order.  Two empty series: the measures' documented
    empty-array convention (resampling is not involved)."""
    if len(ref_time) == 0 and len(est_time) == 0:
        return measures([], [], [], [], cent_tolerance)
    return measures(*to_cent_voicing(ref_time, ref_freq, est_time, est_freq, est_voicing, ref_reward,
                                     base_frequency, hop, kind), cent_tolerance=cent_tolerance)
