"""Reference definitions for BSS-eval (C19), written from the published definitions
(Vincent, Gribonval, Fevotte 2006, eq. (12)-(14); Vincent et al. 2007/2012 for the image criteria),
plain Python only.

An estimate s_hat is decomposed as

    s_hat = s_target (+ e_spat) + e_interf + e_artif

``sources`` criteria (a time-invariant filter distortion of the target is *allowed*, so the numerator
is the filtered target s_filt = s_true + e_spat):

    SDR = 10 log10 |s_filt|^2 / |e_interf + e_artif|^2
    SIR = 10 log10 |s_filt|^2 / |e_interf|^2
    SAR = 10 log10 |s_filt + e_interf|^2 / |e_artif|^2

``images`` criteria (the numerator is the unfiltered true image, the spatial/filtering error is a
distortion of its own):

    SDR = 10 log10 |s_img|^2 / |e_spat + e_interf + e_artif|^2
    ISR = 10 log10 |s_img|^2 / |e_spat|^2
    SIR = 10 log10 |s_img + e_spat|^2 / |e_interf|^2
    SAR = 10 log10 |s_img + e_spat + e_interf|^2 / |e_artif|^2

A vanishing denominator gives +inf.
"""
import itertools
import math

INF = float("inf")


def _flat(x):
    """Flatten nested lists (1-D signal or list of channels) to one list of floats."""
    if x and isinstance(x[0], (list, tuple)):
        out = []
        for row in x:
            out.extend(row)
        return out
    return list(x)


def energy(*parts):
    """Energy of the sample-wise sum of the given (equally shaped) components."""
    flats = [_flat(p) for p in parts]
    n = len(flats[0])
    for f in flats:
        if len(f) != n:
            raise ValueError("components of different sizes")
    if len(flats) == 1:
        return math.fsum(v * v for v in flats[0])
    return math.fsum(math.fsum(t) ** 2 for t in zip(*flats))


def db(num, den):
    if den == 0:
        return INF
    if num == 0:
        return -INF
    return 10.0 * math.log10(num / den)


def criteria_sources(s_true, e_spat, e_interf, e_artif):
    """(SDR, SIR, SAR) of one estimate from its four components."""
    tgt = energy(s_true, e_spat)
    return (db(tgt, energy(e_interf, e_artif)),
            db(tgt, energy(e_interf)),
            db(energy(s_true, e_spat, e_interf), energy(e_artif)))


def criteria_images(s_true, e_spat, e_interf, e_artif):
    """(SDR, ISR, SIR, SAR) of one estimated image from its four components."""
    img = energy(s_true)
    return (db(img, energy(e_spat, e_interf, e_artif)),
            db(img, energy(e_spat)),
            db(energy(s_true, e_spat), energy(e_interf)),
            db(energy(s_true, e_spat, e_interf), energy(e_artif)))


# ------------------------------------------------------------------ comparing dB figures
AMP_REL = 1e-7      # relative agreement of the error-to-signal amplitude ratio
AMP_FLOOR = 1e-10   # amplitude ratios below this (figures above 200 dB) are rounding noise of the
                    # 512-tap least-squares projection in binary64 and are not distinguished


def amp(x):
    """Error-to-signal amplitude ratio 10^(-x/20) of a dB figure (inf -> 0, -inf -> inf)."""
    if x == INF:
        return 0.0
    if x == -INF:
        return INF
    if x < -6000:
        return INF
    return 10.0 ** (-x / 20.0)


def same_db(x, y, rel=AMP_REL, floor=AMP_FLOOR):
    """Two dB figures are 'the same' when their amplitude ratios agree to rel (relative) + floor."""
    x = float(x)
    y = float(y)
    if math.isnan(x) or math.isnan(y):
        return math.isnan(x) and math.isnan(y)
    a, b = amp(x), amp(y)
    if a == b:
        return True
    if a == INF or b == INF:
        return False
    return abs(a - b) <= rel * max(a, b) + floor


CAP_DB = 200.0


def capped(x):
    """dB figure capped at 200 dB (see AMP_FLOOR)."""
    x = float(x)
    if math.isnan(x):
        return x
    return min(x, CAP_DB)


def capped_mean(v):
    v = [capped(x) for x in v]
    return math.fsum(v) / len(v)


def is_permutation(perm, n):
    try:
        vals = [float(p) for p in perm]
    except Exception:
        return False
    if len(vals) != n:
        return False
    if any(p != int(p) for p in vals):
        return False
    return sorted(int(p) for p in vals) == list(range(n))


def permutations(n):
    return list(itertools.permutations(range(n)))


def window_starts(nsampl, window, hop):
    """Start samples of all full windows (k*hop + window <= nsampl).  Fewer than two full windows means
    the documented fall-back to the non-framewise result (returned as a single column)."""
    if window > nsampl:
        return []
    return list(range(0, nsampl - window + 1, hop))
