"""Reference model for mir_eval.multipitch, written from the module docstring and the cited definitions
(Poliner & Ellis 2007: frame-level accuracy TP/(TP+FP+FN); Bay, Ehmann & Downie 2009: precision, recall,
E_sub, E_miss, E_fa, E_tot).  Plain Python (fractions, math, bisect); no NumPy.

Conventions taken from the documentation
  * a multipitch series = time stamps + one (possibly empty) collection of frequencies in Hz per time stamp;
  * if the estimate's time base differs from the reference's, the estimate is resampled to the reference
    times by nearest-neighbour interpolation; reference times outside [first, last] estimate time stamp get
    an empty frame; no estimate time stamps at all => every frame empty;
  * frequencies are compared on the continuous MIDI scale 69 + 12 log2(f / 440); an estimated frequency is
    correct if it is within `window` (default 0.5) semitones of a reference frequency, every reference and
    every estimated frequency being used at most once per frame (maximum one-to-one matching);
  * chroma: MIDI values modulo 12, circular distance min(d, 12 - d);
  * all scores are "macro" scores: per-frame counts are summed over time first.

Time stamps may be Fractions (exact lattice inputs) or floats (fixtures); they are always compared as the
exact rational value of the number given.  MIDI values are exact Fractions when f / 440 is an exact power of
two, otherwise binary64 values; a float comparison within `eps` of its threshold raises `Undefined`
(the caller skips and counts those states).
"""
import bisect
import math
from fractions import Fraction as Fr

from mc.lib import max_matching_pred
from mc.spec.beat import Undefined

EPS = 1e-9
WINDOW = 0.5          # documented default (semitones)
A4 = 440              # documented reference frequency of MIDI note 69
MIN_FREQ, MAX_FREQ, MAX_TIME = 20, 5000, 30000     # documented validity limits

KEYS = ("Precision", "Recall", "Accuracy", "Substitution Error", "Miss Error", "False Alarm Error",
        "Total Error", "Chroma Precision", "Chroma Recall", "Chroma Accuracy", "Chroma Substitution Error",
        "Chroma Miss Error", "Chroma False Alarm Error", "Chroma Total Error")


# ------------------------------------------------------------------------------------- pitch
def _pow2_exponent(q):
    """k if the positive rational q == 2**k exactly, else None."""
    n, d = q.numerator, q.denominator
    if d == 1 and n & (n - 1) == 0:
        return n.bit_length() - 1
    if n == 1 and d & (d - 1) == 0:
        return -(d.bit_length() - 1)
    return None


_MIDI = {}


def midi(f):
    """Continuous MIDI note number of a frequency in Hz (exact Fraction on the octaves of 440 Hz)."""
    m = _MIDI.get(f)
    if m is None:
        m = _midi(f)
        if len(_MIDI) < 100000:
            _MIDI[f] = m
    return m


def _midi(f):
    q = Fr(f) / A4
    if q <= 0:
        raise Undefined("non-positive frequency")
    k = _pow2_exponent(q)
    if k is not None:
        return Fr(69 + 12 * k)
    return 69.0 + 12.0 * math.log2(float(f) / 440.0)


def distance(a, b, chroma=False):
    """Distance in semitones between two MIDI values; circular modulo one octave when chroma."""
    if not (isinstance(a, Fr) and isinstance(b, Fr)):
        a, b = float(a), float(b)
    if chroma:
        d = abs(a % 12 - b % 12)
        return min(d, 12 - d)
    return abs(a - b)


def within(d, window, eps=EPS):
    if isinstance(d, Fr):
        return d <= Fr(window)
    if abs(d - float(window)) <= eps:
        raise Undefined("pitch distance within rounding distance of the window")
    return d <= float(window)


def near_window(ref_frame, est_frame, window, tol):
    """True if some inexact (float) pitch distance of the frame pair, raw or chroma, is within tol of window."""
    for r in ref_frame:
        for e in est_frame:
            for chroma in (False, True):
                d = distance(midi(r), midi(e), chroma)
                if not isinstance(d, Fr) and abs(d - float(window)) <= tol:
                    return True
    return False


def true_positives(ref_frame, est_frame, window=WINDOW, chroma=False, eps=EPS):
    """Number of correct frequencies in one frame (frequencies in Hz)."""
    mr = [midi(f) for f in ref_frame]
    me = [midi(f) for f in est_frame]
    return max_matching_pred(len(mr), len(me), lambda i, j: within(distance(mr[i], me[j], chroma), window, eps))


# ------------------------------------------------------------------------------------- time base
def same_timebase(ref_times, est_times):
    """The estimate needs no resampling: same number of time stamps, all equal (up to the tolerance of
    numpy.allclose(est, ref): |est - ref| <= 1e-8 + 1e-5 |ref|, see DESIGN App. A)."""
    if len(ref_times) != len(est_times):
        return False
    for r, e in zip(ref_times, est_times):
        r, e = Fr(r), Fr(e)
        if r == e:
            continue
        d, tol = abs(e - r), Fr(1e-8) + Fr(1e-5) * abs(r)
        if abs(d - tol) <= Fr(1, 10 ** 12):
            raise Undefined("time stamp difference on the allclose threshold")
        if d > tol:
            return False
    return True


def resample(times, frames, target_times, eps=EPS):
    """Nearest-neighbour resampling of (times, frames) to target_times.  A target outside
    [times[0], times[-1]] gets the empty frame; a target exactly half way between two time stamps gets the
    EARLIER one (scipy.interpolate.interp1d(kind='nearest') 'rounds down', as its documentation states)."""
    T = [Fr(t) for t in times]
    if len(T) != len(frames):
        raise Undefined("times and frames have unequal lengths")
    if any(b <= a for a, b in zip(T, T[1:])):
        raise Undefined("nearest neighbour among repeated / unsorted time stamps")
    out = []
    for t in target_times:
        t = Fr(t)
        if not T or t < T[0] or t > T[-1]:
            out.append(())
            continue
        j = bisect.bisect_left(T, t)            # first j with T[j] >= t (exists: t <= T[-1])
        if T[j] == t:
            pick = j
        else:
            lo, hi = j - 1, j
            dl, dh = t - T[lo], T[hi] - t
            if dl == dh:
                mid = (T[lo] + T[hi]) / 2
                if Fr(float(mid)) != mid:
                    raise Undefined("tie at a midpoint that is not representable in binary64")
                pick = lo
            elif abs(dl - dh) <= 2 * eps:
                raise Undefined("target within rounding distance of a midpoint")
            else:
                pick = lo if dl < dh else hi
        out.append(tuple(frames[pick]))
    return out


# ------------------------------------------------------------------------------------- scores
def _ratio(a, b):
    return Fr(a, b) if b else Fr(0)


def scores_from_counts(tp, n_ref, n_est):
    """(P, R, Acc, E_sub, E_miss, E_fa, E_tot) from per-frame counts (Bay et al. 2009, eqs. for
    Precision/Recall/Accuracy and the four error scores)."""
    TP, NR, NE = sum(tp), sum(n_ref), sum(n_est)
    fp = NE - TP
    fn = NR - TP
    p = _ratio(TP, TP + fp)
    r = _ratio(TP, TP + fn)
    a = _ratio(TP, TP + fp + fn)
    if NR == 0:
        return p, r, a, Fr(0), Fr(0), Fr(0), Fr(0)       # documented: error scores undefined -> 0
    e_sub = Fr(sum(min(nr, ne) - t for t, nr, ne in zip(tp, n_ref, n_est)), NR)
    e_miss = Fr(sum(max(0, nr - ne) for nr, ne in zip(n_ref, n_est)), NR)
    e_fa = Fr(sum(max(0, ne - nr) for nr, ne in zip(n_ref, n_est)), NR)
    e_tot = Fr(sum(max(nr, ne) - t for t, nr, ne in zip(tp, n_ref, n_est)), NR)
    return p, r, a, e_sub, e_miss, e_fa, e_tot


def align(ref_times, ref_frames, est_times, est_frames, eps=EPS):
    """Estimate frames on the reference time base."""
    if len(ref_times) != len(ref_frames) or len(est_times) != len(est_frames):
        raise Undefined("times and frames have unequal lengths")
    if same_timebase(ref_times, est_times):
        return [tuple(f) for f in est_frames]
    return resample(est_times, est_frames, ref_times, eps)


def metrics(ref_times, ref_frames, est_times, est_frames, window=WINDOW, eps=EPS):
    """The 14 scores in the documented return order (KEYS)."""
    est = align(ref_times, ref_frames, est_times, est_frames, eps)
    n_ref = [len(f) for f in ref_frames]
    n_est = [len(f) for f in est]
    out = ()
    for chroma in (False, True):
        tp = [true_positives(r, e, window, chroma, eps) for r, e in zip(ref_frames, est)]
        out += scores_from_counts(tp, n_ref, n_est)
    return out
