"""Reference model for the frame-clustering ("segment labelling") scores of mir_eval.segment.

Written from the definitions, not from the implementation:

* frame labels: an annotation is a step function  t -> label of the segment [s, e) containing t;
  it is sampled at t_k = k * frame_size for k = 0 .. floor(T / frame_size) - 1 (T = end of the annotation)
  and every label is lower-cased (labels are compared case-insensitively);
* contingency table n_ij = #frames with reference cluster i and estimated cluster j (integers);
  a_i / b_j its row / column sums, N the number of frames;
* pairwise P/R/F (Levy & Sandler 2008): pairs of distinct frames co-clustered in both / in the estimate / in
  the reference;  Rand (1971): agreeing pairs / all pairs;  ARI (Hubert & Arabie 1985);
* MI, entropies in nats; NMI = MI / sqrt(H(U) H(V)) (Strehl & Ghosh; sklearn's legacy
  normalized_mutual_info_score which the library cites); AMI = (MI - EMI) / (max(H(U), H(V)) - EMI) with EMI the
  hypergeometric expectation (Vinh, Epps & Bailey 2010; sklearn's adjusted_mutual_info_score, max normaliser);
* NCE (Lukashevich 2008), bits: over = 1 - H(est|ref) / log2 |est labels|, under = 1 - H(ref|est) / log2 |ref labels|;
  marginal=True: normalised by H(est) resp. H(ref) -> V-measure (Rosenberg & Hirschberg 2007);
  documented: a side with one label has score 0.
* documented special cases (sklearn, quoted in the library's comments): both sides one cluster -> ARI = AMI = NMI = 1;
  both sides all singletons -> ARI = 1.

Everything rational is a Fraction; transcendental parts use math.log / math.fsum.  Where the textbook formula is
0/0 the model returns UNDEF and the caller skips (and counts) that key.
"""
import math
import struct
from fractions import Fraction as Fr

UNDEF = "undefined"

T_MIN_LABEL = "__T_MIN"      # documented default start_label / end_label of util.adjust_intervals
T_MAX_LABEL = "__T_MAX"


# ----------------------------------------------------------------------------- sampling
def n_frames(t_end, frame_size):
    """floor(T / frame_size) in exact arithmetic on the binary64 values."""
    q = Fr(t_end) / Fr(frame_size)
    return q.numerator // q.denominator


def exact_grid(n, frame_size):
    fs = Fr(frame_size)
    return [k * fs for k in range(n)]


def _f32(x):
    """nearest binary32 of a double (round-to-nearest-even), as a double."""
    return struct.unpack("f", struct.pack("f", x))[0]


def float32_grid(n, frame_size):
    """The grid  float32(k) * float32(frame_size)  evaluated in binary32 (only used to bind the model to the
    recorded fixture outputs, whose real-valued boundaries are not on an exact lattice)."""
    fs = _f32(frame_size)
    return [Fr(_f32(k * fs)) for k in range(n)]       # k * fs is exact in binary64 (24 x 24 bits)


def step_label(segments, t, before=None, after=None):
    """Label of the segment [s, e) that contains t (the LAST such segment if they overlap, i.e. the later
    annotation line wins); `before` if t precedes every segment, `after` otherwise."""
    found = None
    hit = False
    for (s, e, lab) in segments:
        if s <= t < e:
            found, hit = lab, True
    if hit:
        return found
    if all(t < s for (s, e, lab) in segments):
        return before
    return after


def frame_labels(intervals, labels, frame_size, t_end=None, grid=None, before=None, after=None):
    """Lower-cased frame label sequence of one annotation.

    intervals: sequence of (start, end) numbers; labels: sequence of strings."""
    segs = [(Fr(s), Fr(e), lab) for (s, e), lab in zip(intervals, labels)]
    if t_end is None:
        t_end = max(e for (s, e, lab) in segs)
    n = n_frames(t_end, frame_size)
    times = exact_grid(n, frame_size) if grid is None else grid(n, frame_size)
    out = []
    ordered = all(segs[i][1] <= segs[i + 1][0] for i in range(len(segs) - 1))
    j = 0
    for t in times:
        if ordered:
            # same function as step_label, with a moving pointer (times are increasing, segments disjoint + sorted)
            while j < len(segs) and segs[j][1] <= t:
                j += 1
            if j == len(segs):
                lab = after
            elif segs[j][0] <= t:
                lab = segs[j][2]
            else:
                lab = before if j == 0 else after
        else:
            lab = step_label(segs, t, before, after)
        out.append(None if lab is None else str(lab).lower())
    return out


# ----------------------------------------------------------------------------- contingency
def contingency(y_ref, y_est):
    """Integer table (list of rows) over the clusters present on each side."""
    if len(y_ref) != len(y_est):
        raise ValueError("frame sequences of different length")
    rows = sorted(set(y_ref), key=repr)
    cols = sorted(set(y_est), key=repr)
    ri = {v: i for i, v in enumerate(rows)}
    ci = {v: j for j, v in enumerate(cols)}
    tab = [[0] * len(cols) for _ in rows]
    for u, v in zip(y_ref, y_est):
        tab[ri[u]][ci[v]] += 1
    return tab


def margins(tab):
    a = [sum(r) for r in tab]
    b = [sum(r[j] for r in tab) for j in range(len(tab[0]))] if tab else []
    return a, b, sum(a)


def same_partition(y_ref, y_est):
    """Do the two frame labellings induce the same partition of the frames?"""
    f, g = {}, {}
    for u, v in zip(y_ref, y_est):
        if f.setdefault(u, v) != v or g.setdefault(v, u) != u:
            return False
    return True


def _c2(n):
    return n * (n - 1) // 2


def pair_counts(tab):
    a, b, n = margins(tab)
    both = sum(_c2(x) for r in tab for x in r)
    in_ref = sum(_c2(x) for x in a)
    in_est = sum(_c2(x) for x in b)
    return both, in_ref, in_est, _c2(n)


def f_beta(p, r, beta):
    """Weighted harmonic mean of p and r: (1+b^2) p r / (b^2 p + r); 0 when both are 0 (the convention of
    util.f_measure)."""
    if p == UNDEF or r == UNDEF:
        return UNDEF
    if p == 0 and r == 0:
        return 0 * p
    b2 = Fr(beta) ** 2 if isinstance(p, Fr) and isinstance(r, Fr) else float(beta) ** 2
    return (1 + b2) * p * r / (b2 * p + r)


# ----------------------------------------------------------------------------- pair-counting indices
def pairwise(tab, beta=1.0):
    both, in_ref, in_est, _ = pair_counts(tab)
    p = Fr(both, in_est) if in_est else UNDEF
    r = Fr(both, in_ref) if in_ref else UNDEF
    return p, r, f_beta(p, r, beta)


def rand_index(tab):
    both, in_ref, in_est, total = pair_counts(tab)
    if total == 0:
        return UNDEF
    neither = total - in_ref - in_est + both
    return Fr(both + neither, total)


def ari(tab):
    a, b, n = margins(tab)
    if (len(a) == 1 and len(b) == 1) or (len(a) == len(b) == n):
        return Fr(1)            # documented special cases (0/0 of the formula): unsplit data / all singletons
    both, in_ref, in_est, total = pair_counts(tab)
    expected = Fr(in_ref * in_est, total)
    den = Fr(in_ref + in_est, 2) - expected
    if den == 0:
        raise AssertionError("ARI denominator 0 outside the documented special cases: %r" % (tab,))
    return (both - expected) / den


# ----------------------------------------------------------------------------- information-theoretic
def _entropy_counts(counts, n, log=math.log):
    """-sum p log p over positive counts."""
    pos = [c for c in counts if c > 0]
    if len(pos) <= 1:
        return 0.0
    return -math.fsum((c / n) * log(c / n) for c in pos)


def independent(tab):
    a, b, n = margins(tab)
    return all(tab[i][j] * n == a[i] * b[j] for i in range(len(a)) for j in range(len(b)))


def mutual_info(tab):
    """I(U;V) in nats."""
    a, b, n = margins(tab)
    if independent(tab):
        return 0.0
    return math.fsum((tab[i][j] / n) * math.log(Fr(n * tab[i][j], a[i] * b[j]))
                     for i in range(len(a)) for j in range(len(b)) if tab[i][j] > 0)


def expected_mutual_info(tab):
    """E[I] over all tables with the same margins (hypergeometric model), exact probabilities."""
    a, b, n = margins(tab)
    terms = []
    for ai in a:
        for bj in b:
            lo = max(1, ai + bj - n)
            for nij in range(lo, min(ai, bj) + 1):
                prob = Fr(math.comb(ai, nij) * math.comb(n - ai, bj - nij), math.comb(n, bj))
                terms.append((nij / n) * math.log(Fr(n * nij, ai * bj)) * float(prob))
    return math.fsum(terms)


def entropies(tab):
    a, b, n = margins(tab)
    return _entropy_counts(a, n), _entropy_counts(b, n)


def nmi(tab):
    a, b, n = margins(tab)
    if len(a) == 1 and len(b) == 1:
        return 1.0               # documented special case
    if len(a) == 1 or len(b) == 1:
        return UNDEF             # 0 / sqrt(0 * H)
    hu, hv = entropies(tab)
    return mutual_info(tab) / math.sqrt(hu * hv)


def ami(tab):
    a, b, n = margins(tab)
    if len(a) == 1 and len(b) == 1:
        return 1.0               # documented special case
    if len(a) == len(b) == n:
        return UNDEF             # MI = EMI = H(U) = H(V) = log N  ->  0/0
    hu, hv = entropies(tab)
    emi = expected_mutual_info(tab)
    den = max(hu, hv) - emi
    if den < 1e-6:
        raise AssertionError("AMI denominator ~0 outside the all-singleton case: %r" % (tab,))
    return (mutual_info(tab) - emi) / den


def mutual_information(tab):
    return mutual_info(tab), ami(tab), nmi(tab)


def _log2(x):
    return math.log2(x)


def _cond_entropy_bits(tab):
    """H(column variable | row variable) in bits; exact 0.0 when the column is a function of the row."""
    a, b, n = margins(tab)
    if all(sum(1 for x in r if x) == 1 for r in tab):
        return 0.0
    return math.fsum((a[i] / n) * _entropy_counts(tab[i], a[i], _log2) for i in range(len(a)))


def _transpose(tab):
    return [list(c) for c in zip(*tab)]


def nce(tab, beta=1.0, marginal=False):
    """(over, under, F):  over = 1 - H(est|ref)/Z_est,  under = 1 - H(ref|est)/Z_ref."""
    a, b, n = margins(tab)
    indep = independent(tab)

    def score(t, counts):
        k = len(counts)
        if k == 1:
            return 0.0                                   # documented: a single label on that side -> 0
        h_marg = _entropy_counts(counts, n, _log2)
        z = h_marg if marginal else _log2(k)
        h_cond = h_marg if indep else _cond_entropy_bits(t)   # H(X|Y) = H(X) exactly under independence
        if h_cond == 0.0:
            return 1.0
        if h_cond == z:
            return 0.0
        return 1.0 - h_cond / z

    over = score(tab, b)                # H(est | ref): rows = ref clusters
    under = score(_transpose(tab), a)   # H(ref | est)
    return over, under, f_beta(over, under, beta)


def vmeasure(tab, beta=1.0):
    return nce(tab, beta=beta, marginal=True)


# ----------------------------------------------------------------------------- everything at once
def all_scores(tab, beta=1.0):
    """Dict keyed like mir_eval.segment.evaluate for the labelling metrics (UNDEF where 0/0)."""
    p, r, f = pairwise(tab, beta)
    mi, am, nm = mutual_information(tab)
    o, u, nf = nce(tab, beta, False)
    vp, vr, vf = nce(tab, beta, True)
    return {
        "Pairwise Precision": p, "Pairwise Recall": r, "Pairwise F-measure": f,
        "Rand Index": rand_index(tab), "Adjusted Rand Index": ari(tab),
        "Mutual Information": mi, "Adjusted Mutual Information": am, "Normalized Mutual Information": nm,
        "NCE Over": o, "NCE Under": u, "NCE F-measure": nf,
        "V Precision": vp, "V Recall": vr, "V-measure": vf,
    }


# ----------------------------------------------------------------------------- fixtures (evaluate() front end)
def read_lab(path):
    """Minimal reader of a .lab file: 'start end label...' per line, '#' comments."""
    ivs, labs = [], []
    with open(path) as f:
        for line in f:
            line = line.strip()
            if not line or line.startswith("#"):
                continue
            parts = line.split(None, 2)
            ivs.append((float(parts[0]), float(parts[1])))
            labs.append(parts[2] if len(parts) > 2 else "")
    return ivs, labs


def evaluate_frames(ref, est, frame_size=0.1, grid=None):
    """Frame sequences as segment.evaluate documents them: the reference is extended down to t=0 (label
    __T_MIN), the estimate is cropped / padded to [0, end of reference] (labels __T_MIN / __T_MAX)."""
    (ri, rl), (ei, el) = ref, est
    t_end = max(Fr(e) for (s, e) in ri)
    yr = frame_labels(ri, rl, frame_size, t_end, grid, T_MIN_LABEL, T_MAX_LABEL)
    ye = frame_labels(ei, el, frame_size, t_end, grid, T_MIN_LABEL, T_MAX_LABEL)
    return yr, ye
