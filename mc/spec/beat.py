"""Reference model for mir_eval.beat / mir_eval.onset, written from the documented definitions
(Davies, Degara & Plumbley 2009 and the module docstrings).  Plain Python; generic over the number
type: pass fractions.Fraction for exact lattice inputs, floats for fixture data.

`Undefined` marks inputs on which the documented definition gives no value (division by a zero
interval, a comparison too close to its threshold to be decided in floating point): the caller
skips and counts those states.
"""
import math
from fractions import Fraction as Fr

from mc.lib import max_matching_pred, fbeta


class Undefined(Exception):
    pass


EPS = 1e-9


def _lt(a, b):
    """a < b, refusing to decide inexact values that are within rounding distance of each other."""
    if isinstance(a, float) or isinstance(b, float):
        if abs(float(a) - float(b)) <= EPS * max(1.0, abs(float(b))):
            raise Undefined("comparison within rounding distance of its threshold")
    return a < b


def _f(x):
    return float(x)


def T(x):
    """threshold / parameter as an exact rational of its binary64 value"""
    return Fr(x)


# ---------------------------------------------------------------------------------------------
def hits(R, E, w):
    w = T(w)
    return max_matching_pred(len(R), len(E), lambda i, j: abs(Fr(R[i]) - Fr(E[j])) <= w)


def f_measure(R, E, f_measure_threshold=0.07):
    if not R or not E:
        return 0.0
    m = hits(R, E, f_measure_threshold)
    return fbeta(m / len(E), m / len(R))


def onset_f_measure(R, E, window=0.05):
    if not R or not E:
        return 0.0, 0.0, 0.0
    m = hits(R, E, window)
    p, r = m / len(E), m / len(R)
    return fbeta(p, r), p, r


def variations(R):
    R = list(R)
    D = []
    for i, r in enumerate(R):
        D.append(r)
        if i + 1 < len(R):
            D.append((r + R[i + 1]) / 2)
    return [R, D[1::2], D, R[0::2], R[1::2]]


def cemgil(R, E, cemgil_sigma=0.04):
    if not R or not E:
        return 0.0, 0.0
    s = float(cemgil_sigma)
    accs = []
    for V in variations(R):
        a = math.fsum(math.exp(-(_f(min(abs(b - e) for e in E)) ** 2) / (2.0 * s * s)) for b in V)
        accs.append(a / (0.5 * (len(E) + len(V))))
    return accs[0], max(accs)


def goto(R, E, goto_threshold=0.35, goto_mu=0.2, goto_sigma=0.2):
    if not R or not E:
        return 0.0
    N = len(R)
    err = [1] * N
    for n in range(1, N - 1):
        prev = (R[n] - R[n - 1]) / 2
        nxt = (R[n + 1] - R[n]) / 2
        lo, hi = R[n] - prev, R[n] + nxt
        inside = [e for e in E if lo <= e < hi]
        if len(inside) == 1:
            off = inside[0] - R[n]
            d = prev if off < 0 else nxt
            if d == 0:
                raise Undefined("zero inter-beat interval")
            err[n] = off / d
    thr = T(goto_threshold)
    bad = [n for n in range(N) if abs(err[n]) > thr]
    track = None
    if len(bad) < 3:
        track = err[bad[0] + 1: bad[-1] - 1]
    else:
        gaps = [bad[k + 1] - bad[k] for k in range(len(bad) - 1)]
        L = max(gaps)
        k = gaps.index(L)
        if 4 * (L - 1) > (N - 2):
            track = err[bad[k]: bad[k + 1] + 1]
    if track is None or len(track) < 2:
        return 0.0       # no qualifying track, or mean / sample std undefined
    vals = [_f(v) for v in track]
    mean_abs = math.fsum(abs(v) for v in vals) / len(vals)
    mu = math.fsum(vals) / len(vals)
    std = math.sqrt(math.fsum((v - mu) ** 2 for v in vals) / (len(vals) - 1))
    ok = _lt(mean_abs, float(goto_mu)) and _lt(std, float(goto_sigma))
    return 1.0 if ok else 0.0


def _quant(x, o):
    """10 ms quantisation ceil((x - o) * 100), exact.  On decimal (real-data) times the exact value can lie within
    rounding distance of an integer, where binary64 arithmetic may legitimately step to the other side: such a state
    is outside what the definition decides (skipped and counted by the callers)."""
    v = (x - o) * 100
    c = math.ceil(v)
    if abs(v - round(v)) < Fr(1, 10 ** 9) and math.ceil((float(x) - float(o)) * 100.0) != c:
        raise Undefined("beat time within rounding distance of a 10 ms quantisation step")
    return c


def p_score_precondition(R, E, p_score_threshold=0.2):
    """The property's precondition for P-score <= 1: inside each sequence the quantised beats are
    distinct and further apart than twice the correlation window."""
    o = min(min(R), min(E))
    IR = sorted(set(_quant(x, o) for x in R))
    IE = sorted(set(_quant(x, o) for x in E))
    if len(IR) < 2:
        return False
    win = _win(IR, p_score_threshold)
    if len(IR) != len(R) or len(IE) != len(E):
        return False
    return all(b - a > 2 * win for a, b in zip(IR, IR[1:])) and all(b - a > 2 * win for a, b in zip(IE, IE[1:]))


def _win(IR, thr):
    d = sorted(b - a for a, b in zip(IR, IR[1:]))
    n = len(d)
    med = d[n // 2] if n % 2 else (d[n // 2 - 1] + d[n // 2]) / 2.0
    v = float(thr) * float(med)          # binary64 product, then round-half-even (documented: np.round)
    if abs(v - math.floor(v) - 0.5) < 1e-9 and v != math.floor(v) + 0.5:
        raise Undefined("window product within rounding distance of a tie")
    return int(round(v))


def p_score(R, E, p_score_threshold=0.2):
    if len(R) <= 1 or len(E) <= 1:
        return 0.0
    o = min(min(R), min(E))
    IR = sorted(set(_quant(x, o) for x in R))
    IE = sorted(set(_quant(x, o) for x in E))
    if len(IR) < 2:
        return 0.0      # no inter-annotation interval: "can't compute the metric, so return 0"
    win = _win(IR, p_score_threshold)
    c = sum(1 for a in IR for b in IE if abs(a - b) <= win)
    return c / max(len(R), len(E))


def continuity(R, E, continuity_phase_threshold=0.175, continuity_period_threshold=0.175):
    if len(R) <= 1 or len(E) <= 1:
        return 0.0, 0.0, 0.0, 0.0
    pt, qt = T(continuity_phase_threshold), T(continuity_period_threshold)
    cont, tot = [], []
    for V in variations(R):
        L = max(len(V), len(E))
        used = [False] * L
        succ = [0] * L
        for m in range(len(E)):
            diffs = [abs(E[m] - v) for v in V]
            md = min(diffs)
            a = diffs.index(md)
            ok = False
            if not used[a]:
                if m == 0 or a == 0:
                    ri = (V[a + 1] - V[a]) if a + 1 < len(V) else (V[a] - V[a - 1])
                    ei = (E[m + 1] - E[m]) if m + 1 < len(E) else (E[m] - E[m - 1])
                    if ri == 0:
                        # documented special case for non-unique beats: phase is 1 or inf -> never below
                        # a threshold in (0, 1]; treat thresholds > 1 as outside the documented use
                        ok = False
                        if pt > 1:
                            raise Undefined("phase threshold > 1 with zero interval")
                    else:
                        ok = abs(md / ri) < pt and abs(1 - ei / ri) < qt
                else:
                    ri = V[a] - V[a - 1]
                    ei = E[m] - E[m - 1]
                    if ri == 0:
                        ok = False       # division by a zero interval: inf / nan never pass '<'
                    else:
                        ok = abs(md / ri) < pt and abs(1 - ei / ri) < qt
                if ok:
                    used[a] = True
            succ[m] = 1 if ok else 0
        best = run = 0
        for s in succ:
            run = run + 1 if s else 0
            best = max(best, run)
        cont.append(best / L)
        tot.append(sum(succ) / L)
    return cont[0], tot[0], max(cont), max(tot)


def _entropy(A, B, bins):
    """errors of the beats B relative to the annotation A"""
    counts = [0] * bins
    for b in B:
        d = [b - a for a in A]
        ad = [abs(x) for x in d]
        c = ad.index(min(ad))
        err = d[c]
        if c == len(A) - 1:
            interval = (A[-1] - A[-2]) / 2
        elif err < 0:
            interval = (A[c] - A[c - 1]) / 2      # c == 0: the wrapped gap a_first - a_last (see DESIGN App. A)
        else:
            interval = (A[c + 1] - A[c]) / 2
        if interval == 0:
            raise Undefined("zero inter-annotation interval")
        x = (err / 2) / interval
        y = x + Fr(1, 2) if isinstance(x, Fr) else x + 0.5
        y = y - math.ceil(y)            # in (-1, 0]
        x = y + (Fr(1, 2) if isinstance(y, Fr) else 0.5)      # in (-1/2, 1/2]
        pos = (x + (Fr(1, 2) if isinstance(x, Fr) else 0.5)) * bins
        k = math.floor(pos)
        fpos = float(pos)
        if 0 < round(fpos) < bins and abs(fpos - round(fpos)) < 1e-7:
            raise Undefined("beat error on a histogram bin edge")
        if k >= bins:
            k = bins - 1
        counts[k] += 1
    n = float(sum(counts))
    return -math.fsum((c / n) * math.log2(c / n) for c in counts if c)


def information_gain(R, E, bins=41):
    if len(R) <= 1 or len(E) <= 1:
        return 0.0
    hf = _entropy(R, E, bins)
    hb = _entropy(E, R, bins)
    norm = math.log2(bins)
    return (norm - max(hf, hb)) / norm


def trim(beats, min_beat_time=5.0):
    return [b for b in beats if b >= T(min_beat_time)] if beats and isinstance(beats[0], Fr) else \
        [b for b in beats if b >= min_beat_time]


EVAL_KEYS = ("F-measure", "Cemgil", "Cemgil Best Metric Level", "Goto", "P-score",
             "Correct Metric Level Continuous", "Correct Metric Level Total",
             "Any Metric Level Continuous", "Any Metric Level Total", "Information gain")


def evaluate(R, E, **kw):
    def pick(*names):
        return {k: kw[k] for k in names if k in kw}
    R = trim(R, **pick("min_beat_time"))
    E = trim(E, **pick("min_beat_time"))
    out = {}
    out["F-measure"] = f_measure(R, E, **pick("f_measure_threshold"))
    out["Cemgil"], out["Cemgil Best Metric Level"] = cemgil(R, E, **pick("cemgil_sigma"))
    out["Goto"] = goto(R, E, **pick("goto_threshold", "goto_mu", "goto_sigma"))
    out["P-score"] = p_score(R, E, **pick("p_score_threshold"))
    (out["Correct Metric Level Continuous"], out["Correct Metric Level Total"],
     out["Any Metric Level Continuous"], out["Any Metric Level Total"]) = continuity(
        R, E, **pick("continuity_phase_threshold", "continuity_period_threshold"))
    out["Information gain"] = information_gain(R, E, **pick("bins"))
    return out
