"""Reference model of chord labels: recogniser + encoder + rule vocabularies.

Written from the documentation, not from the implementation:

* syntax: the grammar of Harte's thesis (cited by the module docstring of mir_eval.chord as *the* label
  syntax)::

      chord     ::= "N" | "X"
                  | note ":" shorthand [ "(" deglist ")" ] [ "/" degree ]
                  | note ":" "(" deglist ")" [ "/" degree ]
                  | note [ "/" degree ]
      note      ::= natural modifiers          natural  ::= A | B | C | D | E | F | G
      modifiers ::= "b"* | "#"*                (homogeneous runs, cf. the documented spellings 'C#', 'Gbb', 'b6', '#5')
      deglist   ::= ["*"] degree { "," ["*"] degree }
      degree    ::= modifiers interval         interval ::= 1 | 2 | ... | 13
      shorthand ::= one of the 26 names of SHORTHANDS

  "X" is mir_eval's documented addition (X_CHORD), "N" is the documented no-chord label.
* semantics: pitch classes count from C (C:0, D:2, E:4, F:5 ...); a scale degree is the *diatonic interval
  relative to the root* (major-scale steps) shifted by its modifiers; shorthands are Harte's degree lists;
  "*" omits a degree; the root is present unless omitted; a label without shorthand and without degree list is
  a major triad; ``reduce_extended_chords`` folds degrees beyond the octave back into it, otherwise they are
  discarded; the bass is a degree folded into one octave, always inserted into the bitmap unless
  ``strict_bass_intervals`` demands that it already is a chord tone (then: InvalidChordException).

Plain Python only; a recursive-descent parser with an explicit cursor (no regular expressions).
"""

NATURALS = ("C", "D", "E", "F", "G", "A", "B")
_MAJOR_STEPS = (2, 2, 1, 2, 2, 2, 1)


def diatonic(n):
    """Semitones from the root up to the n-th degree of the major scale (n >= 1, continues past the octave)."""
    s = 0
    for i in range(n - 1):
        s += _MAJOR_STEPS[i % 7]
    return s


NATURAL_PC = dict((letter, diatonic(i + 1)) for i, letter in enumerate(NATURALS))

# Harte's shorthand definitions as degree lists (root implied)
SHORTHANDS = {
    "maj": "3,5", "min": "b3,5", "dim": "b3,b5", "aug": "3,#5",
    "maj7": "3,5,7", "min7": "b3,5,b7", "7": "3,5,b7", "dim7": "b3,b5,bb7", "hdim7": "b3,b5,b7",
    "minmaj7": "b3,5,7", "maj6": "3,5,6", "min6": "b3,5,6",
    "9": "3,5,b7,9", "maj9": "3,5,7,9", "min9": "b3,5,b7,9",
    "11": "3,5,b7,9,11", "maj11": "3,5,7,9,11", "min11": "b3,5,b7,9,11",
    "13": "3,5,b7,9,11,13", "maj13": "3,5,7,9,11,13", "min13": "b3,5,b7,9,11,13",
    "sus2": "2,5", "sus4": "4,5", "1": "", "5": "5", "aug7": "3,#5,b7",
}
# shorthands of the grammar for which mir_eval documents no semitone content (absent from the QUALITIES table):
# encoding them is documented to fail with InvalidChordException("Unsupported chord quality shorthand")
UNSUPPORTED = frozenset(["aug7", "maj11"])

_DIGITS = "0123456789"
_INTERVALS = frozenset(str(i) for i in range(1, 14))
_SH_CHARS = frozenset("abcdefghijklmnopqrstuvwxyz0123456789")


class Label(object):
    __slots__ = ("kind", "letter", "mods", "shorthand", "degrees", "bass")

    def __init__(self, kind, letter=None, mods=0, shorthand=None, degrees=None, bass=None):
        self.kind = kind            # "N" | "X" | "chord"
        self.letter = letter
        self.mods = mods            # +k sharps / -k flats
        self.shorthand = shorthand  # str | None
        self.degrees = degrees      # tuple of (omit, mods, number) in textual order | None
        self.bass = bass            # (mods, number) | None

    def tail_key(self):
        return (self.shorthand, self.degrees, self.bass)


class _Cursor(object):
    def __init__(self, s):
        self.s = s
        self.i = 0
        self.n = len(s)

    def peek(self):
        return self.s[self.i] if self.i < self.n else ""

    def modifiers(self):
        c = self.peek()
        if c != "b" and c != "#":
            return 0
        k = 0
        while self.peek() == c:
            k += 1
            self.i += 1
        return k if c == "#" else -k

    def degree(self):
        m = self.modifiers()
        j = self.i
        while self.peek() != "" and self.peek() in _DIGITS:
            self.i += 1
        tok = self.s[j:self.i]
        if tok not in _INTERVALS:
            return None
        return (m, int(tok))

    def deglist_paren(self):
        """'(' deglist ')' -> tuple of (omit, mods, number) or None."""
        if self.peek() != "(":
            return None
        self.i += 1
        out = []
        while True:
            omit = False
            if self.peek() == "*":
                omit = True
                self.i += 1
            d = self.degree()
            if d is None:
                return None
            out.append((omit, d[0], d[1]))
            if self.peek() == ",":
                self.i += 1
                continue
            break
        if self.peek() != ")":
            return None
        self.i += 1
        return tuple(out)

    def shorthand(self):
        j = self.i
        while self.peek() != "" and self.peek() in _SH_CHARS:
            self.i += 1
        tok = self.s[j:self.i]
        return tok if tok in SHORTHANDS else None


def parse(s):
    """Recognise a label; returns a Label or None (not derivable from the grammar)."""
    if s == "N":
        return Label("N")
    if s == "X":
        return Label("X")
    p = _Cursor(s)
    letter = p.peek()
    if letter == "" or letter not in NATURAL_PC:
        return None
    p.i += 1
    mods = p.modifiers()
    shorthand = degrees = bass = None
    if p.peek() == ":":
        p.i += 1
        if p.peek() == "(":
            degrees = p.deglist_paren()
            if degrees is None:
                return None
        else:
            shorthand = p.shorthand()
            if shorthand is None:
                return None
            if p.peek() == "(":
                degrees = p.deglist_paren()
                if degrees is None:
                    return None
    if p.peek() == "/":
        p.i += 1
        bass = p.degree()
        if bass is None:
            return None
    if p.i != p.n:
        return None
    return Label("chord", letter, mods, shorthand, degrees, bass)


def accepts(s):
    return parse(s) is not None


# --------------------------------------------------------------------------- encoding
def root_pc(lab):
    return (NATURAL_PC[lab.letter] + lab.mods) % 12


def _place(sem, fold):
    """Bitmap position of a degree `sem` semitones above the root, or None when it is discarded.
    Degrees at or beyond the octave are folded only when `fold`; a degree below the root (b1) denotes the
    pitch class below it."""
    if sem >= 12 and not fold:
        return None
    return sem % 12


def _parse_degs(text):
    out = []
    if text:
        for tok in text.split(","):
            m = 0
            while tok[0] in "b#":
                m += 1 if tok[0] == "#" else -1
                tok = tok[1:]
            out.append((m, int(tok)))
    return out


_SH_DEGS = dict((k, _parse_degs(v)) for k, v in SHORTHANDS.items())


class Enc(object):
    """status: 'N' | 'X' | 'ok' | 'unsupported' | 'bass-absent'
    For 'ok': root, bitmap (tuple of 12 ints, bass included), bass, tones (frozenset, before bass insertion),
    dontcare (positions whose value the documentation leaves open: added and omitted at once),
    strict_open (strictness outcome depends on such a position), raise_optional (omission without a
    shorthand: the documentation says 'omissions MUST have a quality', the grammar allows it)."""
    __slots__ = ("status", "root", "bitmap", "bass", "tones", "dontcare", "strict_open", "raise_optional",
                 "notes")


_TAIL_CACHE = {}


def _tail(shorthand, degrees, bass, fold):
    key = (shorthand, degrees, bass, fold)
    r = _TAIL_CACHE.get(key)
    if r is not None:
        return r
    notes = set()
    if shorthand is None and degrees is None:
        base = _SH_DEGS["maj"]
    elif shorthand is None:
        base = []
    else:
        base = _SH_DEGS[shorthand]
    tones = set([0])
    for (m, n) in base:
        sem = diatonic(n) + m
        p = _place(sem, fold)
        if sem >= 12:
            notes.add("extended-shorthand")
        if p is not None:
            tones.add(p)
    adds, omits = set(), set()
    for (omit, m, n) in (degrees or ()):
        sem = diatonic(n) + m
        if sem >= 12:
            notes.add("degree-beyond-octave")
        if sem < 0:
            notes.add("degree-below-root")
        p = _place(sem, fold)
        if p is None:
            continue
        (omits if omit else adds).add(p)
    for p in omits:
        if p in tones and p not in adds:
            notes.add("omission-removes-tone")
    dontcare = adds & omits
    tones = (tones | adds) - omits
    if dontcare:
        notes.add("add-omit-conflict")
    if bass is None:
        b = 0
    else:
        bsem = diatonic(bass[1]) + bass[0]
        b = bsem % 12
        if bsem >= 12 or bsem < 0:
            notes.add("bass-folded")
    bass_in = b in tones
    if not bass_in:
        notes.add("bass-not-a-chord-tone")
    raise_optional = shorthand is None and any(o for (o, _, _) in (degrees or ()))
    if raise_optional:
        notes.add("omission-without-shorthand")
    r = (frozenset(tones), frozenset(dontcare), b, bass_in, raise_optional, frozenset(notes))
    _TAIL_CACHE[key] = r
    if len(_TAIL_CACHE) > 400000:
        _TAIL_CACHE.clear()
    return r


_ENC_CACHE = {}


def _template(shorthand, degrees, bass, fold, strict):
    key = (shorthand, degrees, bass, fold, strict)
    e = _ENC_CACHE.get(key)
    if e is not None:
        return e
    e = Enc()
    e.root = -1
    tones, dontcare, b, bass_in, raise_optional, notes = _tail(shorthand, degrees, bass, fold)
    e.bass = b
    e.tones = tones
    e.dontcare = dontcare
    e.raise_optional = raise_optional
    e.notes = notes
    e.strict_open = b in dontcare
    if strict and not bass_in and not e.strict_open:
        e.status, e.bitmap = "bass-absent", None
    else:
        e.status = "ok"
        e.bitmap = tuple(1 if (i in tones or i == b) else 0 for i in range(12))
    if len(_ENC_CACHE) > 400000:
        _ENC_CACHE.clear()
    _ENC_CACHE[key] = e
    return e


def _fixed(status, bitmap, notes=()):
    e = Enc()
    e.status, e.bitmap = status, bitmap
    e.root = e.bass = -1
    e.tones = e.dontcare = frozenset()
    e.strict_open = e.raise_optional = False
    e.notes = frozenset(notes)
    return e


_ENC_N = _fixed("N", (0,) * 12)
_ENC_X = _fixed("X", (-1,) * 12)
_ENC_UNSUPPORTED = _fixed("unsupported", None, ["unsupported-shorthand"])


def encode(lab, reduce_extended_chords=False, strict_bass_intervals=False):
    """Model encoding of a parsed label (Enc objects are shared templates plus the root: do not mutate)."""
    if lab.kind == "N":
        return _ENC_N
    if lab.kind == "X":
        return _ENC_X
    if lab.shorthand in UNSUPPORTED:
        return _ENC_UNSUPPORTED
    t = _template(lab.shorthand, lab.degrees, lab.bass, bool(reduce_extended_chords),
                  bool(strict_bass_intervals))
    e = Enc()
    e.status = t.status
    e.bitmap = t.bitmap
    e.bass = t.bass
    e.tones = t.tones
    e.dontcare = t.dontcare
    e.strict_open = t.strict_open
    e.raise_optional = t.raise_optional
    e.notes = t.notes
    e.root = (NATURAL_PC[lab.letter] + lab.mods) % 12
    return e


def bitmap_of(shorthand):
    """Model bitmap of a bare shorthand on any root (no reduction, root-position bass)."""
    tones = _tail(shorthand, None, None, False)[0]
    return tuple(1 if i in tones else 0 for i in range(12))


# --------------------------------------------------------------------------- comparison vocabularies (C11)
RULES = ("root", "thirds", "thirds_inv", "triads", "triads_inv", "tetrads", "tetrads_inv", "mirex",
         "majmin", "majmin_inv", "sevenths", "sevenths_inv")

_MAJMIN = ("maj", "min")
_SEVENTHS = ("maj", "min", "maj7", "7", "min7")


def vocabulary(lab):
    """rule -> True (reference comparable: never -1) | False (always -1) | None (documentation leaves it open).

    Comparison functions encode without extended-chord reduction and without strict bass.
    * X is ignored by every rule; N belongs to every vocabulary.
    * majmin: the triad of the reference is maj or min.  "Triad" is documented as 'the quality considered
      through the #5th scale degree'; whether the #5 position itself (semitone 8) takes part is open, so the
      answer is given only when both readings (semitones 0-7 / 0-8) agree.
    * sevenths: the whole encoded bitmap is one of maj, min, maj7, 7, min7.
    * *_inv: additionally the bass must be a chord tone (majmin_inv documents 'bass in [1, 3, 5]', the
      property text says 'a chord tone'): True only if the bass is in the triad, False only if it is not a
      tone of the chord as spelled (before the bass is inserted), open in between.
    * mirex: only 'X is ignored' is documented.
    """
    out = {}
    if lab.kind == "X":
        return dict((r, False) for r in RULES)
    if lab.kind == "N":
        d = dict((r, True) for r in RULES)
        d["mirex"] = None
        return d
    e = encode(lab, False, False)
    if e.status != "ok":
        return None
    for r in ("root", "thirds", "thirds_inv", "triads", "triads_inv", "tetrads", "tetrads_inv"):
        out[r] = True
    out["mirex"] = None
    bm = e.bitmap
    in8 = any(bm[:8] == bitmap_of(q)[:8] for q in _MAJMIN)
    in9 = any(bm[:9] == bitmap_of(q)[:9] for q in _MAJMIN)
    mm = in8 if in8 == in9 else None
    out["majmin"] = mm
    sv = any(bm == bitmap_of(q) for q in _SEVENTHS)
    out["sevenths"] = sv
    bass_tone = e.bass in e.tones
    # the triad proper: root, third, fifth of the maj/min triad
    if mm:
        third = 4 if bm[4] else 3
        bass_in_triad = e.bass in (0, third, 7)
    else:
        bass_in_triad = False

    def inv(plain, in_strict):
        if plain is None:
            return None
        if plain is False:
            return False
        if not bass_tone:
            return False
        return True if in_strict else None
    out["majmin_inv"] = inv(mm, bass_in_triad)
    out["sevenths_inv"] = inv(sv, True)
    return out


def class_key(lab):
    """Encoding class of a label as seen by the comparison functions: (root, bitmap, bass)."""
    e = encode(lab, False, False)
    if e.status in ("N", "X"):
        return (e.status,)
    if e.status != "ok":
        return None
    return (e.root, e.bitmap, e.bass)


def selftest():
    # documented conventions and examples
    assert [NATURAL_PC[c] for c in "CDEF"] == [0, 2, 4, 5]
    assert accepts("G:maj(6)/5") and accepts("G#:min(*b3,*5)/5") and accepts("A:(3)/6") and accepts("C")
    assert not accepts("C:") and not accepts("H") and not accepts("C:maj()") and not accepts("C\n")
    e = encode(parse("C"))
    assert e.bitmap == (1, 0, 0, 0, 1, 0, 0, 1, 0, 0, 0, 0) and e.root == 0 and e.bass == 0
    e = encode(parse("G#:min(*b3,*5)/5"))
    assert e.root == 8 and e.bass == 7 and e.tones == frozenset([0])
    e = encode(parse("A:(3)/6"))
    assert e.root == 9 and e.bitmap == (1, 0, 0, 0, 1, 0, 0, 0, 0, 1, 0, 0)
    assert encode(parse("A:9"), True).tones == frozenset([0, 4, 7, 10, 2])
    assert encode(parse("A:9"), False).tones == frozenset([0, 4, 7, 10])
    assert len(SHORTHANDS) == 26


# =========================================================================== interval-level model (chord.evaluate)
# Written from the module docstring (rule descriptions), the function docstrings (vocabularies, "-1 if the
# comparison is out of gamut"), weighted_accuracy's docstring and evaluate()'s documented pipeline:
#   1. the estimate is cropped / padded with the no-chord label N to the span of the reference,
#   2. both annotations are cut at the union of their boundaries (common refinement),
#   3. every rule compares the two labels of each piece: 1 match, 0 mismatch, -1 reference outside the vocabulary,
#   4. score = duration-weighted mean of the comparisons over the comparable pieces; 0 by convention if none,
#   5. over/under-segmentation = 1 - directional Hamming distance (Harte 2010) between the annotations after
#      merging consecutive intervals that carry the same chord (same root, bitmap and bass with extended chords
#      reduced); seg = min of the two.
# Details the documentation leaves open are modelled AS CODED and listed in the adapter's notes:
#   * X as an *estimated* label: compared through its reserved encoding (root -1, bitmap -1): equal roots with N/X
#     references; for mirex it behaves as if it contained every pitch class;
#   * mirex ignores references with one or two tones (code comment), N-N is a match;
#   * thirds looks at the minor-third position only (sus chords count as "not minor");
#   * majmin's triad = semitones 0-7 of the encoded bitmap (bass included);
#   * *_inv vocabularies: the "bass must be a chord tone" restriction has no effect in the library (known finding
#     F22): the *_inv rules are modelled with the vocabulary of their plain rule.
from fractions import Fraction as _Fr

from mc.spec.beat import Undefined  # noqa: E402  (the one Undefined class shared by all reference models)

EVAL_KEYS = ("thirds", "thirds_inv", "triads", "triads_inv", "tetrads", "tetrads_inv", "root", "mirex", "majmin",
             "majmin_inv", "sevenths", "sevenths_inv", "underseg", "overseg", "seg")
RULE_KEYS = EVAL_KEYS[:12]
NO_CHORD = "N"

_ENC3 = {}


def enc3(label, fold=False):
    """(root, bitmap, bass) of a label string as the comparison rules see it; Undefined if it has no encoding."""
    key = (label, fold)
    r = _ENC3.get(key)
    if r is None:
        lab = parse(label)
        if lab is None:
            raise Undefined("label not grammatical")
        e = encode(lab, fold, False)
        if e.status == "ok":
            if e.dontcare:
                raise Undefined("label with add/omit conflict")
            r = (e.root, e.bitmap, e.bass)
        elif e.status in ("N", "X"):
            r = (-1, e.bitmap, -1)
        else:
            raise Undefined("label not encodable")
        _ENC3[key] = r
    return r


def _prefix8(q):
    return bitmap_of(q)[:8]


def rule_score(rule, R, E):
    """Comparison of one reference encoding R with one estimate encoding E under `rule`: 1, 0 or -1."""
    rr, rb, rbass = R
    er, eb, ebass = E
    if any(v < 0 for v in rb):
        return -1                                   # X is ignored by every rule
    same_root = rr == er
    same_bass = rbass == ebass
    if rule == "root":
        return int(same_root)
    if rule in ("thirds", "thirds_inv"):
        ok = same_root and rb[3] == eb[3]
        return int(ok and (same_bass or rule == "thirds"))
    if rule in ("triads", "triads_inv"):
        ok = same_root and rb[:8] == eb[:8]
        return int(ok and (same_bass or rule == "triads"))
    if rule in ("tetrads", "tetrads_inv"):
        ok = same_root and rb == eb
        return int(ok and (same_bass or rule == "tetrads"))
    is_n = rr < 0 and not any(rb)
    if rule in ("majmin", "majmin_inv"):
        if not (is_n or any(rb[:8] == _prefix8(q) for q in _MAJMIN)):
            return -1
        ok = same_root and rb[:8] == eb[:8]
        return int(ok and (same_bass or rule == "majmin"))
    if rule in ("sevenths", "sevenths_inv"):
        if not (is_n or any(rb == bitmap_of(q) for q in _SEVENTHS)):
            return -1
        ok = same_root and rb == eb
        return int(ok and (same_bass or rule == "sevenths"))
    if rule == "mirex":
        n = sum(1 for v in rb if v > 0)
        if 0 < n < 3:
            return -1
        if rr == -1 and er == -1:
            return 1
        rp = set((i + rr) % 12 for i in range(12) if rb[i] > 0)
        if any(v < 0 for v in eb):
            ep = set(range(12))                     # X estimate: as coded
        else:
            ep = set((i + er) % 12 for i in range(12) if eb[i] > 0)
        return int(len(rp & ep) >= 3)
    raise KeyError(rule)


def in_vocabulary(rule, label):
    """True iff a reference interval with this label is comparable under `rule` (its self-comparison is not -1)."""
    R = enc3(label)
    return rule_score(rule, R, R) != -1


def _contiguous(ivs):
    return all(ivs[i][1] == ivs[i + 1][0] for i in range(len(ivs) - 1)) and all(e > s for s, e in ivs)


def adjust_to_span(ivs, labels, t0, t1):
    """Crop / pad (with N) a gap-free annotation to [t0, t1]."""
    out = []
    for (s, e), l in zip(ivs, labels):
        if e > t0 and s < t1:
            out.append((max(s, t0), min(e, t1), l))
    if not out:
        return [(t0, t1, NO_CHORD)]
    if out[0][0] > t0:
        out.insert(0, (t0, out[0][0], NO_CHORD))
    if out[-1][1] < t1:
        out.append((out[-1][1], t1, NO_CHORD))
    return out


def merged(pieces):
    """[(s, e, label)] -> [(s, e)] with consecutive intervals of the same chord fused."""
    out, prev = [], None
    for s, e, l in pieces:
        k = enc3(l, True)
        if out and k == prev:
            out[-1] = (out[-1][0], e)
        else:
            out.append((s, e))
            prev = k
    return out


def directional_hamming(a, b):
    """Harte: sum over intervals of `a` of (length - largest overlap with one interval of `b`), over the span of a."""
    tot = 0
    for s, e in a:
        best = 0
        for s2, e2 in b:
            ov = min(e, e2) - max(s, s2)
            if ov > best:
                best = ov
        tot += (e - s) - best
    return tot / (a[-1][1] - a[0][0])


def seg_scores(ref_ivs, est_ivs):
    """(underseg, overseg, seg) of two gap-free interval lists covering the same span."""
    if not ref_ivs or not est_ivs or not _contiguous(ref_ivs) or not _contiguous(est_ivs):
        raise Undefined("segmentation scores need two gap-free annotations")
    if ref_ivs[0][0] != est_ivs[0][0] or ref_ivs[-1][1] != est_ivs[-1][1]:
        raise Undefined("segmentation scores need a common span")
    over = 1 - directional_hamming(ref_ivs, est_ivs)
    under = 1 - directional_hamming(est_ivs, ref_ivs)
    return under, over, min(under, over)


def weighted_accuracy(comparisons, weights):
    num = den = 0
    for c, w in zip(comparisons, weights):
        if c >= 0:
            num += c * w
            den += w
    if den == 0:
        return 0                                    # documented convention: nothing comparable -> 0
    return num / den


def evaluate(ref_ivs, ref_labels, est_ivs, est_labels):
    """The 15 values of chord.evaluate in EVAL_KEYS order."""
    if not ref_ivs:
        raise Undefined("empty reference")
    if not _contiguous(ref_ivs) or (est_ivs and not _contiguous(est_ivs)):
        raise Undefined("annotation with gaps or overlaps")
    t0, t1 = ref_ivs[0][0], ref_ivs[-1][1]
    est = adjust_to_span(est_ivs, est_labels, t0, t1)
    ref = [(s, e, l) for (s, e), l in zip(ref_ivs, ref_labels)]
    bounds = sorted(set([t0, t1] + [p[0] for p in ref] + [p[0] for p in est]))
    pieces = []
    for u, v in zip(bounds[:-1], bounds[1:]):
        rl = [l for s, e, l in ref if s <= u < e][0]
        el = [l for s, e, l in est if s <= u < e][0]
        pieces.append((v - u, enc3(rl), enc3(el)))
    out = []
    for rule in RULE_KEYS:
        out.append(weighted_accuracy([rule_score(rule, R, E) for _, R, E in pieces], [w for w, _, _ in pieces]))
    out.extend(seg_scores(merged(ref), merged(est)))
    return tuple(out)
