"""Reference model for mir_eval.key.weighted_score, written from the docstring table (the MIREX audio key
detection scoring) and the module conventions.

    relationship (first matching row wins)                              score
    same key and mode ('X' vs 'X' is the same uncategorised key)          1.0
    either side 'X' (and not both)                                        0.0
    estimated key a perfect fifth ABOVE the reference, same mode          0.5
    relative major/minor: reference major, estimate the minor key 9
        semitones above (= 3 below); reference minor, estimate the
        major key 3 semitones above                                       0.3
    parallel major/minor: same tonic, one major one minor                 0.2
    other                                                                 0.0

Tonic pitch classes are computed from letter + accidental (not from a table); the case of the tonic is
ignored, the mode is one of 'major', 'minor', 'other' (exact spelling).

LITERAL_TABLE = True reads rows 3 and 4 literally ("major/minor": the two modes are major and minor in
either order).  LITERAL_TABLE = False reads them as DESIGN Appendix A does ("ref major, est any different
mode ..."; "different mode, same tonic"), which differs only when exactly one side has mode 'other'.
"""
from mc.spec.beat import Undefined

LITERAL_TABLE = False

LETTER = {"c": 0, "d": 2, "e": 4, "f": 5, "g": 7, "a": 9, "b": 11}
MODES = ("major", "minor", "other")
# the 17 spellings the module accepts (no Cb, Fb, E#, B#)
SPELLINGS = ("c", "c#", "db", "d", "d#", "eb", "e", "f", "f#", "gb", "g", "g#", "ab", "a", "a#", "bb", "b")


def parse(key):
    """-> (pitch class 0..11, mode) or (None, None) for the uncategorised key 'X'."""
    if key.lower() == "x":
        return None, None
    parts = key.split()
    if len(parts) != 2:
        raise Undefined("not of the form '(key) (mode)'")
    tonic, mode = parts[0].lower(), parts[1]
    if tonic not in SPELLINGS or mode not in MODES:
        raise Undefined("not a documented key string")
    pc = LETTER[tonic[0]]
    if tonic[1:] == "#":
        pc += 1
    elif tonic[1:] == "b":
        pc -= 1
    return pc % 12, mode


def weighted_score(reference_key, estimated_key, literal=None):
    literal = LITERAL_TABLE if literal is None else literal
    rk, rm = parse(reference_key)
    ek, em = parse(estimated_key)
    if rk is None or ek is None:
        return 1.0 if (rk is None and ek is None) else 0.0
    up = (ek - rk) % 12            # semitones from the reference tonic up to the estimated tonic
    if up == 0 and rm == em:
        return 1.0
    if up == 7 and rm == em:
        return 0.5
    if literal:
        maj_min = {rm, em} == {"major", "minor"}
        if maj_min and ((rm == "major" and up == 9) or (rm == "minor" and up == 3)):
            return 0.3
        if maj_min and up == 0:
            return 0.2
        return 0.0
    if rm != em and ((rm == "major" and up == 9) or (rm == "minor" and up == 3)):
        return 0.3
    if rm != em and up == 0:
        return 0.2
    return 0.0
