"""Reference model for mir_eval.pattern, written from the documented definitions (module and function
docstrings; T. Collins, MIREX "Discovery of Repeated Themes & Sections"; DESIGN Appendix A "pattern").

An annotation is a sequence of patterns, a pattern a sequence of occurrences (the first one is the
prototype), an occurrence a sequence of (onset, midi) pairs = a point set.  Plain Python, generic over the
number type (fractions.Fraction for lattice inputs = exact; floats for fixtures).  All scores are rational
functions of intersection sizes, so the model returns exact Fractions.

Conventions fixed where the text leaves a detail open (listed in the evidence assumptions):
* occurrence P/R use the index lists (I, J) of the qualifying (reference, estimate) pattern pairs *with
  multiplicity* (Collins' Matlab ``O(I, J)``);
* first-n scores use the first min(n, n_Q) estimated patterns;
* |o| is the number of listed notes of an occurrence (repeated notes count), bound by the fixtures;
* a prototype Q is a translate of P when, both listed in the same order, the element-wise difference P - Q
  is constant to within ``tol`` between consecutive notes (both of length 1: always).
"""
import functools
from fractions import Fraction as Fr

from mc.spec.beat import Undefined

EPS = 1e-9


# ----------------------------------------------------------------------------------------- basics
def _hashable(x):
    """nested lists -> nested tuples (pattern-pair results are memoised; pure functions of their arguments)"""
    if isinstance(x, list):
        return tuple(_hashable(v) for v in x)
    return x


def n_onsets(annotation):
    return sum(len(occ) for pat in annotation for occ in pat)


def _pointset(occ):
    """distinct notes of an occurrence.  Estimates in the repository fixtures list some notes twice; the
    recorded outputs bind the convention: |o| counts the listed notes, the intersection counts distinct
    common notes (fixture conformance fails under the alternative |o| = number of distinct notes)."""
    if len(occ) == 0:
        raise Undefined("empty occurrence inside a non-empty annotation")
    return frozenset((n[0], n[1]) for n in occ)


def _check(R, E):
    for ann in (R, E):
        for pat in ann:
            if len(pat) == 0:
                raise Undefined("pattern without occurrences")


def common(o, q):
    return len(_pointset(o) & _pointset(q))


def card(o, q):
    """cardinality score |o & q| / max(|o|, |q|)"""
    return Fr(common(o, q), max(len(o), len(q)))


def f1(p, r):
    if p == 0 and r == 0:
        return Fr(0)
    return 2 * p * r / (p + r)


def mean(xs):
    xs = list(xs)
    return sum(xs, Fr(0)) / len(xs)


def _ge(a, b):
    """a >= b for an exact rational a and a binary64 threshold b, refusing near-ties that are not exact."""
    b = Fr(b)
    if a != b and abs(float(a) - float(b)) <= EPS:
        raise Undefined("similarity within rounding distance of the threshold")
    return a >= b


# ----------------------------------------------------------------------------------------- standard
@functools.lru_cache(maxsize=1 << 16)
def is_translate(P, Q, tol):
    if len(P) != len(Q):
        return False
    if len(P) == 1:
        return True
    worst = 0
    for k in range(len(P) - 1):
        for c in (0, 1):
            d = abs((P[k + 1][c] - Q[k + 1][c]) - (P[k][c] - Q[k][c]))
            if d > worst:
                worst = d
    t = Fr(tol) if isinstance(worst, (int, Fr)) else tol
    if worst != t and abs(float(worst) - float(tol)) <= EPS:
        raise Undefined("translation error within rounding distance of tol")
    return worst < t


def standard_FPR(R, E, tol=1e-5):
    R, E = _hashable(R), _hashable(E)
    if n_onsets(R) == 0 or n_onsets(E) == 0:
        return Fr(0), Fr(0), Fr(0)
    _check(R, E)
    for ann in (R, E):
        for pat in ann:
            _pointset(pat[0])
    k = sum(1 for rp in R if any(is_translate(rp[0], ep[0], tol) for ep in E))
    p, r = Fr(k, len(E)), Fr(k, len(R))
    return f1(p, r), p, r


# ----------------------------------------------------------------------------------------- establishment
@functools.lru_cache(maxsize=1 << 16)
def score_matrix(P, Q):
    """rows = occurrences of the reference pattern P, columns = occurrences of the estimated pattern Q"""
    return tuple(tuple(card(o, q) for q in Q) for o in P)


@functools.lru_cache(maxsize=1 << 16)
def pattern_pair(P, Q):
    """(establishment score, occurrence precision, occurrence recall) of one (reference, estimated) pattern pair"""
    s = score_matrix(P, Q)
    return max(max(row) for row in s), col_max_mean(s), row_max_mean(s)


def col_max_mean(M):
    return mean(max(M[i][j] for i in range(len(M))) for j in range(len(M[0])))


def row_max_mean(M):
    return mean(max(row) for row in M)


def establishment_matrix(R, E):
    return [[pattern_pair(P, Q)[0] for Q in E] for P in R]


def establishment_FPR(R, E, similarity_metric="cardinality_score"):
    R, E = _hashable(R), _hashable(E)
    if similarity_metric != "cardinality_score":
        raise Undefined("only the cardinality score is documented")
    if n_onsets(R) == 0 or n_onsets(E) == 0:
        return Fr(0), Fr(0), Fr(0)
    _check(R, E)
    S = establishment_matrix(R, E)
    p, r = col_max_mean(S), row_max_mean(S)
    return f1(p, r), p, r


# ----------------------------------------------------------------------------------------- occurrence
def occurrence_FPR(R, E, thres=0.75, similarity_metric="cardinality_score"):
    R, E = _hashable(R), _hashable(E)
    if similarity_metric != "cardinality_score":
        raise Undefined("only the cardinality score is documented")
    if n_onsets(R) == 0 or n_onsets(E) == 0:
        return Fr(0), Fr(0), Fr(0)
    _check(R, E)
    nP, nQ = len(R), len(E)
    OP = [[Fr(0)] * nQ for _ in range(nP)]
    OR = [[Fr(0)] * nQ for _ in range(nP)]
    I, J = [], []
    for i, P in enumerate(R):
        for j, Q in enumerate(E):
            best, p_ij, r_ij = pattern_pair(P, Q)
            if _ge(best, thres):
                OP[i][j] = p_ij     # mean over the estimated occurrences of their best similarity
                OR[i][j] = r_ij     # mean over the reference occurrences of their best similarity
                I.append(i)
                J.append(j)
    if not I:
        return Fr(0), Fr(0), Fr(0)
    p = mean(max(OP[i][j] for i in I) for j in J)
    r = mean(max(OR[i][j] for j in J) for i in I)
    return f1(p, r), p, r


# ----------------------------------------------------------------------------------------- three layer
def layer1(o, q):
    c = common(o, q)
    return f1(Fr(c, len(o)), Fr(c, len(q)))


@functools.lru_cache(maxsize=1 << 16)
def layer2(P, Q):
    M = [[layer1(o, q) for q in Q] for o in P]
    return f1(col_max_mean(M), row_max_mean(M))


def three_layer_FPR(R, E):
    R, E = _hashable(R), _hashable(E)
    if n_onsets(R) == 0 or n_onsets(E) == 0:
        return Fr(0), Fr(0), Fr(0)
    _check(R, E)
    M = [[layer2(P, Q) for Q in E] for P in R]
    p, r = col_max_mean(M), row_max_mean(M)
    return f1(p, r), p, r


# ----------------------------------------------------------------------------------------- first n
def _n(n):
    if int(n) != n or n < 1:
        raise Undefined("n must be a positive integer")
    return int(n)


def first_n_three_layer_P(R, E, n=5):
    R, E = _hashable(R), _hashable(E)
    if n_onsets(R) == 0 or n_onsets(E) == 0:
        return Fr(0)
    E = E[:min(_n(n), len(E))]
    if n_onsets(E) == 0:
        return Fr(0)
    return three_layer_FPR(R, E)[1]


def first_n_target_proportion_R(R, E, n=5):
    R, E = _hashable(R), _hashable(E)
    if n_onsets(R) == 0 or n_onsets(E) == 0:
        return Fr(0)
    E = E[:min(_n(n), len(E))]
    if n_onsets(E) == 0:
        return Fr(0)
    return establishment_FPR(R, E)[2]


# ----------------------------------------------------------------------------------------- evaluate
EVAL_KEYS = ("F", "P", "R", "F_est", "P_est", "R_est", "F_occ.5", "P_occ.5", "R_occ.5",
             "F_occ.75", "P_occ.75", "R_occ.75", "F_3", "P_3", "R_3", "FFP", "FFTP_est")


def evaluate(R, E, **kw):
    """Documented behaviour of pattern.evaluate: the occurrence scores at c = .5 and c = .75 (MIREX), n = 5
    unless given; other keyword arguments go to the functions that accept them."""
    def pick(*names):
        return {k: kw[k] for k in names if k in kw}
    out = {}
    out["F"], out["P"], out["R"] = standard_FPR(R, E, **pick("tol"))
    out["F_est"], out["P_est"], out["R_est"] = establishment_FPR(R, E, **pick("similarity_metric"))
    out["F_occ.5"], out["P_occ.5"], out["R_occ.5"] = occurrence_FPR(R, E, thres=0.5, **pick("similarity_metric"))
    out["F_occ.75"], out["P_occ.75"], out["R_occ.75"] = occurrence_FPR(R, E, thres=0.75,
                                                                      **pick("similarity_metric"))
    out["F_3"], out["P_3"], out["R_3"] = three_layer_FPR(R, E)
    n = kw.get("n", 5)
    out["FFP"] = first_n_three_layer_P(R, E, n=n)
    out["FFTP_est"] = first_n_target_proportion_R(R, E, n=n)
    return out
