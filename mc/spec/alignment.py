"""Reference model for mir_eval.alignment, written from the function docstrings (Fujihara et al. 2011 /
MIREX 2020 lyrics alignment for PCS; Lize-Masclef et al. 2021 for the perceptual score).

With d_i = est_i - ref_i over the N paired timestamps:

    pc         = #{i : |d_i| <= window} / N                                   (window default 0.3 s)
    mae, aae   = median_i |d_i| , mean_i |d_i|
    pcs        = sum_i max(0, min(ref_end_i, est_end_i) - max(ref_start_i, est_start_i)) / D
                 duration given : segments (0,t1),(t1,t2),...,(tN,duration) on both sides, D = duration
                 duration None  : segments (t1,t2),...,(tN-1,tN),             D = ref_N - ref_1   (MIREX)
    perceptual = mean_i  skewnorm_pdf(d_i; a=1.12244251, loc=-0.22270315, scale=0.29779424) / 1.6857
                 skewnorm_pdf(x; a, loc, scale) = 2/scale * phi(z) * Phi(a z),  z = (x - loc)/scale

Generic over the number type (Fractions = exact, floats = fixtures).  `Undefined`: inputs outside the
documented domain (documented ValueError) or a deviation within rounding distance of the window.
"""
import math
from fractions import Fraction as Fr

from mc.spec.beat import Undefined

EPS = 1e-9


def _exact(*seqs):
    return all(isinstance(v, Fr) for s in seqs for v in s)


def valid(R, E):
    """Documented conventions: non-empty, equal length, non-negative, in increasing (non-decreasing) order."""
    if len(R) == 0 or len(R) != len(E):
        return False
    for s in (R, E):
        if any(v < 0 for v in s):
            return False
        if any(b < a for a, b in zip(s, s[1:])):
            return False
    return True


def _check(R, E):
    if not valid(R, E):
        raise Undefined("outside the documented input domain (ValueError documented)")


def deviations(R, E):
    return [abs(r - e) for r, e in zip(R, E)]


def percentage_correct(R, E, window=0.3, eps=EPS):
    _check(R, E)
    w = Fr(window) if _exact(R, E) else float(window)
    n = 0
    for d in deviations(R, E):
        if d != w and abs(float(d) - float(w)) <= eps:
            raise Undefined("deviation within rounding distance of the window")
        if d <= w:
            n += 1
    return Fr(n, len(R)) if _exact(R, E) else n / float(len(R))


def _median(vals):
    s = sorted(vals)
    n = len(s)
    if n % 2:
        return s[n // 2]
    return (s[n // 2 - 1] + s[n // 2]) / 2


def absolute_error(R, E):
    _check(R, E)
    d = deviations(R, E)
    if _exact(R, E):
        return _median(d), sum(d) / len(d)
    return _median(d), math.fsum(d) / len(d)


def pcs_defined(R, E, duration=None):
    if not valid(R, E):
        return False
    if duration is None:
        return R[-1] - R[0] > 0
    return duration > 0 and max(R) <= duration and max(E) <= duration


def percentage_correct_segments(R, E, duration=None):
    _check(R, E)
    if not pcs_defined(R, E, duration):
        raise Undefined("PCS not computable (documented ValueError): reference timestamps all identical / "
                        "timestamp beyond duration")
    exact = _exact(R, E)
    if duration is None:
        rs, re_ = list(R[:-1]), list(R[1:])
        es, ee = list(E[:-1]), list(E[1:])
        D = R[-1] - R[0]
    else:
        D = Fr(duration) if exact else float(duration)
        zero = Fr(0) if exact else 0.0
        rs, re_ = [zero] + list(R), list(R) + [D]
        es, ee = [zero] + list(E), list(E) + [D]
    parts = []
    for a0, a1, b0, b1 in zip(rs, re_, es, ee):
        ov = min(a1, b1) - max(a0, b0)
        parts.append(ov if ov > 0 else 0)
    tot = sum(parts) if exact else math.fsum(parts)
    return tot / D


SKEW, LOC, SCALE, NORM = 1.12244251, -0.22270315, 0.29779424, 1.6857


def skewnorm_pdf(x, a, loc, scale):
    z = (x - loc) / scale
    phi = math.exp(-0.5 * z * z) / math.sqrt(2.0 * math.pi)
    Phi = 0.5 * (1.0 + math.erf(a * z / math.sqrt(2.0)))
    return 2.0 / scale * phi * Phi


def karaoke_perceptual_metric(R, E):
    _check(R, E)
    vals = [skewnorm_pdf(float(e - r), SKEW, LOC, SCALE) / NORM for r, e in zip(R, E)]
    return math.fsum(vals) / len(vals)


EVAL_KEYS = ("pc", "mae", "aae", "pcs", "perceptual")


def evaluate(R, E, **kw):
    out = {}
    out["pc"] = percentage_correct(R, E, **{k: kw[k] for k in ("window",) if k in kw})
    out["mae"], out["aae"] = absolute_error(R, E)
    out["pcs"] = percentage_correct_segments(R, E, **{k: kw[k] for k in ("duration",) if k in kw})
    out["perceptual"] = karaoke_perceptual_metric(R, E)
    return out
