"""Reference model of the documented mir_eval text annotation formats (property C20).

Standard library only; nothing here imports mir_eval, numpy or ``re`` and nothing calls
``float(str)``: numbers are scanned by hand into an exact rational and rounded to binary64 by
integer true division (correctly rounded in CPython), so the expected bits are obtained by a
route that shares nothing with the string->double parser used by the library.

Three independent pieces:

* ``expected_structure``  the structure a loader must return for an *abstract* annotation (a list
  of rows of field texts) - built from the annotation, never by parsing the rendered file;
* ``model_parse_delimited`` a hand-written scanner for a rendered delimited file (comment lines,
  delimiter semantics, per-column conversion) used (a) to cross-check the builder on every
  well-formed file (a mismatch is a harness error) and (b) to decide, on the fault side, whether
  a corrupted row is malformed (wrong number of columns / unparsable number) or still a legal row;
* ``PatternMachine`` / ``patterns_by_splitting`` two formulations of the MIREX-2013 pattern file
  format (explicit state machine, declarative split) that must agree with each other.

Canonical form of values (what ``canon`` in props/C20.py produces from real objects):
  ('nd', 'f8', shape, (hex64, ...))   float64 ndarray, row-major, every element as big-endian bytes
  ('nd', 'i',  shape, (int, ...))     integer ndarray
  ('list', (...)) ('tuple', (...)) ('str', s) ('float', hex64)
"""
import struct


class NotANumber(Exception):
    pass


# --------------------------------------------------------------------------- numbers
_DIGITS = "0123456789"


def scan_decimal(text):
    """ASCII decimal literal ``[+-] digits [. digits] [(e|E) [+-] digits]`` (at least one mantissa
    digit) -> (negative, mantissa_int, exp10).  Raises NotANumber for anything else."""
    s = text
    n = len(s)
    i = 0
    neg = False
    if i < n and s[i] in "+-":
        neg = s[i] == "-"
        i += 1
    j = i
    while j < n and s[j] in _DIGITS:
        j += 1
    ip = s[i:j]
    fp = ""
    if j < n and s[j] == ".":
        k = j + 1
        while k < n and s[k] in _DIGITS:
            k += 1
        fp = s[j + 1:k]
        j = k
    if not ip and not fp:
        raise NotANumber(text)
    e = 0
    if j < n and s[j] in "eE":
        k = j + 1
        esign = 1
        if k < n and s[k] in "+-":
            esign = -1 if s[k] == "-" else 1
            k += 1
        m = k
        while m < n and s[m] in _DIGITS:
            m += 1
        if m == k:
            raise NotANumber(text)
        e = esign * int(s[k:m])
        j = m
    if j != n:
        raise NotANumber(text)
    return neg, int((ip + fp) or "0"), e - len(fp)


_NUM_CACHE = {}


def num_value(text):
    """The binary64 nearest to the decimal literal (ties to even), sign of zero preserved."""
    x = _NUM_CACHE.get(text)
    if x is None:
        x = _NUM_CACHE[text] = _num_value(text)
    return x


def _num_value(text):
    neg, mant, e10 = scan_decimal(text)
    if e10 >= 0:
        x = float(mant * 10 ** e10)          # int -> float is correctly rounded
    else:
        x = mant / 10 ** (-e10)              # int / int true division is correctly rounded
    return -x if neg else x


def int_value(text):
    s = text
    if s[:1] in ("+", "-"):
        body = s[1:]
    else:
        body = s
    if not body or any(c not in _DIGITS for c in body):
        raise NotANumber(text)
    v = int(body)
    return -v if s[:1] == "-" else v


def bits(x):
    return struct.pack(">d", x).hex()


# --------------------------------------------------------------------------- formats
# column kinds: 'f' numeric (float), 's' string
FORMATS = {
    "events": ("f",),
    "labeled_events": ("f", "s"),
    "intervals": ("f", "f"),
    "labeled_intervals": ("f", "f", "s"),
    "valued_intervals": ("f", "f", "f"),
    "time_series": ("f", "f"),
    "key": ("s", "s"),
    "tempo": ("f", "f", "f"),
}
NUMERIC_ONLY = ("events", "intervals", "valued_intervals", "time_series", "tempo")

# delimiter styles: name -> (delimiter keyword or None for the default, text written between fields,
#                            semantics used by the model scanner)
STYLES = {
    "ws1": (None, " ", "ws"),
    "wst": (None, "\t", "ws"),
    "ws2": (None, "  ", "ws"),
    "wsmix": (None, " \t ", "ws"),
    "comma": (",", ",", "comma"),
    "tab": ("\t", "\t", "tab"),
    "wscomma": (r"\s*,\s*", " , ", "wscomma"),
    "wscomma0": (r"\s*,\s*", ",", "wscomma"),
}


def _farr(vals, shape):
    return ("nd", "f8", tuple(shape), tuple(bits(v) for v in vals))


def expected_structure(loader, rows, dtype="float"):
    """Structure documented for ``loader`` when the file encodes ``rows`` (lists of field texts,
    in file order).  Numeric fields are converted with ``num_value``."""
    n = len(rows)
    if loader == "events":
        return _farr([num_value(r[0]) for r in rows], (n,))
    if loader == "labeled_events":
        return ("tuple", (_farr([num_value(r[0]) for r in rows], (n,)),
                          ("list", tuple(("str", r[1]) for r in rows))))
    if loader == "intervals":
        flat = [num_value(t) for r in rows for t in r[:2]]
        return _farr(flat, (n, 2))
    if loader == "labeled_intervals":
        flat = [num_value(t) for r in rows for t in r[:2]]
        return ("tuple", (_farr(flat, (n, 2)), ("list", tuple(("str", r[2]) for r in rows))))
    if loader == "valued_intervals":
        flat = [num_value(t) for r in rows for t in r[:2]]
        return ("tuple", (_farr(flat, (n, 2)), _farr([num_value(r[2]) for r in rows], (n,))))
    if loader == "time_series":
        return ("tuple", (_farr([num_value(r[0]) for r in rows], (n,)),
                          _farr([num_value(r[1]) for r in rows], (n,))))
    if loader == "key":
        (scale, mode), = rows
        return ("str", scale + " " + mode)          # documented form '(key) (mode)'
    if loader == "tempo":
        (t1, t2, w), = rows
        return ("tuple", (_farr([num_value(t1), num_value(t2)], (2,)), ("float", bits(num_value(w)))))
    if loader == "ragged_time_series":
        times = _farr([num_value(r[0]) for r in rows], (n,))
        vals = []
        for r in rows:
            if dtype == "int":
                vals.append(("nd", "i", (len(r) - 1,), tuple(int_value(t) for t in r[1:])))
            else:
                vals.append(_farr([num_value(t) for t in r[1:]], (len(r) - 1,)))
        return ("tuple", (times, ("list", tuple(vals))))
    raise KeyError(loader)


def expected_patterns(patterns):
    """patterns: list of patterns; pattern: list of occurrences; occurrence: list of (onset_text, midi_text)."""
    return ("list", tuple(
        ("list", tuple(
            ("list", tuple(("tuple", (("float", bits(num_value(a))), ("float", bits(num_value(b)))))
                           for a, b in occ))
            for occ in pat))
        for pat in patterns))


# --------------------------------------------------------------------------- documented outcome classes
KEY_NAMES = ("c", "c#", "db", "d", "d#", "eb", "e", "f", "f#", "gb", "g", "g#", "ab", "a", "a#", "bb", "b")
MAX_EVENT_TIME = 30000


def classify(loader, rows):
    """What the property demands for a file whose data rows are ``rows`` (all individually well
    formed): 'value' | 'error:multiline' | 'error:weight' | 'undemanded'."""
    if loader in ("key", "tempo"):
        if len(rows) >= 2:
            return "error:multiline"
        if len(rows) == 0:
            return "undemanded"           # "should contain only one row": nothing is promised for none
        if loader == "tempo":
            w = num_value(rows[0][2])
            if not (0 <= w <= 1):
                return "error:weight"
    return "value"


def convention_violations(loader, rows):
    """Names of the task conventions that the (parsable) content clearly violates; only
    unambiguous violations are listed (the oracle then demands 'returned with a warning')."""
    out = []
    if loader in ("events", "labeled_events"):
        ts = [num_value(r[0]) for r in rows]
        if any(b < a for a, b in zip(ts, ts[1:])):
            out.append("events-not-increasing")
        if any(t > MAX_EVENT_TIME for t in ts):
            out.append("event-beyond-max-time")
    elif loader in ("intervals", "labeled_intervals", "valued_intervals"):
        for r in rows:
            a, b = num_value(r[0]), num_value(r[1])
            if a < 0 or b < 0:
                out.append("negative-interval-time")
            if b <= a:
                out.append("non-positive-duration")
    elif loader == "key" and len(rows) == 1:
        scale, mode = rows[0]
        toks = [t for t in _ws_split(mode) if t]
        if len(toks) != 1:
            out.append("key-not-two-words")
        elif scale.lower() not in KEY_NAMES + ("x",):
            out.append("key-unknown-tonic")
        elif mode.lower() not in ("major", "minor", "other"):
            out.append("key-unknown-mode")
    elif loader == "tempo" and len(rows) == 1:
        t1, t2 = num_value(rows[0][0]), num_value(rows[0][1])
        if t1 < 0 or t2 < 0:
            out.append("negative-tempo")
        elif t1 == 0 and t2 == 0:
            out.append("both-tempi-zero")
    return sorted(set(out))


# --------------------------------------------------------------------------- rendering
def render_lines(rows, sep, clines=(), header=None):
    """Physical lines of the file (without terminators) and, for every data row, its 1-based
    physical line number.  ``clines`` = [(pos, text)]: comment line placed before data row ``pos``
    (pos == len(rows): after the last row), several at one pos keep their order."""
    lines = []
    where = []
    if header is not None:
        lines.append(header)
    for i in range(len(rows) + 1):
        for pos, text in clines:
            if pos == i:
                lines.append(text)
        if i < len(rows):
            lines.append(sep.join(rows[i]))
            where.append(len(lines))
    return lines, where


def render_text(lines, eol="\n", trail=True):
    if not lines:
        return ""
    return eol.join(lines) + (eol if trail else "")


# --------------------------------------------------------------------------- model scanner
def _strip(s):
    a, b = 0, len(s)
    while a < b and s[a].isspace():
        a += 1
    while b > a and s[b - 1].isspace():
        b -= 1
    return s[a:b]


def _ws_split(s):
    out, cur, inws = [], "", False
    for c in s:
        if c.isspace():
            if not inws:
                out.append(cur)
                cur = ""
                inws = True
        else:
            cur += c
            inws = False
    out.append(cur)
    return out


def split_fields(line, sem, ncols=None):
    """Fields of one physical line (terminator and surrounding blanks removed first).  At most
    ``ncols`` fields: the last one keeps any further delimiters (labels with inner whitespace)."""
    s = _strip(line)
    fields = []
    pos = 0
    n = len(s)
    while True:
        if ncols is not None and len(fields) == ncols - 1:
            fields.append(s[pos:])
            return fields
        # find next delimiter occurrence [a, b) at or after pos
        a = b = None
        if sem == "ws":
            i = pos
            while i < n and not s[i].isspace():
                i += 1
            if i < n:
                a = i
                while i < n and s[i].isspace():
                    i += 1
                b = i
        elif sem in ("comma", "tab"):
            ch = "," if sem == "comma" else "\t"
            i = s.find(ch, pos)
            if i >= 0:
                a, b = i, i + 1
        elif sem == "wscomma":
            i = s.find(",", pos)
            if i >= 0:
                a = i
                while a > pos and s[a - 1].isspace():
                    a -= 1
                b = i + 1
                while b < n and s[b].isspace():
                    b += 1
        else:
            raise KeyError(sem)
        if a is None:
            fields.append(s[pos:])
            return fields
        fields.append(s[pos:a])
        pos = b


def is_comment(line, markers):
    return any(line.startswith(m) for m in markers)


def model_row(line, kinds, sem):
    """('ok', fields) if the line is a legal row of the format, else ('err', why)."""
    f = split_fields(line, sem, len(kinds))
    if len(f) != len(kinds):
        return ("err", "columns:%d" % len(f))
    for t, k in zip(f, kinds):
        if k == "f":
            try:
                num_value(t)
            except NotANumber:
                return ("err", "number:%s" % t)
    return ("ok", f)


def model_ragged_row(line, sem, dtype):
    f = split_fields(line, sem, None)
    try:
        num_value(f[0])
    except NotANumber:
        return ("err", "time:%s" % f[0])
    for t in f[1:]:
        try:
            int_value(t) if dtype == "int" else num_value(t)
        except NotANumber:
            return ("err", "value:%s" % t)
    return ("ok", f)


def model_parse(loader, lines, sem, markers, dtype="float", header=False):
    """Parse physical lines -> ('rows', [fields...]) or ('err', 1-based line number, why)."""
    rows = []
    for no, line in enumerate(lines, 1):
        if header and no == 1:
            continue
        if is_comment(line, markers):
            continue
        if loader == "ragged_time_series":
            r = model_ragged_row(line, sem, dtype)
        else:
            r = model_row(line, FORMATS[loader], sem)
        if r[0] == "err":
            return ("err", no, r[1])
        rows.append(r[1])
    return ("rows", rows)


# --------------------------------------------------------------------------- MIREX pattern files
# line classes: 'P' pattern header ("pattern<k>"), 'O' occurrence header ("occurrence<k>"),
# ('D', onset_text, midi_text) data line "onset, midi".
class PatternMachine(object):
    """Explicit state machine for the MIREX 2013 pattern format

        file       := pattern+
        pattern    := P occurrence+
        occurrence := O D+

    States: TOP (no pattern open), PAT (pattern open, no occurrence open), OCC (occurrence open).
    ``conforming`` stays True while only grammar transitions were taken.  Transitions outside the
    grammar use the lenient reading "headers open a new (pattern|occurrence), data lines go to the
    innermost open occurrence (opened implicitly), empty occurrences / patterns are not reported";
    the oracle never *demands* anything on non-conforming files."""

    def __init__(self):
        self.state = "TOP"
        self.conforming = True
        self.result = []
        self.pat = None
        self.occ = None

    def _close_occ(self):
        if self.occ is not None:
            if self.occ:
                self.pat.append(self.occ)
            else:
                self.conforming = False
            self.occ = None

    def _close_pat(self):
        self._close_occ()
        if self.pat is not None:
            if self.pat:
                self.result.append(self.pat)
            else:
                self.conforming = False
            self.pat = None

    def feed(self, tok):
        if tok == "P":
            self._close_pat()
            self.pat = []
            self.state = "PAT"
        elif tok == "O":
            if self.state == "TOP":
                self.conforming = False
                self.pat = []
            self._close_occ()
            self.occ = []
            self.state = "OCC"
        else:
            if self.state != "OCC":
                self.conforming = False
                if self.pat is None:
                    self.pat = []
                self.occ = []
                self.state = "OCC"
            self.occ.append((tok[1], tok[2]))

    def finish(self):
        if self.state == "TOP":
            self.conforming = False        # the grammar needs at least one pattern
        self._close_pat()
        self.state = "TOP"
        return self.result, self.conforming


def patterns_by_machine(tokens):
    m = PatternMachine()
    for t in tokens:
        m.feed(t)
    return m.finish()


def patterns_by_splitting(tokens):
    """Declarative formulation: cut the token list at P, each piece at O, drop empty pieces."""
    def cut(seq, mark):
        pieces, cur = [], []
        for t in seq:
            if t == mark:
                pieces.append(cur)
                cur = []
            else:
                cur.append(t)
        pieces.append(cur)
        return pieces
    result = []
    for seg in cut(list(tokens), "P"):
        pat = []
        for sub in cut(seg, "O"):
            occ = [(t[1], t[2]) for t in sub]
            if occ:
                pat.append(occ)
        if pat:
            result.append(pat)
    return result


def grammar_conforming(tokens):
    """Direct recogniser of (P (O D+)+)+ written as a scan over the class string."""
    s = "".join(t if isinstance(t, str) else "D" for t in tokens)
    i, n = 0, len(s)
    if n == 0:
        return False
    while i < n:
        if s[i] != "P":
            return False
        i += 1
        nocc = 0
        while i < n and s[i] == "O":
            i += 1
            nd = 0
            while i < n and s[i] == "D":
                i += 1
                nd += 1
            if nd == 0:
                return False
            nocc += 1
        if nocc == 0:
            return False
    return True


def selftest():
    table = {"1e3": 1000.0, "+1.0": 1.0, ".5": 0.5, "5.": 5.0, "1E-3": 0.001, "7": 7.0, "-.5e+1": -5.0,
             "-0.0": -0.0, "5e-324": 5e-324, "0.1": 0.1, "123456.789012345": 123456.789012345,
             "1.7976931348623157e+308": 1.7976931348623157e308, "2.2250738585072014e-308": 2.2250738585072014e-308,
             "1e+22": 1e22, "10000000000.0": 1e10, "0.30000000000000004": 0.1 + 0.2,
             "4.35": 4.35, "2.4703282292062328e-324": 5e-324, "2.4703282292062327e-324": 0.0}
    for t, v in table.items():
        assert bits(num_value(t)) == bits(v), (t, num_value(t), v)
    for bad in ("abc", "", "1.2.3", "--1", "1e", "e5", ".", "+", "1 2", " 1", "0x10", "1_0", "nan", "inf"):
        try:
            num_value(bad)
        except NotANumber:
            pass
        else:
            raise AssertionError(bad)
    assert split_fields("  0.5 \t 1.5  a  b\tc \r\n", "ws", 3) == ["0.5", "1.5", "a  b\tc"]
    assert split_fields("0.5,1.5,x,y\n", "comma", 3) == ["0.5", "1.5", "x,y"]
    assert split_fields("0.5 , 1.5 ,x , y", "wscomma", 3) == ["0.5", "1.5", "x , y"]
    assert split_fields("0.5\t1.5", "tab", 3) == ["0.5", "1.5"]
    assert split_fields("", "ws", 2) == [""]
    assert split_fields("0.5 1 2", "ws", None) == ["0.5", "1", "2"]
    # the two pattern formulations agree on every token sequence up to length 7
    import itertools
    alpha = ["P", "O", ("D", "1.0", "60.0"), ("D", "2.5", "61.0")]
    for n in range(0, 8):
        for seq in itertools.product(alpha, repeat=n):
            r, conf = patterns_by_machine(seq)
            assert r == patterns_by_splitting(seq), seq
            assert conf == grammar_conforming(seq), seq
