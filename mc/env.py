"""Environment seams (DESIGN §7): harness-side control over sources of nondeterminism.

``poisoned_empty(module, poison)``
    Replaces the name ``np`` in ``module``'s namespace by a thin proxy whose ``empty`` (and
    ``empty_like``) return an array *filled with a chosen poison value*; every other attribute is
    forwarded to the real NumPy.  Code that forgets to initialise part of an ``np.empty`` buffer then
    returns the poison instead of whatever happened to be on the heap, so the outcome is a function of
    the (enumerated) poison choice: run the same call under two different poisons and demand identical,
    documented results.  Nothing in /repo is edited; the original binding is restored on exit.

        from mc import env
        import mir_eval.separation as sep
        with env.poisoned_empty(sep, env.POISONS[0]) as proxy:
            out = sep.bss_eval_sources_framewise(ref, est, window=1024, hop=512)
        assert proxy.calls > 0          # the seam was actually exercised

The proxy is generic: it works for any module that refers to NumPy through a module-level name
(``name="np"`` by default).
"""
import contextlib

import numpy as _real_np

# the two poisons of DESIGN §7: a huge positive and a tiny negative binary64 (neither is NaN/inf, so
# a poison can never masquerade as the documented NaN fill)
POISONS = (7.25e300, -3.5e-300)


class NumpyProxy(object):
    """Forwards everything to NumPy except ``empty`` / ``empty_like``."""

    def __init__(self, poison, real=_real_np):
        object.__setattr__(self, "_real", real)
        object.__setattr__(self, "_poison", poison)
        object.__setattr__(self, "calls", 0)          # number of poisoned allocations handed out

    def __getattr__(self, name):                      # only called when normal lookup fails
        return getattr(object.__getattribute__(self, "_real"), name)

    def __setattr__(self, name, value):
        if name == "calls":
            object.__setattr__(self, name, value)
        else:
            raise AttributeError("NumpyProxy is read-only (tried to set %r)" % name)

    def __dir__(self):
        return dir(self._real)

    def _fill(self, arr):
        object.__setattr__(self, "calls", self.calls + 1)
        if arr.size == 0:
            return arr
        try:
            if arr.dtype.kind in "fc":
                arr.fill(self._poison)
            elif arr.dtype.kind in "iu":
                arr.fill(self._real.iinfo(arr.dtype).max - 3)
            elif arr.dtype.kind == "b":
                arr.fill(True)
            elif arr.dtype.kind == "O":
                arr.fill(self._poison)
            else:
                arr.view(self._real.uint8).fill(0xA5)
        except Exception:                              # exotic dtype: leave a recognisable byte pattern
            try:
                arr.view(self._real.uint8).fill(0xA5)
            except Exception:
                pass
        return arr

    def empty(self, *args, **kwargs):
        return self._fill(self._real.empty(*args, **kwargs))

    def empty_like(self, *args, **kwargs):
        return self._fill(self._real.empty_like(*args, **kwargs))


@contextlib.contextmanager
def poisoned_empty(module, poison, name="np"):
    """Install a :class:`NumpyProxy` as ``module.<name>`` for the duration of the block.

    Yields the proxy (``proxy.calls`` counts poisoned allocations).  The previous binding is always
    restored, also when the block raises.  Nesting on the same module is refused (it would forward a
    proxy to a proxy and hide the inner poison)."""
    original = getattr(module, name)
    if isinstance(original, NumpyProxy):
        raise RuntimeError("%s.%s is already poisoned" % (getattr(module, "__name__", module), name))
    proxy = NumpyProxy(poison, original)
    setattr(module, name, proxy)
    try:
        yield proxy
    finally:
        setattr(module, name, original)


def selftest():
    import types
    m = types.ModuleType("m")
    m.np = _real_np
    exec("def f(n):\n    a = np.empty(n)\n    a[:1] = 1.0\n    return a, np.zeros(2), np.linalg.norm(a[:1])", m.__dict__)
    for p in POISONS:
        with poisoned_empty(m, p) as proxy:
            a, z, nrm = m.f(3)
        assert proxy.calls == 1 and a[0] == 1.0 and a[1] == p and a[2] == p and nrm == 1.0
        assert m.np is _real_np and z.tolist() == [0.0, 0.0]
    return True
