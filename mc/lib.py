"""Small exact helpers shared by the property modules (standard library only)."""
import itertools
from fractions import Fraction as Fr


def F(x):
    """Exact rational value of a binary64 (or int / Fraction)."""
    return Fr(x)


def max_matching(adj, nv):
    """Size of a maximum matching; ``adj[u]`` is a bitmask over V (nv <= ~12).

    Plain DP over (u index, used-V bitmask); independent of Hopcroft-Karp."""
    memo = {}
    n = len(adj)

    def go(i, used):
        if i == n:
            return 0
        k = (i, used)
        r = memo.get(k)
        if r is not None:
            return r
        best = go(i + 1, used)
        free = adj[i] & ~used
        if best < n - i:          # cannot do better than matching everyone left
            v = 0
            while free:
                if free & 1:
                    c = 1 + go(i + 1, used | (1 << v))
                    if c > best:
                        best = c
                free >>= 1
                v += 1
        memo[k] = best
        return best

    return go(0, 0)


def max_matching_kuhn(adjlists, nv):
    """Kuhn's augmenting-path algorithm (for inputs too large for the bitmask DP, e.g. fixtures)."""
    import sys
    sys.setrecursionlimit(max(10000, sys.getrecursionlimit()))
    match_v = [-1] * nv

    def try_u(u, seen):
        for v in adjlists[u]:
            if not seen[v]:
                seen[v] = True
                if match_v[v] < 0 or try_u(match_v[v], seen):
                    match_v[v] = u
                    return True
        return False
    size = 0
    for u in range(len(adjlists)):
        if try_u(u, [False] * nv):
            size += 1
    return size


def max_matching_pred(n_ref, n_est, pred):
    if n_ref > 8 or n_est > 12:
        return max_matching_kuhn([[j for j in range(n_est) if pred(i, j)] for i in range(n_ref)], n_est)
    adj = []
    for i in range(n_ref):
        m = 0
        for j in range(n_est):
            if pred(i, j):
                m |= 1 << j
        adj.append(m)
    return max_matching(adj, n_est)


def check_pairing(pairs, n_ref, n_est, pred):
    """Return None if ``pairs`` is a valid one-to-one pairing under pred, else a reason string."""
    seen_r, seen_e = set(), set()
    for p in pairs:
        if len(p) != 2:
            return "pair %r is not a 2-tuple" % (p,)
        i, j = int(p[0]), int(p[1])
        if not (0 <= i < n_ref) or not (0 <= j < n_est):
            return "index out of range %r" % ((i, j),)
        if i in seen_r:
            return "reference %d used twice" % i
        if j in seen_e:
            return "estimate %d used twice" % j
        seen_r.add(i)
        seen_e.add(j)
        if not pred(i, j):
            return "pair %r violates the tolerance predicate" % ((i, j),)
    return None


def multisets(points, max_n, min_n=0):
    """All non-decreasing tuples over ``points`` of length min_n..max_n (shortest first)."""
    for n in range(min_n, max_n + 1):
        for t in itertools.combinations_with_replacement(points, n):
            yield t


def subsets(points, max_n=None, min_n=0):
    n_max = len(points) if max_n is None else max_n
    for n in range(min_n, n_max + 1):
        for t in itertools.combinations(points, n):
            yield t


def compositions(n):
    """All compositions of n (ordered tuples of positive ints summing to n)."""
    if n == 0:
        yield ()
        return
    for first in range(1, n + 1):
        for rest in compositions(n - first):
            yield (first,) + rest


def restricted_growth(n, kmax):
    """All restricted-growth strings of length n with at most kmax distinct values."""
    def go(prefix, m):
        if len(prefix) == n:
            yield tuple(prefix)
            return
        for v in range(min(m + 1, kmax - 1) + 1):
            yield from go(prefix + [v], max(m, v))
    if n == 0:
        yield ()
    else:
        yield from go([], -1)


def round_half_even(q):
    """Round a Fraction to the nearest integer, ties to even."""
    fl = q.numerator // q.denominator
    r = q - fl
    if r > Fr(1, 2):
        return fl + 1
    if r < Fr(1, 2):
        return fl
    return fl if fl % 2 == 0 else fl + 1


def d4(x):
    """The documented transcription rule: round a distance to 4 decimals (as a binary64)."""
    n = round_half_even(Fr(x) * 10000)
    return float(Fr(n, 10000))


def close(a, b, tol=1e-9):
    import math
    if a is None or b is None:
        return a is b
    if isinstance(a, float) and math.isnan(a):
        return isinstance(b, float) and math.isnan(b)
    if isinstance(b, float) and math.isnan(b):
        return False
    return abs(a - b) <= tol


def fbeta(p, r, beta=1.0):
    if p == 0 and r == 0:
        return 0.0
    return (1 + beta ** 2) * p * r / (beta ** 2 * p + r)
