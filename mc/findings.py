"""Witness predicates for /verif/known_findings.json.

Each predicate takes the JSON form of a violating case and says whether the
case is an instance of the listed finding.  A violation is attributed to an open
finding only if property, call site, clause AND predicate all match.
"""


def _has_duplicates(seq):
    return len(set(seq)) < len(seq)


def beat_infogain_duplicates(case, observed):
    """information_gain is NaN when a sequence repeats a beat time (zero inter-beat interval)."""
    if case.get("kind") == "single":
        ref = est = case["x"]
    else:
        ref, est = case["ref"], case["est"]
    if not (_has_duplicates(ref) or _has_duplicates(est)):
        return False
    v = observed.get("Information gain") if isinstance(observed, dict) else None
    return isinstance(v, float) and v != v
