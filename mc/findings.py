"""Witness predicates for /verif/known_findings.json.

Each predicate takes the JSON form of a violating case and says whether the
case is an instance of the listed finding.  A violation is attributed to an open
finding only if property, call site, clause AND predicate all match.
"""
