"""Witness predicates for /verif/known_findings.json.

Each predicate takes the JSON form of a violating case and says whether the
case is an instance of the listed finding.  A violation is attributed to an open
finding only if property, call site, clause AND predicate all match.
"""


def _has_duplicates(seq):
    return len(set(seq)) < len(seq)


def beat_infogain_duplicates(case, observed):
    """information_gain is NaN when a sequence repeats a beat time (zero inter-beat interval)."""
    if case.get("kind") == "single":
        ref = est = case["x"]
    else:
        ref, est = case["ref"], case["est"]
    if not (_has_duplicates(ref) or _has_duplicates(est)):
        return False
    v = observed.get("Information gain") if isinstance(observed, dict) else None
    return isinstance(v, float) and v != v


def evaluate_indexerror_before_validation(case, observed):
    """segment.evaluate / chord.evaluate adjust spans before validating: 1-d interval arrays and label-count
    mismatches surface as IndexError instead of ValueError."""
    if case.get("kind") != "fault" or case.get("entry") not in ("segment.evaluate", "chord.evaluate"):
        return False
    if case.get("fault") not in ("1-d", "drop-one", "add-one"):
        return False
    return isinstance(observed, str) and observed.startswith("raised IndexError")


def evaluate_drops_malformed_outside_span(case, observed):
    """segment.evaluate / chord.evaluate adjust the estimate to the reference span before validating, so an
    estimated interval of non-positive duration lying strictly outside that span is removed and scores are returned."""
    if case.get("kind") != "fault":
        return False
    if case.get("entry") not in ("segment.evaluate[beyond-span]", "chord.evaluate[beyond-span]"):
        return False
    if not str(case.get("fault", "")).startswith(("beyond-span:", "before-span:")) or case.get("arg") != 2:
        return False
    return isinstance(observed, str) and observed.startswith("returned OrderedDict")


def multipitch_negative_frequency(case, observed):
    """util.validate_frequencies(allow_negatives=False) never rejects a negative frequency."""
    return (case.get("kind") == "fault" and case.get("entry") in ("multipitch.metrics", "multipitch.evaluate")
            and case.get("fault") == "freq-negative" and isinstance(observed, str)
            and observed.startswith("returned"))


def pattern_standard_overcount(case, observed):
    """standard_FPR precision = k / n_Q with k counted over REFERENCE prototypes: > 1 when more reference
    prototypes are translates of estimated prototypes than there are estimated patterns."""
    from mc.tasks import pattern as tp
    return tp.pattern_standard_overcount(case, observed)


def chord_inv_bass_not_chord_tone(case, observed):
    """majmin_inv / sevenths_inv: the 'bass must be a chord tone' test is vacuous because encode() inserts the bass
    into the bitmap before the test (majmin_inv(['C/6'], ['C/6']) == 1 instead of -1)."""
    rm = case.get("ref_model") or {}
    return rm.get("bass_is_chord_tone") is False


def _segment_frames(case):
    """frame label sequences (ref, est) of a segment adapter case, via the C16 model's sampler"""
    from fractions import Fraction as Fr
    from mc.spec import segment_labels as SL
    fs = (case.get("cfg") or {}).get("frame_size", 0.5)
    out = []
    if case.get("kind") == "single":
        sides = [case["x"], case["x"]]
    else:
        sides = [case["ref"], case["est"]]
    for side in sides:
        if not side:
            return None
        ivs = [(Fr(a), Fr(b)) for a, b in side[0]]
        out.append(SL.frame_labels(ivs, [str(l).lower() for l in side[1]], fs))
    return out


def _no_cocluster_pair(y):
    return len(set(y)) == len(y)


def segment_pairwise_no_pairs(case, observed):
    """pairwise precision / recall are 0/0 (NaN) when a side has no two frames in the same cluster (all
    singletons, or a single frame)."""
    if case.get("func") != "segment.pairwise":
        return False
    fr = _segment_frames(case)
    if fr is None or not (_no_cocluster_pair(fr[0]) or _no_cocluster_pair(fr[1])):
        return False
    return isinstance(observed, dict) and any(isinstance(v, float) and v != v for v in observed.values())


def segment_rand_single_frame(case, observed):
    """rand_index divides by the number of frame pairs, which is 0 for a single frame."""
    if case.get("func") != "segment.rand_index":
        return False
    fr = _segment_frames(case)
    if fr is None or len(fr[0]) != 1:
        return False
    return isinstance(observed, dict) and any(isinstance(v, float) and v != v for v in observed.values())


def transcription_ambiguous_self_matching(case, observed):
    """x scored against itself: when the identity is not the only maximum note matching (e.g. simultaneous
    quarter-tone neighbours i~k, j~k, i!~j) the library's matching may pair notes crosswise: AOR < 1, and with
    velocities the regression can reject every pair."""
    from mc.tasks import base
    if case.get("kind") != "single":
        return False
    t = base.load(case["task"])
    return bool(t.ambiguous_self_matching(base.tup(case["x"]), case.get("cfg", {}), case["func"]))
