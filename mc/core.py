"""Core of the bounded-exhaustive explorer used by every property check.

A *check* is a list of *spaces*; a space is a list of *shards*; a shard is a
plain function call ``fn(arg) -> Acc`` that enumerates every state of its slice of
the space, executes the real mir_eval code in each state and evaluates the
oracle there.  Shards run on a fork pool; their accumulators are merged in shard
order so that the outcome (and the reported minimal counterexample) is the same
on every run.

Nothing here samples: ``seed`` only selects one of a fixed menu of lattice phases.
"""
import collections
import hashlib
import json
import math
import multiprocessing as mp
import os
import signal
import subprocess
import sys
import tempfile
import time
import traceback

VERIF = os.path.dirname(os.path.dirname(os.path.abspath(__file__)))
NPROC = int(os.environ.get("VERIF_NPROC", "16"))
MAX_VIOL_PER_KEY = 5          # per shard, per (clause, site)
MAX_SAMPLES = 4
N_PHASES = 8


class HarnessError(Exception):
    """A bug in the verification machinery (never a property verdict)."""


class Hang(BaseException):
    """Raised by the watchdog when one execution of the code under test does not
    terminate within CALL_BUDGET_S (BaseException: `except Exception` cannot swallow it)."""


CALL_BUDGET_S = float(os.environ.get("VERIF_CALL_BUDGET", "90"))
_CURRENT = [None]


def _on_alarm(signum, frame):
    raise Hang()


def jsonable(x):
    """Convert numpy / tuple / set containers to plain JSON-compatible values."""
    import numpy as np
    if isinstance(x, dict):
        return {str(k): jsonable(v) for k, v in x.items()}
    if isinstance(x, (list, tuple)):
        return [jsonable(v) for v in x]
    if isinstance(x, (set, frozenset)):
        return sorted(jsonable(v) for v in x)
    if isinstance(x, np.ndarray):
        return jsonable(x.tolist())
    if isinstance(x, np.generic):
        return jsonable(x.item())
    if isinstance(x, float):
        return x
    if isinstance(x, (int, str, bool)) or x is None:
        return x
    if isinstance(x, complex):
        return [x.real, x.imag]
    try:
        from fractions import Fraction
        if isinstance(x, Fraction):
            return float(x)
    except Exception:
        pass
    return repr(x)


def digest(x):
    return hashlib.sha1(json.dumps(jsonable(x), sort_keys=True).encode()).hexdigest()[:16]


_FINDINGS = None


def load_findings():
    global _FINDINGS
    if _FINDINGS is None:
        path = os.path.join(VERIF, "known_findings.json")
        if os.path.exists(path):
            with open(path) as f:
                _FINDINGS = json.load(f).get("findings", [])
        else:
            _FINDINGS = []
    return _FINDINGS


def match_finding(pid, clause, site, case, observed=None):
    """Return the id of the *open* known finding that explains this violation."""
    from . import findings as fmod
    for ent in load_findings():
        if ent.get("status") != "open" or ent.get("property") != pid:
            continue
        if ent.get("site") != site or ent.get("clause") != clause:
            continue
        pred = getattr(fmod, ent["predicate"])
        try:
            if pred(case, observed):
                return ent["id"]
        except Exception:
            continue
    return None


class Acc(object):
    """Per-shard accumulator (picklable)."""

    def __init__(self, pid):
        self.pid = pid
        self.states = 0          # distinct explored states (inputs / configs / histories)
        self.transitions = 0     # executions of real mir_eval code / edges evaluated
        self.conform = 0         # model-vs-implementation comparisons (traces validated)
        self.nontrivial = 0      # states that are non-trivial by the check's stated rule
        self.counters = collections.Counter()
        self.viol = []           # unknown violations (capped per key)
        self.viol_count = collections.Counter()
        self.known = collections.Counter()   # finding id -> count
        self.known_example = {}
        self.samples = []
        self.outcomes = set()
        self.cur = None
        _CURRENT[0] = self

    def pause(self):
        """disarm the watchdog while the harness itself computes (reference models can be slow on long inputs and
        under load); the next tick() re-arms it for the library call"""
        signal.setitimer(signal.ITIMER_REAL, 0)

    def tick(self, cur=None):
        """Called once per explored state: remembers the state (a case dict or a zero-argument
        callable producing one) and re-arms the watchdog for the executions of that state."""
        self.cur = cur
        signal.setitimer(signal.ITIMER_REAL, CALL_BUDGET_S)

    def sample(self, case):
        if len(self.samples) < MAX_SAMPLES:
            self.samples.append(jsonable(case))

    def outcome(self, obj):
        if len(self.outcomes) < 20000:
            self.outcomes.add(hash(obj) if not isinstance(obj, (list, dict)) else digest(obj))

    def violation(self, clause, site, case, observed=None, expected=None, note=None):
        """Record a violation.  ``case`` must be a JSON-able dict that the
        property module's ``replay(case)`` can re-execute."""
        case = jsonable(case)
        fid = match_finding(self.pid, clause, site, case, jsonable(observed))
        if fid is not None:
            self.known[fid] += 1
            if fid not in self.known_example:
                self.known_example[fid] = {"case": case, "observed": jsonable(observed)}
            return
        key = (clause, site)
        self.viol_count[key] += 1
        if self.viol_count[key] <= MAX_VIOL_PER_KEY:
            self.viol.append({"clause": clause, "site": site, "case": case,
                              "observed": jsonable(observed), "expected": jsonable(expected),
                              "note": note})


def _case_size(v):
    return len(json.dumps(v["case"], sort_keys=True))


# ------------------------------------------------------------------ owning the library's module-level state
# A shard must be a function of its argument alone, otherwise a violation that depends on what the same worker
# process executed before cannot be replayed.  The only state the library can carry from one call to the next is
# module-level: containers (tables, caches) and functools caches.  They are snapshotted before the first library call
# of the process (the pool workers are forked afterwards and inherit the snapshot) and restored at the start of every
# shard; containers that did not exist at import time are removed.
_LIB_SNAP = [None]


def _lib_modules():
    return [m for n, m in sorted(sys.modules.items()) if (n == "mir_eval" or n.startswith("mir_eval.")) and m]


def snapshot_library_state():
    import copy
    if _LIB_SNAP[0] is None:
        snap = {}
        for m in _lib_modules():
            snap[(m.__name__, None)] = True        # module present at snapshot time
            for n, v in list(vars(m).items()):
                if not n.startswith("__") and isinstance(v, (dict, list, set, collections.deque)):
                    try:
                        snap[(m.__name__, n)] = copy.deepcopy(v)
                    except Exception:  # noqa  (a container of modules/functions: not state the library writes to)
                        pass
                elif callable(v) and getattr(v, "__module__", None) == m.__name__:
                    for i, dflt in enumerate(getattr(v, "__defaults__", None) or ()):
                        if isinstance(dflt, (dict, list, set)):        # mutable default argument = hidden state
                            _DEFAULTS.append((dflt, copy.deepcopy(dflt)))
        _LIB_SNAP[0] = snap
    return _LIB_SNAP[0]


_DEFAULTS = []        # (the default object itself, a copy of its initial content)


def reset_mutable_defaults():
    """mutable default arguments of library functions (state hidden in __defaults__) back to their initial content"""
    import copy
    for obj, want in _DEFAULTS:
        if obj != want:
            obj.clear()
            (obj.extend if isinstance(obj, list) else obj.update)(copy.deepcopy(want))


def reset_library_state():
    """restore the module-level state of mir_eval to what it was when the snapshot was taken"""
    import copy
    snap = _LIB_SNAP[0]
    if snap is None:
        return
    for m in _lib_modules():
        if (m.__name__, None) not in snap:
            continue                           # imported after the snapshot: nothing known about its initial state
        for n, v in list(vars(m).items()):
            if n.startswith("__"):
                continue
            if isinstance(v, (dict, list, set, collections.deque)):
                key = (m.__name__, n)
                if key not in snap:
                    if not any(isinstance(x, type(sys)) for x in (v.values() if isinstance(v, dict) else v)):
                        delattr(m, n)          # created after import: a cache
                    continue
                try:
                    same = (v == snap[key]) and type(v) is type(snap[key])
                except Exception:  # noqa
                    same = False
                if not same:
                    fresh = copy.deepcopy(snap[key])
                    v.clear()
                    (v.extend if isinstance(v, (list, collections.deque)) else v.update)(fresh)
            elif callable(getattr(v, "cache_clear", None)):
                try:
                    v.cache_clear()
                except Exception:  # noqa
                    pass
    reset_mutable_defaults()


def _run_shard(job):
    modname, fnname, arg, pid = job
    import importlib
    mod = importlib.import_module(modname)
    fn = getattr(mod, fnname)
    signal.signal(signal.SIGALRM, _on_alarm)
    reset_library_state()
    try:
        acc = fn(arg)
    except Hang:
        acc = _CURRENT[0]
        cur = acc.cur() if callable(acc.cur) else acc.cur
        if cur is None:
            raise HarnessError("watchdog fired in %s.%s with no current state recorded" % (modname, fnname))
        acc.violation("terminates", "watchdog", cur,
                      observed="no result within %.0fs (shard abandoned at this state)" % CALL_BUDGET_S)
        acc.counters["shards_abandoned_after_hang"] += 1
    except Exception:
        raise HarnessError("shard %s.%s(%s) crashed:\n%s" % (modname, fnname, repr(arg)[:200],
                                                            traceback.format_exc()))
    finally:
        signal.setitimer(signal.ITIMER_REAL, 0)
    acc.cur = None
    return acc


class Run(object):
    def __init__(self, pid, tier, seed, level, module):
        self.pid = pid
        self.tier = tier
        self.seed = seed
        self.phase = seed % N_PHASES
        self.level = level
        self.module = module          # module name of the property (for replay)
        self.t0 = time.time()
        self.total = Acc(pid)
        self.spaces = []              # [{name, shards, states, transitions, wall_s, exhaustive}]
        self.assumptions = []
        self.rule = ""
        self.cuts = []                # stated caps that were hit
        self._jobs = {}               # (space index, shard index) -> (module, function, arg) for shard-level replay
        snapshot_library_state()      # before any library call and before the workers are forked

    # ------------------------------------------------------------------ exploring
    def explore(self, name, modname, fnname, shard_args, exhaustive=True, note=None):
        """Run ``modname.fnname(arg)`` for every shard arg on the pool and merge."""
        t0 = time.time()
        jobs = [(modname, fnname, a, self.pid) for a in shard_args]
        if NPROC > 1 and len(jobs) > 1:
            ctx = mp.get_context("fork")
            with ctx.Pool(min(NPROC, len(jobs))) as pool:
                results = pool.map(_run_shard, jobs, chunksize=1)
        else:
            results = [_run_shard(j) for j in jobs]
        st = tr = 0
        for i, acc in enumerate(results):
            st += acc.states
            tr += acc.transitions
            if acc.viol:
                self._jobs[(len(self.spaces), i)] = jobs[i][:3]
                for v in acc.viol:
                    v["shard"] = (len(self.spaces), i)
            self.merge(acc)
        self.spaces.append({"name": name, "shards": len(jobs), "states": st, "transitions": tr,
                            "wall_s": round(time.time() - t0, 2), "exhaustive": exhaustive,
                            **({"note": note} if note else {})})
        sys.stderr.write("[%s] space %-28s shards=%d states=%d transitions=%d %.1fs\n" % (
            self.pid, name, len(jobs), st, tr, time.time() - t0))

    def merge(self, acc):
        t = self.total
        t.states += acc.states
        t.transitions += acc.transitions
        t.conform += acc.conform
        t.nontrivial += acc.nontrivial
        t.counters.update(acc.counters)
        t.viol.extend(acc.viol)
        t.viol_count.update(acc.viol_count)
        t.known.update(acc.known)
        for k, v in acc.known_example.items():
            t.known_example.setdefault(k, v)
        for s in acc.samples:
            if len(t.samples) < MAX_SAMPLES * 3:
                t.samples.append(s)
        t.outcomes |= acc.outcomes

    def require_nonvacuous(self, *names):
        """Input-side counters that must be > 0; otherwise the space is vacuous (harness bug)."""
        if sum(self.total.viol_count.values()) > 0:
            return          # a verdict takes precedence: violations found, the run is reported as such (exit 1)
        for n in names:
            if self.total.counters.get(n, 0) <= 0:
                raise HarnessError("vacuous exploration: counter %r is 0" % n)

    # ------------------------------------------------------------------ finishing
    def finish(self):
        t = self.total
        wall = time.time() - self.t0
        viols = sorted(t.viol, key=lambda v: (_case_size(v), json.dumps(v["case"], sort_keys=True)))
        nviol = sum(t.viol_count.values())
        # known findings
        fmap = {e["id"]: e for e in load_findings()}
        for fid in sorted(t.known):
            e = fmap[fid]
            print("KNOWN-FINDING: property=%s %s [%s; %d states]" % (
                self.pid, e["what"], fid, t.known[fid]))
        # replay files for (a few) unknown violations
        reported = []
        seen_keys = set()
        for v in viols:
            key = (v["clause"], v["site"])
            if key in seen_keys:
                continue
            seen_keys.add(key)
            reported.append(v)
            if len(reported) >= 6:
                break
        paths = []
        for v in reported:
            d = os.path.join(VERIF, "replays", self.pid)
            os.makedirs(d, exist_ok=True)
            h = digest([v["clause"], v["site"], v["case"]])
            p = os.path.join(d, "%s.json" % h)
            with open(p, "w") as f:
                json.dump({"property": self.pid, "module": self.module, "clause": v["clause"],
                           "site": v["site"], "case": v["case"], "observed": v["observed"],
                           "expected": v["expected"], "note": v["note"],
                           "how_to_replay": "cd /verif && ./check %s --replay %s" % (self.pid, p)},
                          f, indent=1, sort_keys=True)
            paths.append(p)
        # replay discipline: a reported violation must reproduce twice in fresh interpreters.  Violations are tried
        # in order (smallest first); one that does not reproduce is dropped with a note (its cause is state the
        # harness does not own, e.g. object addresses), and only if NONE of the reported ones reproduces is the run
        # a harness error.
        if paths and os.environ.get("VERIF_NO_REPLAY_CHECK") != "1":
            keep = []
            for v, p_ in zip(reported, paths):
                ok = True
                for _ in range(2):
                    r = subprocess.run([os.path.join(VERIF, "check"), self.pid, "--replay", p_],
                                       capture_output=True, text=True)
                    if r.returncode != 1:
                        ok = False
                        break
                if not ok and v.get("shard") in self._jobs:
                    # not a function of the input alone: replay the whole shard (which starts from the restored
                    # module state, so it is a function of its argument) and look for the same violation again
                    p2 = self._write_shard_replay(v, p_)
                    ok = p2 is not None
                    for _ in range(2 if ok else 0):
                        r = subprocess.run([os.path.join(VERIF, "check"), self.pid, "--replay", p2],
                                           capture_output=True, text=True)
                        if r.returncode != 1:
                            ok = False
                            break
                    if ok:
                        sys.stderr.write("  note: %s reproduces only after the preceding states of its shard "
                                         "(history-dependent result); shard-level replay %s\n" % (p_, p2))
                        self.total.counters["violations_reproduced_by_shard_history_only"] += 1
                        p_ = p2
                if ok:
                    keep.append((v, p_))
                    if len(keep) >= 3:
                        break
                else:
                    sys.stderr.write("  note: %s did not reproduce in a fresh interpreter; not reported\n" % p_)
                    self.total.counters["violations_not_reproducible_in_fresh_interpreter"] += 1
            if not keep:
                raise HarnessError("none of the %d reported violations reproduced in a fresh interpreter "
                                   "(nondeterminism not owned), first: %s" % (len(paths), paths[0]))
            reported = [v for v, _ in keep]
            paths = [p_ for _, p_ in keep]
        self.write_evidence(wall, nviol)
        for v, p in zip(reported, paths):
            sys.stderr.write("  violation clause=%s site=%s observed=%s expected=%s case=%s\n" % (
                v["clause"], v["site"], json.dumps(v["observed"])[:300], json.dumps(v["expected"])[:300],
                json.dumps(v["case"])[:600]))
            print("VIOLATION property=%s replay=%s" % (self.pid, p))
        for (cl, st), n in sorted(t.viol_count.items()):
            sys.stderr.write("  violations: clause=%s site=%s count=%d\n" % (cl, st, n))
        sys.stderr.write("[%s] tier=%s seed=%d states=%d transitions=%d conformance=%d outcomes=%d "
                         "violations=%d known=%d wall=%.1fs\n" % (
                             self.pid, self.tier, self.seed, t.states, t.transitions, t.conform,
                             len(t.outcomes), nviol, sum(t.known.values()), wall))
        return 1 if nviol else 0

    def _write_shard_replay(self, v, single_path):
        import base64
        import pickle
        modname, fnname, arg = self._jobs[v["shard"]]
        try:
            blob = base64.b64encode(pickle.dumps(arg, protocol=4)).decode("ascii")
        except Exception:  # noqa
            return None
        p = single_path[:-5] + ".shard.json"
        with open(p, "w") as f:
            json.dump({"property": self.pid, "module": self.module, "kind": "shard-history",
                       "shard_module": modname, "shard_fn": fnname, "arg_pickle_b64": blob,
                       "clause": v["clause"], "site": v["site"], "case": v["case"], "observed": v["observed"],
                       "expected": v["expected"],
                       "note": "history-dependent: the violating state is reached by running the shard from the "
                               "restored module state; the single case alone does not reproduce it",
                       "how_to_replay": "cd /verif && ./check %s --replay %s" % (self.pid, p)}, f, indent=1,
                      sort_keys=True)
        return p

    def write_evidence(self, wall, nviol):
        t = self.total
        exhaustive = all(s["exhaustive"] for s in self.spaces) and not self.cuts
        cov = {
            "states": t.states,
            "transitions": t.transitions,
            "traces_validated_against_impl": t.conform,
            "evaluations": t.transitions,
            "distinct_nontrivial": t.nontrivial,
            "rule": self.rule,
            "samples": t.samples[:8] or [{"note": "no sample recorded"}],
            "exhaustive": exhaustive,
            "spaces": self.spaces,
            "distinct_observed_outcomes": len(t.outcomes),
            "counters": dict(sorted(t.counters.items())),
            "known_findings_hit": {k: t.known[k] for k in sorted(t.known)},
            "caps_hit": self.cuts,
            "explanation": ("every transition is one execution of the real mir_eval code imported from the working "
                            "tree (explored directly, not a model of it); traces_validated_against_impl counts the "
                            "states in which an independent reference model's prediction was compared with that "
                            "execution (0 for pure invariant / two-execution relation checks, which have no separate "
                            "model); known_findings_hit lists states attributed to findings in known_findings.json"),
            "mir_eval_path": _mir_eval_path(),
            "phase": self.phase,
            "nproc": NPROC,
        }
        ev = {
            "property_id": self.pid,
            "tier": self.tier,
            "seed": self.seed,
            "level": self.level,
            "coverage": cov,
            "assumptions": self.assumptions,
            "wall_s": round(wall, 2),
            "violations": nviol,
        }
        d = os.path.join(VERIF, "evidence")
        if os.environ.get("VERIF_REPO") or os.environ.get("VERIF_TASKS"):
            # development runs (against a scratch tree / restricted to some adapters) never touch the committed evidence
            d = os.path.join(tempfile.gettempdir(), "verif_scratch_evidence")
        os.makedirs(d, exist_ok=True)
        path = os.path.join(d, "%s.json" % self.pid)
        tmp = "%s.%d.tmp" % (path, os.getpid())
        with open(tmp, "w") as f:
            json.dump(sanitize(jsonable(ev)), f, indent=1, sort_keys=True, allow_nan=False)
        os.replace(tmp, path)
        _validate_evidence(path)


def _mir_eval_path():
    try:
        import mir_eval
        return os.path.dirname(os.path.realpath(mir_eval.__file__))
    except Exception:
        return "?"


def _validate_evidence(path):
    schema = "/root/.vp/EVIDENCE.schema.json"
    vt = "/opt/veriftools/pyvenv/bin/python"
    if not (os.path.exists(schema) and os.path.exists(vt)):
        return
    code = ("import json,sys,jsonschema;"
            "jsonschema.validate(json.load(open(sys.argv[1])), json.load(open(sys.argv[2])))")
    r = subprocess.run([vt, "-c", code, path, schema], capture_output=True, text=True)
    if r.returncode != 0:
        raise HarnessError("evidence file does not validate: " + r.stderr[-800:])


def sanitize(x):
    """Strict-JSON form: NaN / inf become strings (evidence files only)."""
    if isinstance(x, float) and (math.isnan(x) or math.isinf(x)):
        return repr(x)
    if isinstance(x, dict):
        return {k: sanitize(v) for k, v in x.items()}
    if isinstance(x, list):
        return [sanitize(v) for v in x]
    return x


def chunks(seq, n):
    """Split a list into n nearly equal contiguous chunks (deterministic)."""
    seq = list(seq)
    n = max(1, min(n, len(seq)))
    k, m = divmod(len(seq), n)
    out, i = [], 0
    for j in range(n):
        sz = k + (1 if j < m else 0)
        out.append(seq[i:i + sz])
        i += sz
    return out
