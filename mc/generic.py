"""Generic per-task drivers: one shard function per oracle family, shared by C01/C02/C04/C06/C07."""
import math

from mc import core, lib
from mc.tasks import base
from mc.tasks.base import Undefined

_SPACE_CACHE = {}


def space(taskname, which, tier, phase):
    key = (taskname, which, tier, phase)
    if key not in _SPACE_CACHE:
        t = base.load(taskname)
        if which == "edge":       # optional smaller space for two-execution relations (C08/C09)
            fn = getattr(t, "edge_space", None) or t.pair_space
        elif which == "range":    # optional larger space for the model-free range check (C01)
            fn = getattr(t, "range_space", None) or t.pair_space
        else:
            fn = t.pair_space if which == "pair" else t.single_space
        _SPACE_CACHE[key] = fn(tier, phase)
    return _SPACE_CACHE[key]


def shard_plan(taskname, which, tier, phase, nshards):
    n = len(space(taskname, which, tier, phase))
    nshards = max(1, min(nshards, n))
    # strided shards (state i belongs to shard i mod nshards): long and short states are spread evenly
    return [(taskname, which, tier, phase, k, nshards) for k in range(nshards)]


def case_of(task, func, state, cfg, which="pair"):
    if which in ("pair", "range", "edge"):
        return {"kind": "pair", "task": task.name, "func": func.name, "ref": state[0], "est": state[1],
                "cfg": dict(cfg)}
    return {"kind": "single", "task": task.name, "func": func.name, "x": state, "cfg": dict(cfg)}


def nontrivial_pair(state):
    return len(state[0]) >= 2 and len(state[1]) >= 2 and state[0] != state[1]


def in_domain(acc, func, state, cfg):
    """Optional adapter hook ``func.defined(state, cfg)``: False for inputs on which the documentation itself
    prescribes an error (e.g. PCS with duration=None and <2 distinct timestamps): excluded and counted."""
    d = getattr(func, "defined", None)
    if d is not None and not d(state, cfg):
        acc.counters["outside_documented_domain:%s" % func.name] += 1
        return False
    return True


# ------------------------------------------------------------------------------------ C04
def check_defn(acc, task, func, state, cfg):
    acc.pause()                    # the watchdog times the library, not the reference model
    try:
        exp = func.expected(state, cfg)
    except Undefined as u:
        acc.counters["undefined_or_near_threshold_skipped"] += 1
        acc.counters["skip:%s:%s" % (func.name, str(u)[:40])] += 1
        return
    acc.tick(acc.cur)
    acc.transitions += 1
    acc.conform += 1
    try:
        got = func.call(state, cfg)
    except Exception as ex:  # noqa
        acc.violation("equals-definition", func.name, case_of(task, func, state, cfg),
                      observed="raised %s: %s" % (type(ex).__name__, ex), expected=exp)
        return
    acc.outcome(tuple(round(got[k], 9) if got[k] == got[k] else "nan" for k in func.keys))
    for k in func.keys:
        if not lib.close(got[k], float(exp[k]) if exp[k] is not None else None, 1e-9):
            acc.violation("equals-definition", func.name, case_of(task, func, state, cfg),
                          observed={k: got[k]}, expected={k: float(exp[k])})
            return


# Property C04 is about the event-, frame- and note-based scores.  The interval / label based families have their own
# properties (chord: C10-C12, segment labelling: C16, hierarchy: C17) and are deliberately NOT compared under C04, so
# that a change which only breaks one of those is never reported as a C04 violation.
C04_EXCLUDED_TASKS = ("chord", "hierarchy")
C04_EXCLUDED_FUNCS = ("segment.pairwise", "segment.rand_index", "segment.ari", "segment.mutual_information",
                      "segment.nce", "segment.vmeasure")


def c04_funcs(task):
    if task.name in C04_EXCLUDED_TASKS:
        return []
    return [f for f in task.funcs if f.name not in C04_EXCLUDED_FUNCS]


def shard_defn(arg):
    taskname, which, tier, phase, lo, hi = arg
    task = base.load(taskname)
    acc = core.Acc("C04")
    sp = space(taskname, which, tier, phase)
    for state in sp[lo::hi]:
        acc.states += 1
        if nontrivial_pair(state):
            acc.nontrivial += 1
        for func in c04_funcs(task):
            for cfg in func.configs(tier):
                acc.tick(lambda: case_of(task, func, state, cfg))
                check_defn(acc, task, func, state, cfg)
    if lo == 0 and sp:
        acc.sample(case_of(task, task.funcs[0], sp[len(sp) // 2], {}))
    return acc


# ------------------------------------------------------------------------------------ C01
def range_ok(kind, v, cond_holds=True, nan_ok=False):
    if kind == "SKIP":          # range is checked on the underlying public function, not on this wrapper
        return True
    if v != v:
        return nan_ok
    if math.isinf(v):
        return False
    e = 1e-9
    if kind == "P01":
        return -e <= v <= 1 + e
    if kind == "BIN":
        return v == 0.0 or v == 1.0
    if kind == "LE1":
        return v <= 1 + e
    if kind == "GE0":
        return v >= -e
    if kind == "GE0LE1":
        return -e <= v <= 1 + e
    if kind == "COND":
        return (-e <= v <= 1 + e) if cond_holds else v >= -e
    if kind == "ANY":
        return True
    raise core.HarnessError("unknown range kind %r" % kind)


def check_range(acc, task, func, state, cfg):
    if not in_domain(acc, func, state, cfg):
        return
    acc.transitions += 1
    case = None
    try:
        got = func.call(state, cfg)
    except Exception as ex:  # noqa
        acc.violation("returns-scores", func.name, case_of(task, func, state, cfg),
                      observed="raised %s: %s" % (type(ex).__name__, ex))
        return
    acc.outcome(tuple(round(got[k], 6) if got[k] == got[k] else "nan" for k in func.keys))
    for k in func.keys:
        kind = func.kinds[k]
        cond = True
        if kind == "COND":
            cond = func.cond(state, cfg, k)
            acc.counters["%s:%s:precondition_%s" % (func.name, k, "held" if cond else "not_held")] += 1
        nan_ok = bool(func.nan_ok and func.nan_ok(state, cfg, k))
        if nan_ok:
            acc.counters["%s:%s:nan_expected" % (func.name, k)] += 1
        if not range_ok(kind, got[k], cond, nan_ok):
            acc.violation("range", func.name, case_of(task, func, state, cfg), observed={k: got[k]},
                          expected="%s%s" % (kind, "" if cond else " (precondition not held: finite >= 0)"))
            return


def shard_range(arg):
    taskname, which, tier, phase, lo, hi = arg
    task = base.load(taskname)
    acc = core.Acc("C01")
    sp = space(taskname, which, tier, phase)
    for state in sp[lo::hi]:
        acc.states += 1
        if nontrivial_pair(state):
            acc.nontrivial += 1
        if len(state[0]) == 0 or len(state[1]) == 0:
            acc.counters["empty_side"] += 1
        if state[0] == state[1]:
            acc.counters["identical"] += 1
        for func in task.funcs:
            for cfg in func.configs(tier):
                acc.tick(lambda: case_of(task, func, state, cfg))
                check_range(acc, task, func, state, cfg)
    if lo == 0 and sp:
        acc.sample(case_of(task, task.funcs[0], sp[len(sp) // 2], {}))
    return acc


# ------------------------------------------------------------------------------------ C02
def check_perfect(acc, task, func, x, cfg):
    acc.pause()
    want = func.optimum(x, cfg)
    acc.tick(acc.cur)
    if all(v is None for v in want.values()):
        acc.counters["degenerate_skipped:%s" % func.name] += 1
        return
    state = (x, x)
    if not in_domain(acc, func, state, cfg):
        return
    acc.transitions += 1
    try:
        got = func.call(state, cfg)
    except Exception as ex:  # noqa
        acc.violation("perfect-score", func.name, case_of(task, func, x, cfg, "single"),
                      observed="raised %s: %s" % (type(ex).__name__, ex), expected=want)
        return
    acc.outcome(tuple(round(got[k], 9) if got[k] == got[k] else "nan" for k in func.keys))
    for k in func.keys:
        if want.get(k) is None:
            continue
        acc.conform += 1
        if not lib.close(got[k], want[k], 1e-9):
            acc.violation("perfect-score", func.name, case_of(task, func, x, cfg, "single"),
                          observed={k: got[k]}, expected={k: want[k]})
            return


def shard_perfect(arg):
    taskname, which, tier, phase, lo, hi = arg
    task = base.load(taskname)
    acc = core.Acc("C02")
    sp = space(taskname, "single", tier, phase)
    for x in sp[lo::hi]:
        acc.states += 1
        if len(x) >= 2:
            acc.nontrivial += 1
        for func in task.funcs:
            if func.optimum is None:
                continue
            for cfg in func.configs(tier):
                acc.tick(lambda: case_of(task, func, x, cfg, "single"))
                check_perfect(acc, task, func, x, cfg)
    if lo == 0 and sp:
        acc.sample(case_of(task, task.funcs[0], sp[len(sp) // 2], {}, "single"))
    return acc


# ------------------------------------------------------------------------------------ replay
def replay(case, acc, what):
    task = base.load(case["task"])
    if case["kind"] == "fixture":
        check_defn(acc, task, task.func(case["func"]), task.fixture_states(case["tier"])[case["index"]], {})
        return
    func = task.func(case["func"])
    cfg = case.get("cfg", {})
    if case["kind"] == "pair":
        state = (base.tup(case["ref"]), base.tup(case["est"]))
        {"defn": check_defn, "range": check_range}[what](acc, task, func, state, cfg)
    elif case["kind"] == "single":
        check_perfect(acc, task, func, base.tup(case["x"]), cfg)
    else:
        raise core.HarnessError("unknown case kind %r" % case["kind"])


# ------------------------------------------------------------------------------------ C06 (swap)
def _swap_map(func, cfg):
    m = func.swap
    if callable(m):
        m = m(cfg)
    return m


def check_swap(acc, task, func, state, cfg):
    m = _swap_map(func, cfg)
    if not m:
        return
    ok = getattr(func, "swap_ok", None)
    if ok is not None and not ok(state):
        acc.counters["not_admissible_in_both_roles"] += 1
        return
    if not (in_domain(acc, func, state, cfg) and in_domain(acc, func, (state[1], state[0]), cfg)):
        return
    acc.transitions += 2
    try:
        g1 = func.call(state, cfg)
        g2 = func.call((state[1], state[0]), cfg)
    except Exception as ex:  # noqa
        acc.violation("swap", func.name, case_of(task, func, state, cfg),
                      observed="raised %s: %s" % (type(ex).__name__, ex))
        return
    acc.outcome(tuple(round(g1[k], 9) if g1[k] == g1[k] else "nan" for k in func.keys))
    if any(g1[k] != g1[m[k]] for k in m if g1[k] == g1[k] and g1[m[k]] == g1[m[k]]):
        acc.counters["swap.asymmetric_result_states"] += 1
    for k, k2 in m.items():
        a, b = g1[k], g2[k2]
        if a != a and b != b:
            continue
        if not (abs(a - b) <= 1e-12 * max(1.0, abs(a), abs(b))):
            acc.violation("swap", func.name, case_of(task, func, state, cfg),
                          observed={"%s(a,b)" % k: a, "%s(b,a)" % k2: b})
            return


def shard_swap(arg):
    taskname, which, tier, phase, lo, hi = arg
    task = base.load(taskname)
    acc = core.Acc("C06")
    sp = space(taskname, which, tier, phase)
    for state in sp[lo::hi]:
        if repr(state[0]) > repr(state[1]):
            continue                      # unordered pairs once
        acc.states += 1
        if len(state[0]) != len(state[1]):
            acc.counters["sides_differ_in_size"] += 1
            acc.nontrivial += 1
        for func in task.funcs:
            if not func.swap:
                continue
            for cfg in func.configs(tier):
                acc.tick(lambda: case_of(task, func, state, cfg))
                check_swap(acc, task, func, state, cfg)
    if lo == 0 and sp:
        acc.sample(case_of(task, task.funcs[0], sp[len(sp) // 2], {}))
    return acc


# ------------------------------------------------------------------------------------ C07 (monotone / nested)
def check_chain(acc, task, func, state, param, values, base_cfg=None):
    acc.counters["chains_evaluated"] += 1
    prev = None
    prev_v = None
    for v in values:
        cfg = dict(base_cfg or {})
        cfg[param] = v
        if not in_domain(acc, func, state, cfg):
            return
        acc.transitions += 1
        try:
            got = func.call(state, cfg)
        except Exception as ex:  # noqa
            acc.violation("monotone", func.name, dict(case_of(task, func, state, cfg), chain=[param, list(values)]),
                          observed="raised %s: %s" % (type(ex).__name__, ex))
            return
        if prev is not None:
            for k in func.mono_keys:
                if got[k] < prev[k] - 1e-12:
                    acc.violation("monotone", func.name,
                                  dict(case_of(task, func, state, cfg), chain=[param, [prev_v, v]]),
                                  observed={k: [prev[k], got[k]]}, expected="non-decreasing in %s" % param)
                    return
            if any(got[k] > prev[k] + 1e-12 for k in func.mono_keys):
                acc.counters["mono.strict_increase_edges"] += 1
        prev, prev_v = got, v
        acc.outcome((func.name, param, tuple(round(got[k], 9) for k in func.mono_keys)))


def check_nested(acc, task, func, state, cfg):
    if not func.nested or not in_domain(acc, func, state, cfg):
        return
    acc.transitions += 1
    try:
        got = func.call(state, cfg)
    except Exception as ex:  # noqa
        acc.violation("nested", func.name, case_of(task, func, state, cfg),
                      observed="raised %s: %s" % (type(ex).__name__, ex))
        return
    for lo_k, hi_k in func.nested:
        a, b = got[lo_k], got[hi_k]
        if a != a or b != b:
            continue
        if a < b - 1e-12:
            acc.counters["nested.strict_states"] += 1
        if a > b + 1e-12:
            acc.violation("nested", func.name, case_of(task, func, state, cfg), observed={lo_k: a, hi_k: b},
                          expected="%s <= %s" % (lo_k, hi_k))
            return


def check_cross(acc, task, state, lo, hi):
    (fl, kl, cl), (fh, kh, ch) = lo, hi
    f_lo, f_hi = task.func(fl), task.func(fh)
    if not (in_domain(acc, f_lo, state, cl) and in_domain(acc, f_hi, state, ch)):
        return
    acc.transitions += 2
    case = dict(case_of(task, f_lo, state, cl), cross=[[fl, kl, cl], [fh, kh, ch]])
    try:
        a = f_lo.call(state, cl)[kl]
        b = f_hi.call(state, ch)[kh]
    except Exception as ex:  # noqa
        acc.violation("nested", fl, case, observed="raised %s: %s" % (type(ex).__name__, ex))
        return
    if a != a or b != b:
        return
    if a < b - 1e-12:
        acc.counters["nested.strict_states"] += 1
    if a > b + 1e-12:
        acc.violation("nested", fl, case, observed={"%s:%s" % (fl, kl): a, "%s:%s" % (fh, kh): b},
                      expected="lower <= higher")


def shard_mono(arg):
    taskname, which, tier, phase, lo, hi = arg
    task = base.load(taskname)
    acc = core.Acc("C07")
    sp = space(taskname, which, tier, phase)
    cross = getattr(task, "cross_nested", None) or []
    for state in sp[lo::hi]:
        acc.states += 1
        if nontrivial_pair(state):
            acc.nontrivial += 1
        for func in task.funcs:
            for param, values in func.mono:
                acc.tick(lambda: dict(case_of(task, func, state, {}), chain=[param, list(values)]))
                check_chain(acc, task, func, state, param, values)
            if func.nested:
                for cfg in func.configs(tier):
                    acc.tick(lambda: case_of(task, func, state, cfg))
                    check_nested(acc, task, func, state, cfg)
        for lo_, hi_ in cross:
            acc.tick(lambda: dict(case_of(task, task.func(lo_[0]), state, lo_[2]), cross=[list(lo_), list(hi_)]))
            check_cross(acc, task, state, lo_, hi_)
    if lo == 0 and sp:
        acc.sample(case_of(task, task.funcs[0], sp[len(sp) // 2], {}))
    return acc


def replay_rel(case, acc, what):
    task = base.load(case["task"])
    func = task.func(case["func"])
    state = (base.tup(case["ref"]), base.tup(case["est"]))
    cfg = case.get("cfg", {})
    if what == "swap":
        check_swap(acc, task, func, state, cfg)
    elif "chain" in case:
        param, values = case["chain"]
        base_cfg = {k: v for k, v in cfg.items() if k != param}
        check_chain(acc, task, func, state, param, values, base_cfg)
    elif "cross" in case:
        lo_, hi_ = case["cross"]
        check_cross(acc, task, state, tuple(lo_), tuple(hi_))
    else:
        check_nested(acc, task, func, state, cfg)


# ------------------------------------------------------------------------------------ C08 / C09 / C12 (edge relations)
def check_edge(acc, pid, task, func, state, new_state, label, cfg, keys=None):
    """func(state) and func(new_state) must agree on `keys` (all keys if None) to 1e-12 relative."""
    if not (in_domain(acc, func, state, cfg) and in_domain(acc, func, new_state, cfg)):
        return
    acc.transitions += 2
    case = dict(case_of(task, func, state, cfg), edge=label, ref2=new_state[0], est2=new_state[1])
    try:
        g1 = func.call(state, cfg)
    except Exception as ex:  # noqa
        acc.counters["edge.source_state_raises"] += 1     # another property's business (C14)
        return
    try:
        g2 = func.call(new_state, cfg)
    except Exception as ex:  # noqa
        acc.violation("invariant:%s" % label.split(":")[0], func.name, case,
                      observed="transformed input raised %s: %s" % (type(ex).__name__, ex))
        return
    acc.outcome(tuple(round(g1[k], 9) if g1[k] == g1[k] else "nan" for k in func.keys))
    for k in (keys or func.keys):
        a, b = g1[k], g2[k]
        if a != a and b != b:
            continue
        if not (abs(a - b) <= 1e-12 * max(1.0, abs(a), abs(b))):
            acc.violation("invariant:%s" % label.split(":")[0], func.name, case, observed={k: [a, b]},
                          expected="equal")
            return


def shard_edges(arg):
    """arg = (pid, taskname, which, tier, phase, lo, hi, kinds): every state x every edge generator of the listed
    kinds (Task.edges[kind] = spec or list of specs; spec = dict(apply=fn(state)->[(label,new_state)],
    funcs=[names]|None, keys=[...]|None, cfgs=[...]|"all"|None, ok=fn(state, fname), okc=fn(state, new_state, fname,
    cfg)))."""
    pid, taskname, which, tier, phase, lo, hi, kinds = arg
    task = base.load(taskname)
    acc = core.Acc(pid)
    sp = space(taskname, which, tier, phase)
    edges = getattr(task, "edges", {})
    for state in sp[lo::hi]:
        acc.states += 1
        nt = False
        for kind in kinds:
            specs = edges.get(kind)
            if not specs:
                continue
            for spec in (specs if isinstance(specs, list) else [specs]):
                for label, new_state in spec["apply"](state):
                    if new_state == state:
                        continue
                    nt = True
                    acc.counters["edges:%s" % kind] += 1
                    for func in task.funcs:
                        if spec.get("funcs") is not None and func.name not in spec["funcs"]:
                            continue
                        if spec.get("ok") is not None and not spec["ok"](state, func.name):
                            acc.counters["edges_outside_precondition:%s" % kind] += 1
                            continue
                        cfgs = spec.get("cfgs") or [{}]
                        if cfgs == "all":     # the documented defaults and every single non-default parameter value
                            cfgs = func.configs("quick")
                        for cfg in cfgs:
                            if spec.get("okc") is not None and not spec["okc"](state, new_state, func.name, cfg):
                                acc.counters["edges_outside_precondition:%s" % kind] += 1
                                continue
                            if cfg:
                                acc.counters["edges_nondefault_cfg:%s" % kind] += 1
                            acc.tick(lambda: dict(case_of(task, func, state, cfg), edge=label, ref2=new_state[0],
                                                  est2=new_state[1]))
                            check_edge(acc, pid, task, func, state, new_state, "%s:%s" % (kind, label), cfg,
                                       spec.get("keys"))
        if nt:
            acc.nontrivial += 1
    if lo == 0 and sp:
        acc.sample(case_of(task, task.funcs[0], sp[len(sp) // 2], {}))
    return acc


def edge_plan(pid, taskname, tier, phase, kinds, nshards=64):
    n = len(space(taskname, "edge", tier, phase))
    nshards = max(1, min(nshards, n))
    return [(pid, taskname, "edge", tier, phase, k, nshards, tuple(kinds)) for k in range(nshards)]


def replay_edge(case, acc, pid):
    task = base.load(case["task"])
    func = task.func(case["func"])
    state = (base.tup(case["ref"]), base.tup(case["est"]))
    new_state = (base.tup(case["ref2"]), base.tup(case["est2"]))
    kind = case["edge"].split(":")[0]
    spec = getattr(task, "edges", {}).get(kind, {})
    check_edge(acc, pid, task, func, state, new_state, case["edge"], case.get("cfg", {}), spec.get("keys"))



# ------------------------------------------------------------------------------------ C04: perturbed repository fixtures
def shard_fixture(arg):
    """real code vs reference model on (perturbed) repository fixtures: long real-world annotations, default
    parameters; comparisons too close to a threshold raise Undefined in the model and are counted"""
    taskname, tier, idx = arg
    task = base.load(taskname)
    acc = core.Acc("C04")
    states = task.fixture_states(tier)
    for i in idx:
        state = states[i]
        acc.states += 1
        acc.nontrivial += 1
        acc.counters["fixture_states:%s" % taskname] += 1
        for func in task.funcs:
            acc.tick(lambda: {"kind": "fixture", "task": taskname, "func": func.name, "index": i, "tier": tier})
            before = len(acc.viol)
            check_defn(acc, task, func, state, {})
            for v in acc.viol[before:]:          # long inputs: refer to the fixture by index instead of inlining it
                v["case"] = {"kind": "fixture", "task": taskname, "func": func.name, "index": i, "tier": tier}
    return acc
