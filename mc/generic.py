"""Generic per-task drivers: one shard function per oracle family, shared by C01/C02/C04/C06/C07."""
import math

from mc import core, lib
from mc.tasks import base
from mc.tasks.base import Undefined

_SPACE_CACHE = {}


def space(taskname, which, tier, phase):
    key = (taskname, which, tier, phase)
    if key not in _SPACE_CACHE:
        t = base.load(taskname)
        _SPACE_CACHE[key] = (t.pair_space if which == "pair" else t.single_space)(tier, phase)
    return _SPACE_CACHE[key]


def shard_plan(taskname, which, tier, phase, nshards):
    n = len(space(taskname, which, tier, phase))
    nshards = max(1, min(nshards, n))
    # strided shards (state i belongs to shard i mod nshards): long and short states are spread evenly
    return [(taskname, which, tier, phase, k, nshards) for k in range(nshards)]


def case_of(task, func, state, cfg, which="pair"):
    if which == "pair":
        return {"kind": "pair", "task": task.name, "func": func.name, "ref": state[0], "est": state[1],
                "cfg": dict(cfg)}
    return {"kind": "single", "task": task.name, "func": func.name, "x": state, "cfg": dict(cfg)}


def nontrivial_pair(state):
    return len(state[0]) >= 2 and len(state[1]) >= 2 and state[0] != state[1]


# ------------------------------------------------------------------------------------ C04
def check_defn(acc, task, func, state, cfg):
    try:
        exp = func.expected(state, cfg)
    except Undefined as u:
        acc.counters["undefined_or_near_threshold_skipped"] += 1
        acc.counters["skip:%s:%s" % (func.name, str(u)[:40])] += 1
        return
    acc.transitions += 1
    acc.conform += 1
    try:
        got = func.call(state, cfg)
    except Exception as ex:  # noqa
        acc.violation("equals-definition", func.name, case_of(task, func, state, cfg),
                      observed="raised %s: %s" % (type(ex).__name__, ex), expected=exp)
        return
    acc.outcome(tuple(round(got[k], 9) if got[k] == got[k] else "nan" for k in func.keys))
    for k in func.keys:
        if not lib.close(got[k], float(exp[k]) if exp[k] is not None else None, 1e-9):
            acc.violation("equals-definition", func.name, case_of(task, func, state, cfg),
                          observed={k: got[k]}, expected={k: float(exp[k])})
            return


def shard_defn(arg):
    taskname, which, tier, phase, lo, hi = arg
    task = base.load(taskname)
    acc = core.Acc("C04")
    sp = space(taskname, which, tier, phase)
    for state in sp[lo::hi]:
        acc.states += 1
        if nontrivial_pair(state):
            acc.nontrivial += 1
        for func in task.funcs:
            for cfg in func.configs(tier):
                acc.tick(lambda: case_of(task, func, state, cfg))
                check_defn(acc, task, func, state, cfg)
    if lo == 0 and sp:
        acc.sample(case_of(task, task.funcs[0], sp[len(sp) // 2], {}))
    return acc


# ------------------------------------------------------------------------------------ C01
def range_ok(kind, v, cond_holds=True, nan_ok=False):
    if v != v:
        return nan_ok
    if math.isinf(v):
        return False
    e = 1e-9
    if kind == "P01":
        return -e <= v <= 1 + e
    if kind == "BIN":
        return v == 0.0 or v == 1.0
    if kind == "LE1":
        return v <= 1 + e
    if kind == "GE0":
        return v >= -e
    if kind == "GE0LE1":
        return -e <= v <= 1 + e
    if kind == "COND":
        return (-e <= v <= 1 + e) if cond_holds else v >= -e
    if kind == "ANY":
        return True
    raise core.HarnessError("unknown range kind %r" % kind)


def check_range(acc, task, func, state, cfg):
    acc.transitions += 1
    case = None
    try:
        got = func.call(state, cfg)
    except Exception as ex:  # noqa
        acc.violation("returns-scores", func.name, case_of(task, func, state, cfg),
                      observed="raised %s: %s" % (type(ex).__name__, ex))
        return
    acc.outcome(tuple(round(got[k], 6) if got[k] == got[k] else "nan" for k in func.keys))
    for k in func.keys:
        kind = func.kinds[k]
        cond = True
        if kind == "COND":
            cond = func.cond(state, cfg, k)
            acc.counters["%s:%s:precondition_%s" % (func.name, k, "held" if cond else "not_held")] += 1
        nan_ok = bool(func.nan_ok and func.nan_ok(state, cfg, k))
        if nan_ok:
            acc.counters["%s:%s:nan_expected" % (func.name, k)] += 1
        if not range_ok(kind, got[k], cond, nan_ok):
            acc.violation("range", func.name, case_of(task, func, state, cfg), observed={k: got[k]},
                          expected="%s%s" % (kind, "" if cond else " (precondition not held: finite >= 0)"))
            return


def shard_range(arg):
    taskname, which, tier, phase, lo, hi = arg
    task = base.load(taskname)
    acc = core.Acc("C01")
    sp = space(taskname, which, tier, phase)
    for state in sp[lo::hi]:
        acc.states += 1
        if nontrivial_pair(state):
            acc.nontrivial += 1
        if len(state[0]) == 0 or len(state[1]) == 0:
            acc.counters["empty_side"] += 1
        if state[0] == state[1]:
            acc.counters["identical"] += 1
        for func in task.funcs:
            for cfg in func.configs(tier):
                acc.tick(lambda: case_of(task, func, state, cfg))
                check_range(acc, task, func, state, cfg)
    if lo == 0 and sp:
        acc.sample(case_of(task, task.funcs[0], sp[len(sp) // 2], {}))
    return acc


# ------------------------------------------------------------------------------------ C02
def check_perfect(acc, task, func, x, cfg):
    want = func.optimum(x, cfg)
    if all(v is None for v in want.values()):
        acc.counters["degenerate_skipped:%s" % func.name] += 1
        return
    state = (x, x)
    acc.transitions += 1
    try:
        got = func.call(state, cfg)
    except Exception as ex:  # noqa
        acc.violation("perfect-score", func.name, case_of(task, func, x, cfg, "single"),
                      observed="raised %s: %s" % (type(ex).__name__, ex), expected=want)
        return
    acc.outcome(tuple(round(got[k], 9) if got[k] == got[k] else "nan" for k in func.keys))
    for k in func.keys:
        if want.get(k) is None:
            continue
        acc.conform += 1
        if not lib.close(got[k], want[k], 1e-9):
            acc.violation("perfect-score", func.name, case_of(task, func, x, cfg, "single"),
                          observed={k: got[k]}, expected={k: want[k]})
            return


def shard_perfect(arg):
    taskname, which, tier, phase, lo, hi = arg
    task = base.load(taskname)
    acc = core.Acc("C02")
    sp = space(taskname, "single", tier, phase)
    for x in sp[lo::hi]:
        acc.states += 1
        if len(x) >= 2:
            acc.nontrivial += 1
        for func in task.funcs:
            if func.optimum is None:
                continue
            for cfg in func.configs(tier):
                acc.tick(lambda: case_of(task, func, x, cfg, "single"))
                check_perfect(acc, task, func, x, cfg)
    if lo == 0 and sp:
        acc.sample(case_of(task, task.funcs[0], sp[len(sp) // 2], {}, "single"))
    return acc


# ------------------------------------------------------------------------------------ replay
def replay(case, acc, what):
    task = base.load(case["task"])
    func = task.func(case["func"])
    cfg = case.get("cfg", {})
    if case["kind"] == "pair":
        state = (base.tup(case["ref"]), base.tup(case["est"]))
        {"defn": check_defn, "range": check_range}[what](acc, task, func, state, cfg)
    elif case["kind"] == "single":
        check_perfect(acc, task, func, base.tup(case["x"]), cfg)
    else:
        raise core.HarnessError("unknown case kind %r" % case["kind"])
