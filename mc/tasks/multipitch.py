"""Task adapter: mir_eval.multipitch (see mc/tasks/base.py for the interface).

State = ((ref_times, ref_frames), (est_times, est_frames)); times = tuple of dyadic floats (k/16 s),
frames = tuple of tuples of frequencies in Hz drawn from a 4-frequency alphabet (ascending inside a frame).

Alphabets (per phase p; octave k = (0,-1,1,-2)[(p // 2) % 4], f0 = 440 * 2**k is exact on the MIDI scale):
  family "oct"   (f0, f0*2^(.49/12), f0*2^(.51/12), 2 f0)      exact octave pair: |midi diff| == 12 exactly
                                                              (window 12.0 = exact-threshold states), chroma 9
  family "wrap"  g0 = f0*2^(3/12) (chroma ~0): (g0*2^(-.51/12), g0*2^(-.49/12), g0, g0*2^(11.98/12))
                                                              quarter-tone neighbours sit at chroma 11.49 / 11.51:
                                                              the circular (mod 12) distance is needed; the last
                                                              member is a near-octave (chroma distances .02/.47/.49;
                                                              an inexact octave 2 g0 would sit within rounding
                                                              distance of the window 12.0)
Every inexact pitch distance (raw and chroma) is >= 0.0099 semitone away from every window in use; asserted at
import time for all phases (`lattice_margin`), so the model never refuses a state of these spaces.

Pair space  S: identical time base, n <= 2 frames, every (ref subset, est subset) per frame (256 per frame);
               thorough: + n = 3 with one frame (position p % 3) restricted to a 4 x 4 panel.  Family = ("oct",
               "wrap")[p % 2] (`family_of`).
            D: time-base variants (same, shifted by 1/16 < half hop, 3/16 > half hop, 2/16 == half hop (tie), both
               signs, fewer frames (head / tail), more frames (tail / midpoint), entirely before / after, empty)
               x panel frames, in the OTHER family, n = 1, 2 (thorough: 3).
The spaces are lazy sequences (len, index, slice, iteration) decoded from mixed-radix indices: the thorough
space has > 10^6 states and must not be materialised in 16 forked workers.
"""
import collections.abc
import itertools
import json
import os
from fractions import Fraction as Fr

import numpy as np

import mir_eval.multipitch as M
from mc import core
from mc.spec import multipitch as S
from mc.tasks.base import Func, Task

KEYS = S.KEYS
RAW, CHROMA = KEYS[:7], KEYS[7:]
WINDOWS = [0.5, 0.25, 1.0, 12.0]                 # documented default first
CHAIN = [0.01, 0.25, 0.5, 1.0, 12.0]             # C07 chain (ascending)
HOP = Fr(1, 4)


# ---------------------------------------------------------------------------------- alphabets
def family_of(phase):
    """family of the S space; the D space uses the other one"""
    return ("oct", "wrap")[phase % 2]


def other(fam):
    return "wrap" if fam == "oct" else "oct"


def alphabet(phase, fam):
    f0 = 440.0 * 2.0 ** (0, -1, 1, -2)[(phase // 2) % 4]
    if fam == "oct":
        a = (f0, f0 * 2.0 ** (0.49 / 12), f0 * 2.0 ** (0.51 / 12), 2.0 * f0)
    else:
        g0 = f0 * 2.0 ** (3.0 / 12)
        a = (g0 * 2.0 ** (-0.51 / 12), g0 * 2.0 ** (-0.49 / 12), g0, g0 * 2.0 ** (11.98 / 12))
    assert all(S.MIN_FREQ <= f <= S.MAX_FREQ for f in a) and list(a) == sorted(a)
    return a


def subsets(alpha):
    return [c for n in range(len(alpha) + 1) for c in itertools.combinations(alpha, n)]


def panel(alpha, size):
    """Small frame panels (distinct sizes 0,1,1,2,2,4 so that a mis-routed frame changes the counts)."""
    a, b, c, d = alpha
    full = [(), (a,), (b, c), (a, d), (c,), (a, b, c, d)]
    return full[:size]


def lattice_margin():
    """Smallest distance of an inexact pitch distance (raw or chroma) from a window in use, over all phases."""
    best = 1.0
    for ph in range(8):
        for fam in ("oct", "wrap"):
            al = alphabet(ph, fam)
            for r in al:
                for e in al:
                    for chroma in (False, True):
                        d = S.distance(S.midi(r), S.midi(e), chroma)
                        if isinstance(d, Fr):
                            continue
                        for w in CHAIN:
                            best = min(best, abs(d - w))
    return best


if lattice_margin() < 0.0099:
    raise core.HarnessError("multipitch pitch lattice has an inexact distance within 0.0099 semitone of a window")


# ---------------------------------------------------------------------------------- time bases
def ref_times(phase, n):
    base = Fr(1) + Fr(phase, 4)
    return tuple(float(base + i * HOP) for i in range(n))


def time_variants(phase, n):
    """[(name, est_times)] for a reference of n frames (hop 1/4 s): every documented way the bases may differ."""
    t = [Fr(x) for x in ref_times(phase, n)]
    sh = lambda d: tuple(float(x + d) for x in t)           # noqa
    out = [("same", sh(0))]
    if n == 0:
        return out + [("more_tail", ref_times(phase, 1))]
    for name, k in (("lt", 1), ("gt", 3), ("tie", 2)):
        out.append((name + "+", sh(Fr(k, 16))))
        out.append((name + "-", sh(Fr(-k, 16))))
    if n >= 2:
        out.append(("fewer_head", tuple(float(x) for x in t[:-1])))
        out.append(("fewer_tail", tuple(float(x) for x in t[1:])))
        out.append(("more_mid", tuple(float(x) for x in [t[0], t[0] + HOP / 2] + t[1:])))
    out.append(("more_tail", tuple(float(x) for x in t + [t[-1] + HOP])))
    out.append(("before", sh(-n * HOP - Fr(1, 16))))
    out.append(("after", sh(n * HOP + Fr(1, 16))))
    out.append(("empty", ()))
    return out


# ---------------------------------------------------------------------------------- lazy product spaces
class Block(object):
    """Cartesian product of component lists, decoded by mixed-radix index (last component fastest)."""

    def __init__(self, comps, make):
        self.comps = comps
        self.make = make
        self.size = 1
        for c in comps:
            self.size *= len(c)

    def get(self, i):
        items = [None] * len(self.comps)
        for k in range(len(self.comps) - 1, -1, -1):
            c = self.comps[k]
            i, r = divmod(i, len(c))
            items[k] = c[r]
        return self.make(items)


class LazySpace(collections.abc.Sequence):
    def __init__(self, blocks):
        self.blocks = [b for b in blocks if b.size]
        self.starts = []
        n = 0
        for b in self.blocks:
            self.starts.append(n)
            n += b.size
        self.n = n

    def __len__(self):
        return self.n

    def _iter_range(self, rng):
        bi = 0
        for i in rng:
            if rng.step > 0:
                while bi + 1 < len(self.blocks) and i >= self.starts[bi + 1]:
                    bi += 1
            else:
                bi = max(k for k in range(len(self.blocks)) if self.starts[k] <= i)
            yield self.blocks[bi].get(i - self.starts[bi])

    def __getitem__(self, i):
        if isinstance(i, slice):
            return _Slice(self, range(*i.indices(self.n)))
        if i < 0:
            i += self.n
        if not 0 <= i < self.n:
            raise IndexError(i)
        bi = max(k for k in range(len(self.blocks)) if self.starts[k] <= i)
        return self.blocks[bi].get(i - self.starts[bi])

    def __iter__(self):
        return self._iter_range(range(self.n))


class _Slice(collections.abc.Sequence):
    def __init__(self, space, rng):
        self.space, self.rng = space, rng

    def __len__(self):
        return len(self.rng)

    def __getitem__(self, i):
        if isinstance(i, slice):
            return _Slice(self.space, self.rng[i])
        return self.space[self.rng[i]]

    def __iter__(self):
        return self.space._iter_range(self.rng)


def _same_block(times, pair_comps):
    def make(items):
        return ((times, tuple(p[0] for p in items)), (times, tuple(p[1] for p in items)))
    return Block(pair_comps, make)


def _variant_block(rt, et, ref_comps, est_comps):
    nr = len(ref_comps)

    def make(items):
        return ((rt, tuple(items[:nr])), (et, tuple(items[nr:])))
    return Block(ref_comps + est_comps, make)


def s_blocks(phase, fam, nmax, panel3=None, drop_all_empty=False):
    """identical time base, n = 0..nmax frames, all (ref subset, est subset) per frame; optional n = 3 block with
    one frame from a panel product.  drop_all_empty: leave out the (family independent) states in which every
    frame is empty on both sides (used when a second family is added to a space)."""
    al = alphabet(phase, fam)
    sub = subsets(al)
    pairs = [(r, e) for r in sub for e in sub]
    blocks = []
    for n in range(nmax + 1):
        t = ref_times(phase, n)
        if not drop_all_empty:
            blocks.append(_same_block(t, [pairs] * n))
            continue
        nonempty = [p for p in pairs if p != ((), ())]
        for k in range(n):        # first k frames empty, frame k not empty, the rest free
            blocks.append(_same_block(t, [[((), ())]] * k + [nonempty] + [pairs] * (n - k - 1)))
    if panel3:
        pp = [(r, e) for r in panel(al, panel3) for e in panel(al, panel3)]
        comps = [pairs, pairs, pairs]
        comps[phase % 3] = pp
        blocks.append(_same_block(ref_times(phase, 3), comps))
    return blocks


def d_blocks(phase, fam, ns, ref_size, est_size, skip_same=False, first_ref_nonempty=False):
    """time-base variants x panel frames.  first_ref_nonempty: the first reference frame is never empty, so that
    no state coincides with a state of the other family (all-empty frames are family independent)."""
    al = alphabet(phase, fam)
    blocks = []
    for n in ns:
        rp = panel(al, ref_size if n < 3 else min(ref_size, 6))
        ep = panel(al, est_size if n < 3 else min(est_size, 4))
        rt = ref_times(phase, n)
        for name, et in time_variants(phase, n):
            if name == "same" and (skip_same or n == 0):
                continue
            # identical base: the all-empty reference already occurs in the S space (family independent)
            rpn = [f for f in rp if f] if name == "same" else rp
            rcomps = [rpn] * n
            if first_ref_nonempty and n:
                rcomps[0] = [f for f in rp if f]
            blocks.append(_variant_block(rt, et, rcomps, [ep] * len(et)))
    return blocks


def e_blocks(phase, fam):
    """estimate time base with the SAME length and the SAME first and last stamp as the reference but other interior
    stamps (4 frames; the two interior estimate stamps sit 1/16 and 2/16 s after the first one): nearest-frame
    resampling then pairs reference frames 1 and 2 with estimate frames 2 and 3, not with 1 and 2.  Frames from a
    3-frame panel (empty, one pitch, two pitches)."""
    al = alphabet(phase, fam)
    pn = panel(al, 3)
    rt = ref_times(phase, 4)
    t0 = Fr(rt[0])
    et = (rt[0], float(t0 + Fr(1, 16)), float(t0 + Fr(2, 16)), rt[3])
    return [_variant_block(rt, et, [pn] * 4, [pn] * 4)]


def dup_blocks(phase, fam):
    """frames that list a frequency twice ('duplicated' annotations): identical time base, 1 and 2 frames, every frame
    from {(), (a,), (a, a), (a, a, b), (b, a, b)} on either side"""
    a, b = alphabet(phase, fam)[:2]
    fr = [(), (a,), (a, a), (a, a, b), (b, a, b)]
    pairs = [(r, e) for r in fr for e in fr if len(set(r)) < len(r) or len(set(e)) < len(e)]
    allp = [(r, e) for r in fr for e in fr]
    return [_same_block(ref_times(phase, 1), [pairs]), _same_block(ref_times(phase, 2), [pairs, allp])]


def pair_space(tier, phase):
    fam = family_of(phase)
    if tier == "thorough":
        blocks = s_blocks(phase, fam, 2, panel3=4) + d_blocks(phase, other(fam), (0, 1, 2, 3), 6, 6)
    else:
        blocks = s_blocks(phase, fam, 2) + d_blocks(phase, other(fam), (0, 1, 2), 6, 6)
    blocks += e_blocks(phase, fam) + dup_blocks(phase, fam)
    blocks.sort(key=lambda b: len(b.comps))        # shortest states first (stable)
    return LazySpace(blocks)


def single_space(tier, phase):
    """sides (times, frames) for the perfect-estimate property: one level deeper than the pairs"""
    nmax = 4 if tier == "thorough" else 3
    blocks = []
    for n in range(nmax + 1):
        for fam in ("oct", "wrap"):
            sub = subsets(alphabet(phase, fam))
            t = ref_times(phase, n)
            blocks.append(Block([sub] * n, (lambda t: lambda items: (t, tuple(items)))(t)))
    return LazySpace(blocks)


# ---------------------------------------------------------------------------------- adapter functions
def _frames(fr):
    return [np.array(f, dtype=float) for f in fr]


def build(state):
    (rt, rf), (et, ef) = state
    return (np.array(rt, dtype=float), _frames(rf), np.array(et, dtype=float), _frames(ef))


def model(state):
    (rt, rf), (et, ef) = state
    return ([Fr(x) for x in rt], [tuple(f) for f in rf], [Fr(x) for x in et], [tuple(f) for f in ef])


def same_base(state):
    """C06 precondition: both sides on the identical time base"""
    return tuple(state[0][0]) == tuple(state[1][0])


def opt(side, cfg):
    ok = any(len(f) for f in side[1])
    want = {k: None for k in KEYS}
    if ok:
        for k in KEYS:
            want[k] = 0.0 if "Error" in k else 1.0
    return want


KINDS = {k: ("GE0" if "Error" in k else "P01") for k in KEYS}
SWAP = {"Precision": "Recall", "Recall": "Precision", "Accuracy": "Accuracy",
        "Chroma Precision": "Chroma Recall", "Chroma Recall": "Chroma Precision",
        "Chroma Accuracy": "Chroma Accuracy"}
MONO_KEYS = [k for k in KEYS if "Error" not in k]
NESTED = [("Precision", "Chroma Precision"), ("Recall", "Chroma Recall"), ("Accuracy", "Chroma Accuracy")]

FUNCS = [
    Func("multipitch.metrics", M.metrics, KEYS, {"window": WINDOWS}, build, model, S.metrics, KINDS,
         optimum=opt, swap=SWAP, mono=[("window", CHAIN)], mono_keys=MONO_KEYS, nested=NESTED),
]
FUNCS[0].swap_ok = same_base          # swap relation is claimed only for identical time bases (property C06)

TASK = Task("multipitch", FUNCS, pair_space, single_space)


# ---------------------------------------------------------------------------------- fixtures
FIXTURE_DIR = "/repo/tests/data/multipitch"
FIXTURE_KNOWN_DEFECT_KEYS = {}        # recorded key -> reason (none for multipitch)


def read_ragged(path):
    """Minimal reader for the fixture format: 'time<ws>f1<ws>f2...' per line, '#' comment lines."""
    times, frames = [], []
    with open(path) as f:
        for line in f:
            if line.startswith("#"):
                continue
            cols = line.split()
            if not cols:
                continue
            times.append(float(cols[0]))
            frames.append(tuple(float(c) for c in cols[1:]))
    return times, frames


def fixture_check(tier):
    """Run the reference MODEL (not the library) on the repository fixtures; tests/test_multipitch.py produced
    output*.json with evaluate() at default parameters."""
    import glob
    refs = sorted(glob.glob(os.path.join(FIXTURE_DIR, "ref*.txt")))
    if not refs:
        raise core.HarnessError("no multipitch fixtures found")
    n = near = 0
    for rp in refs:
        ep = rp.replace("ref", "est")
        op = rp.replace("ref", "output").replace(".txt", ".json")
        with open(op) as f:
            want = json.load(f)
        if set(want) != set(KEYS):
            raise core.HarnessError("fixture %s: recorded keys %r != documented keys" % (op, sorted(want)))
        rt, rf = read_ragged(rp)
        et, ef = read_ragged(ep)
        try:
            got = dict(zip(KEYS, S.metrics(rt, rf, et, ef, eps=1e-7)))
        except S.Undefined:
            near += 1
            continue
        for k in KEYS:
            if k in FIXTURE_KNOWN_DEFECT_KEYS:
                continue
            if abs(float(got[k]) - want[k]) > 1e-7:
                raise core.HarnessError("multipitch reference model does not reproduce fixture %s: %s model=%r "
                                        "recorded=%r" % (os.path.basename(op), k, float(got[k]), want[k]))
        n += 1
    if n == 0:
        raise core.HarnessError("every multipitch fixture is within 1e-7 of a threshold (%d)" % near)
    fixture_check.near_threshold_skipped = near
    return n


TASK.fixture_check = fixture_check


# ---------------------------------------------------------------------------------- edge relations (C08 / C09)
def edge_space(tier, phase):
    """smaller pair space for two-execution relations: all one-frame states on the identical time base plus every
    time-base variant over a 4-frame panel of the other family"""
    fam = family_of(phase)
    n = (0, 1, 2, 3) if tier == "thorough" else (0, 1, 2)
    return LazySpace(s_blocks(phase, fam, 1) + d_blocks(phase, other(fam), n, 4, 4))


def _map_state(state, ft=None, fr=None, fe=None):
    (rt, rf), (et, ef) = state
    if ft is not None:
        rt, et = tuple(ft(x) for x in rt), tuple(ft(x) for x in et)
    if fr is not None:
        rf = tuple(fr(f) for f in rf)
    if fe is not None:
        ef = tuple(fe(f) for f in ef)
    return ((rt, rf), (et, ef))


def _shift_edges(state):
    return [("+%g" % d, _map_state(state, ft=lambda x, d=d: float(Fr(x) + Fr(d)))) for d in (1 / 16.0, 1.0, 1000.0)]


def _perm_edges(state):
    rev = lambda f: tuple(reversed(f))  # noqa
    rot = lambda f: tuple(f[1:] + f[:1])  # noqa
    return [("reverse-frames", _map_state(state, fr=rev, fe=rev)), ("rotate-ref-frames", _map_state(state, fr=rot)),
            ("rotate-est-frames", _map_state(state, fe=rot))]


def _in_range(state):
    return all(20.0 <= x <= 5000.0 for side in state for f in side[1] for x in f)


def _scale_edges(state):
    out = []
    for name, k in (("x2", 2.0), ("x0.5", 0.5), ("x2^(7/12)", 2.0 ** (7 / 12.0)), ("x1.5", 1.5)):
        sc = lambda f, k=k: tuple(x * k for x in f)  # noqa
        s2 = _map_state(state, fr=sc, fe=sc)
        if _in_range(s2):
            out.append((name, s2))
    return out


def _octave_edges(state):
    out = []
    for name, k in (("est-x2", 2.0), ("est-x0.5", 0.5), ("est-x4", 4.0)):
        s2 = _map_state(state, fe=lambda f, k=k: tuple(x * k for x in f))
        if _in_range(s2):
            out.append((name, s2))
    return out


CHROMA_KEYS = [k for k in FUNCS[0].keys if k.startswith("Chroma")]
TASK.edge_space = edge_space
TASK.edges = {
    "shift": {"apply": _shift_edges, "funcs": None, "keys": None, "cfgs": "all"},
    # the property claims precision / recall (/ F, here accuracy) under permutations of the frequencies of a frame
    "permute": {"apply": _perm_edges, "funcs": None,
                "keys": ["Precision", "Recall", "Accuracy", "Chroma Precision", "Chroma Recall", "Chroma Accuracy"],
                "cfgs": "all"},
    "pitchscale": {"apply": _scale_edges, "funcs": None, "keys": None},
    "octave": {"apply": _octave_edges, "funcs": None, "keys": CHROMA_KEYS},
}


# ---------------------------------------------------------------------------------- perturbed fixtures (C04)
def fixture_states(tier):
    """repository fixtures as C04 states: as is / every third estimate frame emptied / estimate time base shifted by
    3 ms (forces resampling) / one estimated pitch per frame raised by 30 cents"""
    import glob
    refs = sorted(glob.glob(os.path.join(FIXTURE_DIR, "ref*.txt")))
    out = []
    for rp in (refs if tier == "thorough" else refs[:1]):
        rt, rf = read_ragged(rp)
        et, ef = read_ragged(rp.replace("ref", "est"))
        n = 400 if tier == "thorough" else 150            # the head of the track keeps the model's cost bounded
        rt, rf, et, ef = tuple(rt[:n]), tuple(rf[:n]), tuple(et[:n]), tuple(ef[:n])
        out.append(((rt, rf), (et, ef)))
        out.append(((rt, rf), (et, tuple(() if i % 3 == 2 else f for i, f in enumerate(ef)))))
        out.append(((rt, rf), (tuple(t + 0.003 for t in et), ef)))
        out.append(((rt, rf), (et, tuple(tuple(x * 2 ** (30 / 1200.0) if j == 0 else x for j, x in enumerate(f))
                                         for f in ef))))
    return out


TASK.fixture_states = fixture_states
