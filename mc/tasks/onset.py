"""Task adapter: mir_eval.onset."""
from fractions import Fraction as Fr

import numpy as np

import mir_eval.onset as M
from mc import lib
from mc.spec import beat as S
from mc.tasks.base import Func, Task
from mc.tasks import beat as B

KEYS = ("F-measure", "Precision", "Recall")


def lattice(phase):
    base = Fr(phase, 4)
    return [float(base + Fr(k, 16)) for k in (0, 1, 2, 3, 8, 9, 16)]


def pair_space(tier, phase):
    ms = list(lib.multisets(lattice(phase), 4 if tier == "thorough" else 3))
    return [(a, b) for a in ms for b in ms]


def single_space(tier, phase):
    return list(lib.multisets(lattice(phase), 6 if tier == "thorough" else 5))


def opt(x, cfg):
    v = 1.0 if len(x) else 0.0
    return {k: v for k in KEYS}


FUNCS = [
    Func("onset.f_measure", M.f_measure, KEYS, {"window": [0.05, 1 / 16.0, 1 / 8.0, 0.0]}, B.build, B.model,
         S.onset_f_measure, {k: "P01" for k in KEYS}, optimum=opt,
         swap={"F-measure": "F-measure", "Precision": "Recall", "Recall": "Precision"},
         mono=[("window", [0.0, 1 / 32.0, 0.05, 1 / 16.0, 1 / 8.0, 3 / 16.0, 0.5])], mono_keys=list(KEYS)),
]

TASK = Task("onset", FUNCS, pair_space, single_space)


TASK.edges = {"shift": {"apply": B._shift, "funcs": None, "keys": None, "cfgs": "all"}}


# ---- repository fixtures (model bound to the recorded outputs; perturbed fixtures as extra C04 states)
def _fixture_files():
    import glob
    import os
    root = os.environ.get("VERIF_REPO") or "/repo"
    d = os.path.join(root, "tests", "data", "onset")
    return list(zip(sorted(glob.glob(d + "/ref*.txt")), sorted(glob.glob(d + "/est*.txt")),
                    sorted(glob.glob(d + "/output*.json"))))


def fixture_check(tier):
    import json
    from mc import core
    files = _fixture_files()
    if not files:
        raise core.HarnessError("onset fixtures not found")
    n = 0
    for rf, ef, of in files:
        R, E = list(B._load_events(rf)), list(B._load_events(ef))
        exp = json.load(open(of))
        f, p, r = S.onset_f_measure(R, E)
        for k, v in (("F-measure", f), ("Precision", p), ("Recall", r)):
            if abs(exp[k] - v) > 1e-7:
                raise core.HarnessError("onset reference model disagrees with recorded fixture %s key %s" % (of, k))
        n += 1
    return n


def fixture_states(tier):
    out = []
    files = _fixture_files()
    for rf, ef, _ in (files if tier == "thorough" else files[:2]):
        R, E = B._load_events(rf), B._load_events(ef)
        out += [(R, E), (R, tuple(e for i, e in enumerate(E) if i % 3 != 2)), (R, tuple(e + 1 / 64.0 for e in E)),
                (tuple(r for i, r in enumerate(R) if i % 4 != 1), E)]
    return out


TASK.fixture_check = fixture_check
TASK.fixture_states = fixture_states
