"""Task adapter: mir_eval.onset."""
from fractions import Fraction as Fr

import numpy as np

import mir_eval.onset as M
from mc import lib
from mc.spec import beat as S
from mc.tasks.base import Func, Task
from mc.tasks import beat as B

KEYS = ("F-measure", "Precision", "Recall")


def lattice(phase):
    base = Fr(phase, 4)
    return [float(base + Fr(k, 16)) for k in (0, 1, 2, 3, 8, 9, 16)]


def pair_space(tier, phase):
    ms = list(lib.multisets(lattice(phase), 4 if tier == "thorough" else 3))
    return [(a, b) for a in ms for b in ms]


def single_space(tier, phase):
    return list(lib.multisets(lattice(phase), 6 if tier == "thorough" else 5))


def opt(x, cfg):
    v = 1.0 if len(x) else 0.0
    return {k: v for k in KEYS}


FUNCS = [
    Func("onset.f_measure", M.f_measure, KEYS, {"window": [0.05, 1 / 16.0, 1 / 8.0, 0.0]}, B.build, B.model,
         S.onset_f_measure, {k: "P01" for k in KEYS}, optimum=opt,
         swap={"F-measure": "F-measure", "Precision": "Recall", "Recall": "Precision"},
         mono=[("window", [0.0, 1 / 32.0, 0.05, 1 / 16.0, 1 / 8.0, 3 / 16.0, 0.5])], mono_keys=list(KEYS)),
]

TASK = Task("onset", FUNCS, pair_space, single_space)


TASK.edges = {"shift": {"apply": B._shift, "funcs": None, "keys": None}}
