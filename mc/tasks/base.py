"""Per-task adapters shared by the generic property drivers (C01, C02, C04, C06, C07, C08, C14 ...).

A *task module* (mc/tasks/<task>.py) exports ``TASK``, an instance of ``Task``:

  TASK.name                          "beat"
  TASK.funcs                         list of Func (one per public metric function)
  TASK.pair_space(tier, phase)       list of states; a state is a pair (ref_side, est_side) of hashable,
                                     JSON-able nested tuples of plain floats/ints/strs (exact lattice values)
  TASK.single_space(tier, phase)     list of single sides for the perfect-estimate property (deeper than pairs)
  TASK.valid(side)                   (optional) True if the side is a valid annotation per the docs

  Func.name        "beat.f_measure"       (== the `site` used in violations)
  Func.fn          the real mir_eval callable
  Func.keys        names of the returned values, in return order (1 key => scalar return)
  Func.params      OrderedDict  param -> [documented default, other in-range values ...]
  Func.build(state) -> tuple of fresh positional args for the real call (numpy arrays / lists, never shared)
  Func.model(state) -> tuple of args for the reference model (Fractions for exact lattice values)
  Func.spec(*model_args, **cfg) -> expected value(s) from the documented definition, may raise Undefined
  Func.kinds       key -> range kind for C01: "P01" finite in [0,1]; "BIN" exactly 0.0 or 1.0; "LE1" finite <=1;
                   "GE0" finite >= 0; "GE0NAN" (>=0 or NaN, NaN policy via Func.nan_ok); "ANY" not a documented
                   proportion (finite only); "COND" = P01 only when Func.cond(state,cfg) holds (else finite >= 0)
  Func.optimum(side, cfg) -> dict key -> expected value when est == ref (None = metric undefined/degenerate there)
  Func.swap        dict key -> key under exchange of reference and estimate (only symmetric-criterion functions)
  Func.mono        list of (param, [ascending values]) along which every key in Func.mono_keys must not decrease
"""
import collections
import itertools
from fractions import Fraction as Fr

from mc.spec.beat import Undefined  # noqa  (the one Undefined class used by all reference models)


class Func(object):
    def __init__(self, name, fn, keys, params, build, model, spec, kinds, optimum=None, swap=None,
                 mono=None, mono_keys=None, cond=None, nan_ok=None, nested=None):
        self.name = name
        self.fn = fn
        self.keys = tuple(keys)
        self.params = collections.OrderedDict(params)
        self.build = build
        self.model = model
        self.spec = spec
        self.kinds = kinds
        self.optimum = optimum
        self.swap = swap
        self.mono = mono or []
        self.mono_keys = mono_keys or []
        self.cond = cond
        self.nan_ok = nan_ok
        self.nested = nested or []     # [(key_lo, key_hi)] : key_lo <= key_hi on every input

    def configs(self, tier):
        """Deviation-bounded configuration alphabet: the documented defaults, every single non-default
        value, and (thorough) every pair of non-default values of two different parameters."""
        out = [{}]
        names = list(self.params)
        for p in names:
            for v in self.params[p][1:]:
                out.append({p: v})
        if tier == "thorough":
            for p, q in itertools.combinations(names, 2):
                for v in self.params[p][1:]:
                    for w in self.params[q][1:]:
                        out.append({p: v, q: w})
        return out

    def call(self, state, cfg):
        """Execute the real function; returns dict key -> python float (or raises)."""
        r = self.fn(*self.build(state), **cfg)
        return self.unpack(r)

    def unpack(self, r):
        if len(self.keys) == 1:
            vals = (r,)
        else:
            vals = tuple(r)
            if len(vals) != len(self.keys):
                raise ValueError("arity %d != documented %d" % (len(vals), len(self.keys)))
        out = {}
        for k, v in zip(self.keys, vals):
            out[k] = float(v)
        return out

    def expected(self, state, cfg):
        r = self.spec(*self.model(state), **cfg)
        if len(self.keys) == 1:
            return {self.keys[0]: r}
        return dict(zip(self.keys, r))


class Task(object):
    def __init__(self, name, funcs, pair_space, single_space=None, describe=None):
        self.name = name
        self.funcs = funcs
        self.pair_space = pair_space
        self.single_space = single_space
        self.describe = describe or (lambda s: s)

    def func(self, name):
        for f in self.funcs:
            if f.name == name:
                return f
        raise KeyError(name)


def fr(x):
    return Fr(x)


def tup(x):
    """nested lists -> nested tuples (decode a JSON state)"""
    if isinstance(x, (list, tuple)):
        return tuple(tup(v) for v in x)
    return x


ALL_TASKS = ["beat", "onset", "tempo", "key", "alignment", "pattern", "melody", "multipitch", "segment", "chord",
             "transcription", "transcription_velocity", "hierarchy"]


def tasks():
    """Task adapters in use (VERIF_TASKS=<a,b> restricts them: development aid only, never in registered commands)."""
    import os
    v = os.environ.get("VERIF_TASKS")
    return [t for t in v.split(",") if t] if v else list(ALL_TASKS)


def load(name):
    import importlib
    return importlib.import_module("mc.tasks." + name).TASK
