"""Task adapter: mir_eval.pattern (see mc/tasks/base.py for the interface).

A side (annotation) is a tuple of patterns, a pattern a tuple of occurrences (first = prototype), an occurrence a
tuple of (onset, midi) pairs of plain floats on a dyadic lattice (onsets k/16 s, integer MIDI numbers).

Occurrence alphabet (DESIGN section 3, "patterns"), built from a 4-note base occurrence A with step u:
  A    (b,m) (b+u,m) (b+2u,m+i) (b+3u,m+i)
  T    A + (u, 0)          time-translate;              |A & T|  = 2  -> card exactly 0.5
  SUB  A minus one note    3 of 4 notes;                |A & SUB| = 3 -> card exactly 0.75
  D    SUB + (8u, 7) with one onset moved by 1/16 s: disjoint from everything, same size as SUB, a translate of SUB
       only for tol > 1/16 (exact-threshold state for standard_FPR's tol = 1/16)
  PT   A + (2u, i)         time+pitch-translate (thorough); |A & PT| = 2, |T & PT| = 1
pattern = 1-2 occurrences (ordered; thorough: repetition allowed); annotation = <= 2 patterns (ordered); plus the empty
annotations [] and [[[]]]; plus a small family with 1- and 2-note occurrences (the len == 1 translation clause).
"""
import itertools
import json
import os
from fractions import Fraction as Fr

import mir_eval.pattern as M
from mc import core
from mc.spec import pattern as S
from mc.tasks.base import Func, Task

FPR = ("F", "P", "R")


# ---------------------------------------------------------------------------------- state <-> arguments
def _side_build(side):
    return [[[(float(n[0]), float(n[1])) for n in occ] for occ in pat] for pat in side]


def build(state):
    return (_side_build(state[0]), _side_build(state[1]))


class HT(tuple):
    """tuple with a cached hash: the reference model memoises per pattern pair, and hashing Fractions is slow"""
    _h = None

    def __hash__(self):
        if self._h is None:
            self._h = tuple.__hash__(self)
        return self._h


_MODEL_CACHE = {}
_PATTERN_CACHE = {}


def _pattern_model(pat):
    r = _PATTERN_CACHE.get(pat)
    if r is None:
        r = HT(HT((Fr(n[0]), Fr(n[1])) for n in occ) for occ in pat)
        _PATTERN_CACHE[pat] = r         # interned: equal patterns are one object (<= a few hundred per run)
    return r


def _side_model(side):
    r = _MODEL_CACHE.get(side)
    if r is None:
        r = tuple(_pattern_model(pat) for pat in side)
        if len(_MODEL_CACHE) < 100000:
            _MODEL_CACHE[side] = r
    return r


def model(state):
    return (_side_model(state[0]), _side_model(state[1]))


# ---------------------------------------------------------------------------------- alphabet and spaces
def _f(occ):
    return tuple((float(a), float(b)) for a, b in occ)


def occurrences(phase):
    """dict name -> occurrence (tuple of float pairs); every phase moves the origin, the step, the interval and
    the note that SUB drops / D perturbs."""
    u = Fr(1, 4) if phase % 2 == 0 else Fr(1, 2)
    b = Fr(1) + Fr(3 * phase, 16)
    m = 60 + phase
    i = 2 + phase % 3
    A = [(b, m), (b + u, m), (b + 2 * u, m + i), (b + 3 * u, m + i)]
    T = [(t + u, p) for t, p in A]
    PT = [(t + 2 * u, p + i) for t, p in A]
    drop = phase % 4
    SUB = [n for k, n in enumerate(A) if k != drop]
    bump = (phase // 2) % 3
    D = [(t + 8 * u + (Fr(1, 16) if k == bump else 0), p + 7) for k, (t, p) in enumerate(SUB)]
    N1 = [A[0]]
    N1B = [A[2]]
    N2 = [A[0], A[2]]
    N2T = [(t + 2 * u, p + 1) for t, p in N2]          # a translate of N2
    N2P = [N2[0], (N2[1][0], N2[1][1] + 1)]            # same onsets as N2, other interval: differs in pitch only
    out = dict(A=A, T=T, SUB=SUB, D=D, PT=PT, N1=N1, N1B=N1B, N2=N2, N2T=N2T, N2P=N2P)
    return {k: _f(v) for k, v in out.items()}


def alphabet(tier, phase):
    o = occurrences(phase)
    names = ("A", "T", "SUB", "D", "PT") if tier == "thorough" else ("A", "T", "SUB", "D")
    return [o[k] for k in names]


def patterns_over(alpha, max_occ, repeats=True):
    out = []
    for n in range(1, max_occ + 1):
        out.extend(itertools.product(alpha, repeat=n) if repeats else itertools.permutations(alpha, n))
    return out


def lists_over(pats, max_pat, min_pat=1):
    out = []
    for n in range(min_pat, max_pat + 1):
        out.extend(itertools.product(pats, repeat=n))
    return out


EMPTY = ((), (((),),))          # [] and [[[]]]


def sides(tier, phase):
    out = list(EMPTY)
    # quick: a pattern does not repeat an occurrence (16 patterns, 274 sides); thorough: it may (30 patterns, 932)
    out += lists_over(patterns_over(alphabet(tier, phase), 2, repeats=(tier == "thorough")), 2)
    return out


def small_sides(phase):
    """1- and 2-note occurrences (len(P) == len(Q) == 1 clause; denominators 1, 2, 4)."""
    o = occurrences(phase)
    pats = [(o["N1"],), (o["N1B"],), (o["N2"],), (o["N2T"],), (o["N2P"],), (o["A"],), (o["N1"], o["N2"])]
    return list(EMPTY) + lists_over(pats, 2)


def pair_space(tier, phase):
    sd = sides(tier, phase)
    states = [(a, b) for a in sd for b in sd]
    seen = set(states)
    sm = small_sides(phase)
    for a in sm:
        for b in sm:
            if (a, b) not in seen:
                seen.add((a, b))
                states.append((a, b))
    return states


def range_space(tier, phase):
    """C01 only (no reference model involved): the pair space plus occurrences that list a note more than once -
    'duplicated' annotations of the property's quantifier.  The set-based definitions still bound every score by 1
    (|P n Q| counts distinct notes, the normalisers count listed notes)."""
    o = occurrences(phase)
    a = o["A"]
    dup = (a[0],) + tuple(a)                       # first note listed twice
    n3 = (a[0],) * 3                               # one note listed three times
    dmid = tuple(a[:2]) + (a[1],) + tuple(a[2:])   # a middle note listed twice
    dpats = [(dup,), (n3,), (dmid,), (dup, a), (n3, o["N1"]), (a, dup)]
    dsides = lists_over(dpats, 2)
    others = list(EMPTY) + lists_over([(a,), (o["N1"],), (o["T"],), (a, o["T"]), (o["SUB"],)], 2)
    states = pair_space(tier, phase)
    seen = set(states)
    for x in dsides:
        for y in dsides + others:
            for st in ((x, y), (y, x)):
                if st not in seen:
                    seen.add(st)
                    states.append(st)
    return states


def single_space(tier, phase):
    o = occurrences(phase)
    full = [o[k] for k in ("A", "T", "SUB", "D", "PT")]
    out = list(EMPTY)
    seen = set(out)

    def add(xs):
        for x in xs:
            if x not in seen:
                seen.add(x)
                out.append(x)
    if tier == "thorough":
        add(lists_over(patterns_over(full, 3), 2))
        add(lists_over(patterns_over(full, 2), 3, 3))
    else:
        add(lists_over(patterns_over(full, 2), 2))
        add(lists_over(patterns_over(full[:4], 2), 3, 3))
    add(small_sides(phase))
    add(lists_over([(o["N1"],), (o["N2"],), (o["N1"], o["N2"])], 3, 3))
    return out


def valid(side):
    """valid per the module docstring: every pattern has >= 1 occurrence; an annotation is either entirely
    without notes or has no empty occurrence; notes inside an occurrence are distinct."""
    if any(len(p) == 0 for p in side):
        return False
    if S.n_onsets(side) == 0:
        return True
    return all(len(o) > 0 and len(set(o)) == len(o) for p in side for o in p)


# ---------------------------------------------------------------------------------- C02
def _opt(keys, first_n=False):
    def opt(x, cfg):
        ok = S.n_onsets(x) > 0 and valid(x)
        if ok and first_n and len(x) > cfg.get("n", 5):
            ok = False          # the property: first-n scores are optimal only for <= n patterns
        return {k: (1.0 if ok else None) for k in keys}
    return opt


# ---------------------------------------------------------------------------------- C08 helpers (relations)
def shift_side(side, delta, dpitch=0):
    """add delta (exact dyadic) to every onset (and dpitch to every MIDI number)"""
    return tuple(tuple(tuple((float(Fr(n[0]) + Fr(delta)), float(Fr(n[1]) + Fr(dpitch))) for n in occ)
                       for occ in pat) for pat in side)


def shift_state(state, delta):
    """the C08 time-origin relation: the same offset on both sides; every function's scores must not change"""
    return (shift_side(state[0], delta), shift_side(state[1], delta))


def ref_list_permutations(state):
    """all states that differ from `state` by a permutation of the reference pattern list (every function)"""
    return [(tuple(p), state[1]) for p in itertools.permutations(state[0]) if tuple(p) != state[0]]


def occurrence_permutations(state, keep_prototype=False):
    """states that differ by permuting the occurrences inside reference patterns.  The first occurrence is the
    documented prototype: standard_FPR may legitimately change unless keep_prototype=True; establishment,
    occurrence, three-layer and first-n scores must not change."""
    out = []
    choices = []
    for pat in state[0]:
        if keep_prototype:
            choices.append([pat[:1] + tuple(p) for p in itertools.permutations(pat[1:])])
        else:
            choices.append([tuple(p) for p in itertools.permutations(pat)])
    for combo in itertools.product(*choices):
        if tuple(combo) != state[0]:
            out.append((tuple(combo), state[1]))
    return out


PERMUTATION_SAFE = {     # function -> relations of C08 under which all of its keys are invariant
    "pattern.standard_FPR": ("shift", "ref_list", "occurrences_keeping_prototype"),
    "pattern.establishment_FPR": ("shift", "ref_list", "occurrences"),
    "pattern.occurrence_FPR": ("shift", "ref_list", "occurrences"),
    "pattern.three_layer_FPR": ("shift", "ref_list", "occurrences"),
    "pattern.first_n_three_layer_P": ("shift", "ref_list", "occurrences"),
    "pattern.first_n_target_proportion_R": ("shift", "ref_list", "occurrences"),
}


# ---------------------------------------------------------------------------------- witness predicates
def _case_sides(case):
    from mc.tasks.base import tup
    if case.get("kind") == "single":
        x = tup(case["x"])
        return x, x
    return tup(case["ref"]), tup(case["est"])


def pattern_first_n_tuple_on_empty(case, observed=None):
    """first_n_three_layer_P / first_n_target_proportion_R returned the 3-tuple (0., 0., 0.) instead of the
    documented single float when either annotation has no onsets (DESIGN section 10 row 2; fixed in /repo 4c3ef5b)."""
    if case.get("func") not in ("pattern.first_n_three_layer_P", "pattern.first_n_target_proportion_R"):
        return False
    r, e = _case_sides(case)
    return S.n_onsets(r) == 0 or S.n_onsets(e) == 0


def pattern_standard_overcount(case, observed=None):
    """standard_FPR precision = k / n_Q with k counted over reference prototypes: > 1 when more reference
    prototypes are translates of estimated prototypes than there are estimated patterns."""
    if case.get("func") != "pattern.standard_FPR":
        return False
    r, e = _case_sides(case)
    if S.n_onsets(r) == 0 or S.n_onsets(e) == 0:
        return False
    tol = case.get("cfg", {}).get("tol", 1e-5)
    R, E = _side_model(r), _side_model(e)
    k = sum(1 for rp in R if any(S.is_translate(rp[0], ep[0], tol) for ep in E))
    return k > len(E)


# ---------------------------------------------------------------------------------- fixtures
FIXTURE_DIR = "/repo/tests/data/pattern"
# recorded values that encode a known defect (DESIGN section 10 row 1, fixed in /repo 0e89831): pattern.evaluate
# used to pass `thresh`, which occurrence_FPR does not accept, so the recorded *_occ.5 entries of output*.json were
# computed at the default 0.75.  For these keys (only) a recorded value that differs from the model at c = .5 must
# equal the model at c = .75; such keys are counted in fixture_check.defect_encoded.
DEFECT_KEYS = {"F_occ.5": "evaluate() forces kwargs['thresh'] but occurrence_FPR takes 'thres' (computed at .75)",
               "P_occ.5": "same", "R_occ.5": "same"}


def read_patterns(path):
    """Minimal reader of the MIREX pattern format (own code, not mir_eval.io)."""
    out, pat, occ = [], None, None
    with open(path) as fh:
        for line in fh:
            line = line.strip()
            if not line:
                continue
            if line.startswith("pattern"):
                pat = []
                out.append(pat)
                occ = None
            elif line.startswith("occurrence"):
                occ = []
                pat.append(occ)
            else:
                a, b = line.split(",")
                occ.append((float(a), float(b)))
    return [p for p in ([[o for o in p if o] for p in out]) if p]


def fixture_dir():
    root = os.environ.get("VERIF_REPO") or "/repo"
    d = os.path.join(root, "tests", "data", "pattern")
    return d if os.path.isdir(d) else FIXTURE_DIR


def fixture_check(tier):
    d = fixture_dir()
    outs = sorted(f for f in os.listdir(d) if f.startswith("output") and f.endswith(".json"))
    if not outs:
        raise core.HarnessError("no pattern fixtures in %s" % d)
    n = 0
    for f in outs:
        tag = f[len("output"):-len(".json")]
        with open(os.path.join(d, f)) as fh:
            rec = json.load(fh)
        R = read_patterns(os.path.join(d, "ref%s.txt" % tag))
        E = read_patterns(os.path.join(d, "est%s.txt" % tag))
        try:
            got = S.evaluate(R, E)
        except S.Undefined:
            fixture_check.near_threshold += 1
            continue
        if set(got) != set(rec):
            raise core.HarnessError("pattern fixture %s: key sets differ %r" % (f, sorted(set(got) ^ set(rec))))
        for k in S.EVAL_KEYS:
            if abs(float(got[k]) - float(rec[k])) <= 1e-7:
                continue
            if k in DEFECT_KEYS:
                # recorded under the defect: must then equal the model's value at the default threshold
                alt = float(got[k.replace(".5", ".75")])
                if abs(alt - float(rec[k])) <= 1e-7:
                    fixture_check.defect_encoded += 1
                    continue
            raise core.HarnessError("pattern reference model does not reproduce fixture %s key %s: model %r "
                                    "recorded %r" % (f, k, float(got[k]), rec[k]))
        n += 1
    return n


fixture_check.near_threshold = 0
fixture_check.defect_encoded = 0


# ---------------------------------------------------------------------------------- functions
P01 = {k: "P01" for k in FPR}
SWAP = {"F": "F", "P": "R", "R": "P"}
SIM = {"similarity_metric": ["cardinality_score"]}

FUNCS = [
    Func("pattern.standard_FPR", M.standard_FPR, FPR, {"tol": [1e-5, 1 / 16.0, 1 / 8.0]}, build, model,
         S.standard_FPR, dict(P01), optimum=_opt(FPR)),
    Func("pattern.establishment_FPR", M.establishment_FPR, FPR, dict(SIM), build, model,
         S.establishment_FPR, dict(P01), optimum=_opt(FPR), swap=dict(SWAP)),
    Func("pattern.occurrence_FPR", M.occurrence_FPR, FPR,
         [("thres", [0.75, 0.5, 1.0]), ("similarity_metric", ["cardinality_score"])], build, model,
         S.occurrence_FPR, dict(P01), optimum=_opt(FPR), swap=dict(SWAP)),
    Func("pattern.three_layer_FPR", M.three_layer_FPR, FPR, {}, build, model,
         S.three_layer_FPR, dict(P01), optimum=_opt(FPR), swap=dict(SWAP)),
    Func("pattern.first_n_three_layer_P", M.first_n_three_layer_P, ["P"], {"n": [5, 1, 2]}, build, model,
         S.first_n_three_layer_P, {"P": "P01"}, optimum=_opt(["P"], first_n=True)),
    Func("pattern.first_n_target_proportion_R", M.first_n_target_proportion_R, ["R"], {"n": [5, 1, 2]}, build,
         model, S.first_n_target_proportion_R, {"R": "P01"}, optimum=_opt(["R"], first_n=True)),
]

TASK = Task("pattern", FUNCS, pair_space, single_space)
TASK.valid = valid
TASK.fixture_check = fixture_check


# ---------------------------------------------------------------------------------- C08 edge relations
def edge_space(tier, phase):
    """smaller pair space for the two-execution relations: sides of <=2 patterns over {A, T, SUB} (+D thorough),
    patterns of 1-2 distinct occurrences, plus the empty annotation"""
    al = alphabet(tier, phase)[:4 if tier == "thorough" else 3]
    sd = [()] + lists_over(patterns_over(al, 2, repeats=False), 2)
    return [(a, b) for a in sd for b in sd]


def _shift_edges(state):
    return [("+%g" % d, shift_state(state, d)) for d in (1 / 16.0, 3.0, 1000.0)]


def _perm_edges(state):
    # the property names the reference pattern LIST; the order of occurrences inside a pattern is not claimed (the
    # first occurrence is the documented prototype), so those edges are not generated for C08
    return [("ref-list", s2) for s2 in ref_list_permutations(state)]


def _perm_free_edges(state):
    return [("occurrences", s2) for s2 in occurrence_permutations(state, False)]


TASK.edge_space = edge_space
TASK.range_space = range_space
TASK.edges = {
    "shift": {"apply": _shift_edges, "funcs": None, "keys": None, "cfgs": "all"},
    "permute": {"apply": _perm_edges, "funcs": None, "keys": None, "cfgs": "all"},
    # the first occurrence is the documented prototype, so standard_FPR is exempt from free occurrence permutations
    "permute-occurrences": {"apply": _perm_free_edges,
                            "funcs": ["pattern.establishment_FPR", "pattern.occurrence_FPR",
                                      "pattern.three_layer_FPR", "pattern.first_n_three_layer_P",
                                      "pattern.first_n_target_proportion_R"], "keys": None},
}
