"""Task adapter: mir_eval.alignment (see mc/tasks/base.py for the interface).

A state is (reference_timestamps, estimated_timestamps): two equal-length, non-empty, non-decreasing tuples of
non-negative dyadic times (duplicates are valid: validate() only demands differences >= 0).

S: all pairs of equal-length multisets of 1..3 (thorough 1..4) points of a 7 (thorough 8: + 20/16) point lattice
   k/16 + phase/8 s;
   even phases use k in {0,1,2,8,9,16,24}: differences 1/16, 2/16, 8/16 hit the dyadic windows exactly;
   odd phases use k in {0,1,4,5,8,13,16}: differences 4/16 and 5/16 straddle the default window 0.3.
D: regular references (inter-onset words over {7,8,9}/16, 5 (thorough 6) timestamps) x estimates = the reference
   with <= 1 (thorough <= 2) timestamps moved by +-1/16, +-2/16 (kept valid).

`defined(state, cfg)` (attribute on the PCS Func): False where PCS documents a ValueError (duration=None and
all reference timestamps identical; a timestamp beyond the given duration) - those states are outside the claim.
"""
import glob
import itertools
import json
import os
from fractions import Fraction as Fr

import numpy as np

import mir_eval.alignment as M
from mc import core, lib
from mc.spec import alignment as S
from mc.tasks.base import Func, Task


def build(state):
    return (np.array(state[0], dtype=float), np.array(state[1], dtype=float))


def model(state):
    return ([Fr(x) for x in state[0]], [Fr(x) for x in state[1]])


# ---------------------------------------------------------------------------------- spaces
def lattice(tier, phase):
    ks = (0, 1, 2, 8, 9, 16, 24) if phase % 2 == 0 else (0, 1, 4, 5, 8, 13, 16)
    if tier == "thorough":
        ks = tuple(sorted(ks + (20,)))
    base = Fr(phase, 8)
    return [float(base + Fr(k, 16)) for k in ks]


def _regular_refs(phase, n_intervals):
    base = Fr(phase, 8)
    out = []
    for word in itertools.product((7, 8, 9), repeat=n_intervals):
        t, seq = base, [base]
        for w in word:
            t += Fr(w, 16)
            seq.append(t)
        out.append(tuple(float(x) for x in seq))
    return out


def _moves(x, k):
    """x with at most k entries moved by +-1/16 or +-2/16, result still a valid annotation."""
    n = len(x)
    out = [tuple(x)]
    for m in range(1, k + 1):
        for idx in itertools.combinations(range(n), m):
            for ds in itertools.product((-2, -1, 1, 2), repeat=m):
                y = list(x)
                for i, d in zip(idx, ds):
                    y[i] = float(Fr(y[i]) + Fr(d, 16))
                if y[0] >= 0 and all(b >= a for a, b in zip(y, y[1:])):
                    out.append(tuple(y))
    return out


def pair_space(tier, phase):
    thorough = tier == "thorough"
    pts = lattice(tier, phase)
    states = []
    for n in range(1, (4 if thorough else 3) + 1):
        ms = list(itertools.combinations_with_replacement(pts, n))
        states += [(a, b) for a in ms for b in ms]
    seen = set(states)
    for ref in _regular_refs(phase, 5 if thorough else 4):
        for est in _moves(ref, 2 if thorough else 1):
            if (ref, est) not in seen:
                seen.add((ref, est))
                states.append((ref, est))
    return states


def single_space(tier, phase):
    thorough = tier == "thorough"
    out = list(lib.multisets(lattice(tier, phase), 6 if thorough else 5, 1))
    out += _regular_refs(phase, 7 if thorough else 6)
    return out


# ---------------------------------------------------------------------------------- per function
def pcs_defined(state, cfg):
    R, E = model(state)
    d = cfg.get("duration")
    return S.pcs_defined(R, E, None if d is None else Fr(d))


def opt_ae(x, cfg):
    return {"mae": 0.0, "aae": 0.0}


def opt_pc(x, cfg):
    return {"pc": 1.0}


def opt_pcs(x, cfg):
    return {"pcs": 1.0 if pcs_defined((x, x), cfg) else None}


WINDOWS = [0.3, 0.5, 0.125, 0.0625, 0.0]
DURATIONS = [None, 4.0, 2.0, 1.0]

F_AE = Func("alignment.absolute_error", M.absolute_error, ["mae", "aae"], {}, build, model, S.absolute_error,
            {"mae": "GE0", "aae": "GE0"}, optimum=opt_ae)
F_PC = Func("alignment.percentage_correct", M.percentage_correct, ["pc"], {"window": WINDOWS}, build, model,
            S.percentage_correct, {"pc": "P01"}, optimum=opt_pc,
            mono=[("window", [0.0, 1 / 32.0, 1 / 16.0, 1 / 8.0, 0.25, 0.3, 5 / 16.0, 0.5, 1.0, 2.0])],
            mono_keys=["pc"])
F_PCS = Func("alignment.percentage_correct_segments", M.percentage_correct_segments, ["pcs"],
             {"duration": DURATIONS}, build, model, S.percentage_correct_segments, {"pcs": "P01"},
             optimum=opt_pcs)
F_PCS.defined = pcs_defined
# not a documented proportion ("by construction not equal to 1 at 0"): finite only in C01, no optimum in C02
F_KPM = Func("alignment.karaoke_perceptual_metric", M.karaoke_perceptual_metric, ["perceptual"], {}, build, model,
             S.karaoke_perceptual_metric, {"perceptual": "ANY"}, optimum=None)

FUNCS = [F_PC, F_AE, F_PCS, F_KPM]


# ---------------------------------------------------------------------------------- fixtures
def _load(path):
    out = []
    with open(path) as f:
        for line in f:
            line = line.strip()
            if not line or line.startswith("#"):
                continue
            out.append(float(line.split()[0]))
    return out


def fixture_check(tier):
    """Model (not the library) vs the recorded tests/data/alignment/output*.json (tests/test_alignment.py:
    alignment.evaluate with defaults, i.e. window 0.3 and PCS in MIREX mode, duration=None)."""
    root = os.path.join(os.environ.get("VERIF_REPO", "/repo"), "tests", "data", "alignment")
    refs = sorted(glob.glob(os.path.join(root, "ref*.txt")))
    ests = sorted(glob.glob(os.path.join(root, "est*.txt")))
    outs = sorted(glob.glob(os.path.join(root, "output*.json")))
    if not (len(refs) == len(ests) == len(outs) > 0):
        raise core.HarnessError("alignment fixtures not found under %s" % root)
    n = near = 0
    for rf, ef, of in zip(refs, ests, outs):
        R, E = _load(rf), _load(ef)
        with open(of) as f:
            want = json.load(f)
        if sorted(want) != sorted(S.EVAL_KEYS):
            raise core.HarnessError("alignment fixture %s: key set %r" % (of, sorted(want)))
        got = {}
        try:
            got["pc"] = S.percentage_correct(R, E, eps=1e-7)
        except S.Undefined:
            near += 1                      # a deviation within 1e-7 of the window: pc not decidable, counted
        got["mae"], got["aae"] = S.absolute_error(R, E)
        got["pcs"] = S.percentage_correct_segments(R, E)
        got["perceptual"] = S.karaoke_perceptual_metric(R, E)
        for k, v in got.items():
            if abs(float(v) - float(want[k])) > 1e-7:
                raise core.HarnessError("alignment model does not reproduce fixture %s: %s model=%r recorded=%r"
                                        % (os.path.basename(of), k, v, want[k]))
        n += 1
    fixture_check.near_threshold_pairs = near
    return n


TASK = Task("alignment", FUNCS, pair_space, single_space)
TASK.fixture_check = fixture_check


# C08: a common time offset must not change the deviation statistics nor PCS in MIREX mode (duration=None);
# the lattice is dyadic, so x + d is exact
def _shift(state):
    from fractions import Fraction as Fr
    out = []
    for d in (1 / 16.0, 1.0, 1000.0):
        out.append(("+%g" % d, (tuple(float(Fr(x) + Fr(d)) for x in state[0]),
                                tuple(float(Fr(x) + Fr(d)) for x in state[1]))))
    return out


TASK.edges = {"shift": {"apply": _shift, "funcs": ["alignment.absolute_error", "alignment.percentage_correct",
                                                   "alignment.percentage_correct_segments",
                                                   "alignment.karaoke_perceptual_metric"], "keys": None, "cfgs": [{}]}}
