"""Task adapter: mir_eval.transcription_velocity (see mc/tasks/base.py and mc/tasks/transcription.py).

State = (ref_notes, est_notes); a note is (onset, offset, pitch_hz, velocity) with velocity in {0, 40, 64, 127}.

The velocity filter is documented as applied to "a" maximum note matching, which is not unique; the regression
(and so Precision / Recall / F-measure / Average_Overlap_Ratio *jointly*) depends on which one is taken.  The
reference model enumerates every maximum note matching and returns the set of admissible result tuples (`Choice`);
the library's result must equal one of them (all four outputs from the same matching).
"""
import itertools
import json
import os
from fractions import Fraction as Fr

import numpy as np

import mir_eval.transcription as MT
import mir_eval.transcription_velocity as M
from mc import core, lib
from mc.spec import transcription as S
from mc.tasks.base import Func, Task
from mc.tasks import transcription as TT
from mc.tasks.transcription import ChoiceFunc, PRF, PRFO, T, base_of, cents, f0_of

VELS = (0.0, 40.0, 64.0, 127.0)


def _vel(side):
    return np.array([n[3] for n in side], dtype=float)


def build(state):
    r, e = state
    return (TT._intervals(r), TT._pitches(r), _vel(r), TT._intervals(e), TT._pitches(e), _vel(e))


def build_no_velocity(state):
    return TT.build(state)


_MODEL_CACHE = [None, None]


def model(state):
    if _MODEL_CACHE[0] is not state:
        _MODEL_CACHE[0] = state
        _MODEL_CACHE[1] = tuple([(Fr(n[0]), Fr(n[1]), float(n[2]), Fr(n[3])) for n in side] for side in state)
    return _MODEL_CACHE[1]


# ---------------------------------------------------------------------------------- lattices
def note_parts(phase, n=4):
    """Timing/pitch parts: A, a near copy B (A~B), a quarter-tone neighbour C with B~C but not A~C (onset 60 ms
    from A): a non-transitive triple, so that path-shaped feasibility graphs (several maximum matchings) occur;
    and a far note D."""
    b, f0 = base_of(phase), f0_of(phase)
    near = 5 if phase % 2 == 0 else 4
    parts = [(0, 25, 0), (near, 25, 0), (6, 25, 49), (50, 25, 0)]
    if phase % 4 >= 2:
        parts = [parts[1], parts[0], parts[3], parts[2]]        # input order varies with the phase
    return [(T(b + on), T(b + on + d), cents(f0, c)) for on, d, c in parts[:n]]


def alphabet(phase, n_parts=4, vels=VELS):
    return [p + (v,) for p in note_parts(phase, n_parts) for v in vels]


def slots(phase, n):
    """n well separated notes (0.5 s and 200 cents apart)."""
    b, f0 = base_of(phase) + 10, f0_of(phase)
    return [(T(b + 50 * k), T(b + 50 * k + 25), cents(f0, 200 * k)) for k in range(n)]


def slot_space(phase, n, vels, extra):
    """Reference = the n slots with every velocity word; estimate = the same notes with every velocity word
    (regression over n matched pairs), optionally plus a near-duplicate of slot 1 (ambiguous matching)."""
    sl = slots(phase, n)
    out = []
    words = list(itertools.product(vels, repeat=n))
    for rv in words:
        ref = tuple(s + (v,) for s, v in zip(sl, rv))
        for ev in words:
            est = tuple(s + (v,) for s, v in zip(sl, ev))
            out.append((ref, est))
            if extra:
                dup = TT._shift(sl[1], don=1000, doff=1000)
                for v in vels:
                    out.append((ref, est[:2] + (dup + (v,),) + est[2:]))
    return out


def pair_space(tier, phase):
    thorough = tier == "thorough"
    sets = list(lib.multisets(alphabet(phase), 2))
    states = [(a, b) for a in sets for b in sets]
    seen = set(states)
    extra = []
    if thorough:
        s3 = list(lib.multisets(alphabet(phase, 3, (0.0, 64.0, 127.0)), 3))
        extra += [(a, b) for a in s3 for b in s3]
        extra += slot_space(phase, 4, (0.0, 64.0, 127.0), False)
        extra += slot_space(phase, 3, VELS, True)
    else:
        extra += slot_space(phase, 3, VELS, False)
        extra += slot_space(phase, 3, (0.0, 64.0, 127.0), True)
    # short notes: 0.2 * duration < 0.05, so the offset tolerance is the offset_min_tolerance floor itself and an
    # offset error of 20 / 40 ms lies between the documented default floor (50 ms) and the non-default one (10 ms)
    b, f0 = base_of(phase) + 30, f0_of(phase)
    for dv in ((0.0, 0.0), (64.0, 64.0), (0.0, 127.0)):
        for err in (2, 4):
            ref = ((T(b), T(b + 10), f0, dv[0]), (T(b + 100), T(b + 125), cents(f0, 200), 64.0))
            est = ((T(b), T(b + 10 + err), f0, dv[1]), (T(b + 100), T(b + 125), cents(f0, 200), 64.0))
            extra.append((ref, est))
            extra.append((ref[:1], est[:1]))
    for st in extra:
        if st not in seen:
            seen.add(st)
            states.append(st)
    return states


def single_space(tier, phase):
    out = []
    for t in lib.multisets(alphabet(phase), 4 if tier == "thorough" else 3):
        out.extend(TT._orders(t))
    sl = slots(phase, 4)
    for vs in itertools.product(VELS, repeat=4):
        out.append(tuple(s + (v,) for s, v in zip(sl, vs)))
    return out


def opt(x, cfg):
    v = 1.0 if len(x) else 0.0
    return {k: v for k in PRFO}


def ambiguous_self_matching(x, cfg, func=""):
    return TT.ambiguous_self_matching([n[:3] for n in x], cfg, func)


KINDS = {"Precision": "P01", "Recall": "P01", "F-measure": "P01", "Average_Overlap_Ratio": "LE1"}
VEL_CHAIN = ("velocity_tolerance", [0.01, 0.05, 0.1, 0.3, 0.6, 0.9, 1.5])    # no value is an exact tie (1/2, 1/4)

_F_VEL = "transcription_velocity.precision_recall_f1_overlap"
_F_NOVEL = "transcription.precision_recall_f1_overlap[ignoring_velocity]"

FUNCS = [
    ChoiceFunc(_F_VEL, M.precision_recall_f1_overlap, PRFO,
               [("onset_tolerance", [0.05, 0.04]), ("pitch_tolerance", [50.0, 1.0]),
                ("offset_ratio", [0.2, None]), ("offset_min_tolerance", [0.05, 0.01]), ("strict", [False, True]),
                ("velocity_tolerance", [0.1, 0.05, 0.3, 0.6]), ("beta", [1.0, 2.0])],
               build, model, S.velocity_precision_recall_f1_overlap, KINDS, optimum=opt,
               # only the velocity tolerance chain: the note matching (hence the regression) does not depend
               # on it, so the kept set can only grow.  Widening a *note* tolerance changes the matching and the
               # fitted line; the kept count is not monotone by definition (see TASK.mono_not_claimed).
               mono=[VEL_CHAIN], mono_keys=list(PRF)),
    # the same notes scored by mir_eval.transcription (velocities dropped): upper side of the C07 nested
    # relation "with velocity <= without"; optimum=None (C02 for this function belongs to the transcription task)
    ChoiceFunc(_F_NOVEL, MT.precision_recall_f1_overlap, PRFO,
               [("offset_ratio", [0.2, None]), ("strict", [False, True])],
               build_no_velocity, model, S.precision_recall_f1_overlap, KINDS),
]

TASK = Task("transcription_velocity", FUNCS, pair_space, single_space)
TASK.mono_not_claimed = [TT.ONSET_CHAIN, TT.PITCH_CHAIN, TT.RATIO_CHAIN, TT.MIN_CHAIN, TT.STRICT_CHAIN]
TASK.ambiguous_self_matching = ambiguous_self_matching

# C07 nested "with velocity <= without" (Precision, Recall, F-measure: same denominators, fewer hits)
TASK.cross_nested = []
for _cfg in ({}, {"offset_ratio": None}, {"strict": True}, {"velocity_tolerance": 0.6}, {"velocity_tolerance": 0.05},
             {"offset_min_tolerance": 0.01}, {"onset_tolerance": 0.04}, {"pitch_tolerance": 1.0}):
    _hi = {k: v for k, v in _cfg.items() if k in ("offset_ratio", "strict", "offset_min_tolerance", "onset_tolerance",
                                                   "pitch_tolerance")}
    for _k in PRF:
        TASK.cross_nested.append(((_F_VEL, _k, dict(_cfg)), (_F_NOVEL, _k, dict(_hi))))


# ---------------------------------------------------------------------------------- fixtures
FIXTURE_DIR = "/repo/tests/data/transcription_velocity"
ENUM_LIMIT = 1 << 16


def _moments(pairs, ref_norm, E):
    n = len(pairs)
    sx = sum(E[j][3] for _, j in pairs)
    sy = sum(ref_norm[i] for i, _ in pairs)
    sxx = sum(E[j][3] ** 2 for _, j in pairs)
    sxy = sum(E[j][3] * ref_norm[i] for i, j in pairs)
    return n, sx, sy, sxx, sxy


def _fixture_results(R, E, offset_ratio, report):
    """Admissible (kept count, AOR) pairs over all maximum matchings, or None when there are too many."""
    adj = S.graph(R, E, S.note_pred(R, E, offset_ratio=offset_ratio), window=0.06)
    ref_norm = S.normalise_velocities(R)
    fixed, alts = [], []
    for refs, _ in S.components(adj):
        ms = S.maximum_matchings(adj, refs)
        if len(ms) == 1:
            fixed.extend(ms[0])
        else:
            alts.append(ms)
    size = len(fixed) + sum(len(a[0]) for a in alts)
    ncomb = 1
    for a in alts:
        ncomb *= len(a)
    report["max_matchings"] = ncomb
    if ncomb > ENUM_LIMIT:
        return size, None
    f0 = _moments(fixed, ref_norm, E)
    alt_m = [[_moments(m, ref_norm, E) for m in a] for a in alts]
    # pass 1: the regression line of every admissible matching
    lines = []
    for combo in itertools.product(*[range(len(a)) for a in alts]):
        n, sx, sy, sxx, sxy = f0
        for a, c in zip(alt_m, combo):
            n, sx, sy, sxx, sxy = n + a[c][0], sx + a[c][1], sy + a[c][2], sxx + a[c][3], sxy + a[c][4]
        mx, my = sx / n, sy / n
        var = sxx - n * mx * mx
        slope = (sxy - n * mx * my) / var if var > 1e-9 else 0.0
        lines.append((combo, slope, my - slope * mx))
    # pairs of the unambiguous part whose decision is the same for every line are decided once
    xbar = f0[1] / max(1, f0[0])
    s_lo, s_hi = min(l[1] for l in lines), max(l[1] for l in lines)
    c_lo = min(l[2] + l[1] * xbar for l in lines)
    c_hi = max(l[2] + l[1] * xbar for l in lines)
    tol = 0.1
    sure, unsure, sure_or = 0, [], 0.0
    for i, j in fixed:
        dx = E[j][3] - xbar
        lo = min(s_lo * dx, s_hi * dx) + c_lo - ref_norm[i]
        hi = max(s_lo * dx, s_hi * dx) + c_hi - ref_norm[i]
        if max(abs(lo), abs(hi)) < tol - 1e-7:
            sure += 1
            sure_or += S.overlap_ratio(R[i], E[j])
        elif lo > tol + 1e-7 or hi < -tol - 1e-7:
            pass
        else:
            unsure.append((i, j))
    results = set()
    for combo, slope, icpt in lines:
        k, tot = sure, sure_or
        todo = list(unsure)
        for a, c in zip(alts, combo):
            todo.extend(a[c])
        for i, j in todo:
            err = abs(slope * E[j][3] + icpt - ref_norm[i])
            if abs(err - tol) < 1e-7:
                report["near"] = report.get("near", 0) + 1
            if err < tol:
                k += 1
                tot += S.overlap_ratio(R[i], E[j])
        results.add((k, round(tot / k, 10) if k else 0.0))
    return size, sorted(results)


def fixture_check(tier):
    files = sorted(f for f in os.listdir(FIXTURE_DIR) if f.startswith("output"))
    rep = {"pairs": 0, "values": 0, "exact_sets": 0, "too_ambiguous_upper_bound_only": 0, "near_threshold_pairs": 0,
           "detail": {}}
    for fn in files:
        tag = fn[len("output"):-len(".json")]
        R = TT._load_notes(os.path.join(FIXTURE_DIR, "ref%s.txt" % tag))
        E = TT._load_notes(os.path.join(FIXTURE_DIR, "est%s.txt" % tag))
        with open(os.path.join(FIXTURE_DIR, fn)) as f:
            rec = json.load(f)
        bad, near_any = [], False
        if tuple(rec) != S.VELOCITY_EVALUATE_KEYS:
            bad.append(("key set", list(rec)))
        for suffix, ratio in (("", 0.2), ("_no_offset", None)):
            r = {}
            with S.float_mode() as fm:
                size, results = _fixture_results(R, E, ratio, r)
                near = fm.near + r.get("near", 0)
            near_any = near_any or bool(near)
            names = [k + suffix for k in PRFO]
            got = tuple(rec[k] for k in names)
            rep["detail"]["%s%s" % (fn, suffix)] = {"max_matchings": r["max_matchings"], "near": near,
                                                   "note_matching_size": size}
            if results is None:
                rep["too_ambiguous_upper_bound_only"] += 1
                # necessary condition only: the velocity filter never adds pairs
                if got[0] * len(E) > size + 1e-6 or got[1] * len(R) > size + 1e-6:
                    bad.append((names[0], "more hits than the maximum note matching (%d)" % size, got))
                continue
            rep["exact_sets"] += 1
            rep["values"] += 4
            ok = False
            for k, aor in results:
                p, rc = k / len(E), k / len(R)
                f = lib.fbeta(p, rc)
                if max(abs(p - got[0]), abs(rc - got[1]), abs(f - got[2]), abs(aor - got[3])) <= 1e-7:
                    ok = True
            if not ok and not near:
                bad.append((names, results[:8], got))
            elif not ok:
                rep["detail"]["%s%s" % (fn, suffix)]["near_threshold_mismatch"] = True
        rep["pairs"] += 1
        if near_any:
            rep["near_threshold_pairs"] += 1
        if bad:
            raise core.HarnessError("transcription_velocity reference model does not reproduce fixture %s: %r"
                                    % (fn, bad))
    TASK.fixture_report = rep
    return rep["pairs"]


TASK.fixture_check = fixture_check


# ---------------------------------------------------------------------------------- edge relations (C08 / C09)
def edge_space(tier, phase):
    from mc import lib
    notes = [n for n in TT.dyadic_notes(phase, vels=(0.0, 127.0)) if n[0] <= TT.dyadic_notes(phase)[2][0] + 1e-9]
    sides = list(lib.multisets(notes[:12], 2))
    return [(a, b) for a in sides for b in sides]


TASK.edge_space = edge_space
# shifting all times or scaling all pitches changes neither the note matching nor the velocities, so every key is
# claimed; note permutations are not claimed here: the velocity regression depends on WHICH maximum matching is
# returned (see finding F27)
TASK.edges = {
    "shift": {"apply": TT._shift_edges, "funcs": None, "keys": None, "cfgs": "all"},
    "pitchscale": {"apply": TT._scale_edges, "funcs": None, "keys": None},
}
