"""Task adapter: mir_eval.key (see mc/tasks/base.py for the interface).

A state is (reference_key_string, estimated_key_string).  The domain is COMPLETE and phase independent:
all 17 accepted tonic spellings x {major, minor, other} + 'X' (52 keys -> 52^2 = 2704 canonical pairs, listed
first), then every case variant of the tonic on either side (naturals/sharps: 'C#', 'c#'; flats: 'Db', 'db',
'DB', 'dB'; 'X', 'x'): 134 strings -> 134^2 = 17956 pairs.  The mode is case sensitive in the module
("Mode ... must be 'major', 'minor' or 'other'"), so only the tonic's case varies.
The phase only rotates the enumeration order of the case variants (the set of states is the same).
"""
import glob
import json
import os

import mir_eval.key as M
from mc import core
from mc.spec import key as S
from mc.tasks.base import Func, Task

KEYS = ("Weighted Score",)
CANON_TONICS = ("C", "C#", "Db", "D", "D#", "Eb", "E", "F", "F#", "Gb", "G", "G#", "Ab", "A", "A#", "Bb", "B")


def _variants(t):
    out = [t, t.lower(), t.upper(), t[0].lower() + t[1:].upper()]
    seen = []
    for v in out:
        if v not in seen:
            seen.append(v)
    return seen


def canonical_keys():
    return ["%s %s" % (t, m) for t in CANON_TONICS for m in S.MODES] + ["X"]


def all_keys(phase=0):
    canon = canonical_keys()
    extra = []
    for t in CANON_TONICS:
        for v in _variants(t)[1:]:
            for m in S.MODES:
                extra.append("%s %s" % (v, m))
    extra.append("x")
    k = (phase * 11) % len(extra)
    return canon + extra[k:] + extra[:k]


def pair_space(tier, phase):
    canon = canonical_keys()
    keys = all_keys(phase)
    states = [(a, b) for a in canon for b in canon]
    cs = set(canon)
    states += [(a, b) for a in keys for b in keys if not (a in cs and b in cs)]
    return states


def single_space(tier, phase):
    return all_keys(phase)


def build(state):
    return (str(state[0]), str(state[1]))


def optimum(x, cfg):
    return {"Weighted Score": 1.0}          # incl. 'X' vs 'X' (same uncategorised key)


FUNCS = [
    Func("key.weighted_score", M.weighted_score, KEYS, {}, build, build, S.weighted_score,
         {"Weighted Score": "P01"}, optimum=optimum),
]


# ---------------------------------------------------------------------------------- fixtures
def _load_key(path):
    with open(path) as f:
        lines = [ln.strip() for ln in f if ln.strip() and not ln.strip().startswith("#")]
    if len(lines) != 1:
        raise core.HarnessError("key fixture %s: expected one key line" % path)
    return " ".join(lines[0].split())


def fixture_check(tier):
    """Model (not the library) vs the recorded tests/data/key/output*.json (key.evaluate, no parameters)."""
    root = os.path.join(os.environ.get("VERIF_REPO", "/repo"), "tests", "data", "key")
    refs = sorted(glob.glob(os.path.join(root, "ref*.txt")))
    ests = sorted(glob.glob(os.path.join(root, "est*.txt")))
    outs = sorted(glob.glob(os.path.join(root, "output*.json")))
    if not (len(refs) == len(ests) == len(outs) > 0):
        raise core.HarnessError("key fixtures not found under %s" % root)
    n = 0
    for rf, ef, of in zip(refs, ests, outs):
        with open(of) as f:
            want = json.load(f)
        if sorted(want) != list(KEYS):
            raise core.HarnessError("key fixture %s: key set %r" % (of, sorted(want)))
        got = S.weighted_score(_load_key(rf), _load_key(ef))
        if abs(got - float(want["Weighted Score"])) > 1e-7:
            raise core.HarnessError("key model does not reproduce fixture %s: model=%r recorded=%r"
                                    % (os.path.basename(of), got, want["Weighted Score"]))
        n += 1
    return n


TASK = Task("key", FUNCS, pair_space, single_space)
TASK.fixture_check = fixture_check
