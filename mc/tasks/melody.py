"""Task adapter: mir_eval.melody (see mc/tasks/base.py for the interface).

State = (ref_side, est_side); a side is (times, freqs, voicing) - three tuples of plain floats; `voicing` is ()
when the optional array (ref_reward on the reference side, est_voicing on the estimate side) is absent.  The
empty side is () (only the state ((), ()) occurs: the measures define 0 for empty arrays).

Two groups of Funcs:
* the measures on (ref_voicing, ref_cent, est_voicing, est_cent) arrays directly.  The arrays of a state are
  produced by the REFERENCE MODEL's pre-processing (never by the library's) with an exact cent table for the
  lattice frequencies (cent(f0*2^(c/1200)) := C0 + c exactly), so every pitch difference, including the
  interpolated ones, is an exact rational, the binary64 subtraction the library performs is exact (Sterbenz) and
  `<` is decided exactly - including states with a difference exactly equal to the tolerance (49, 51, 1200).
* "melody.to_cent_voicing+measures": the library's own pre-processing followed by the measures, on
  evaluate()-style inputs.  Cents go through log2 there, so pitch thresholds are decided with a margin of
  1e-6 cent (spec raises Undefined inside it; generic.check_defn counts those states).
"""
import functools
import math
from fractions import Fraction as Fr

import numpy as np

import mir_eval.melody as M
from mc import core
from mc.spec import melody as S
from mc.tasks.base import Func, Task, Undefined

KEYS = S.KEYS

# ---------------------------------------------------------------------------------- lattice (per phase)
F0 = [220.0, 311.0, 174.5, 330.0, 261.625, 196.0, 146.875, 415.25]
C1 = [49, 1151, 51, 1149, -49, 1249, -51, 1251]       # f1 = f0 * 2^(C1/1200): 2*f0 / f0 vs f1 straddle the chroma fold
HOPS = [Fr(1, 4), Fr(1, 8), Fr(1, 2), Fr(1, 4), Fr(3, 8), Fr(1, 16), Fr(1, 8), Fr(1, 2)]
HOP_PARAM = [None, 0.125, 0.1875]                     # fixed: relative to the phase's grid they up-/down-sample / coincide
OFFSETS = ("f0", "p49", "p51", "oct", "f1")


def freq(f0, c):
    return float(f0 * 2.0 ** (c / 1200.0))


def symbols(phase):
    f0, c1 = F0[phase], C1[phase]
    return {"0": 0.0, "f0": f0, "-f0": -f0, "p49": freq(f0, 49), "p51": freq(f0, 51), "oct": 2.0 * f0,
            "f1": freq(f0, c1)}


def _build_table():
    tab = {0.0: Fr(0)}
    for p in range(8):
        f0 = F0[p]
        c0 = Fr(round(1200.0 * math.log2(f0 / 10.0) * 16), 16)
        for c in (0, 49, 51, 1200, C1[p]):
            f = freq(f0, c) if c != 1200 else 2.0 * f0
            val = c0 + c
            if f in tab and tab[f] != val:
                raise core.HarnessError("melody lattice: frequency collision at %r" % f)
            if abs(float(val) - 1200.0 * math.log2(f / 10.0)) > 0.04:
                raise core.HarnessError("melody lattice: cent table inconsistent at %r" % f)
            tab[f] = val
    return tab


TABLE = _build_table()


def table_cents(freqs):
    try:
        return [TABLE[abs(float(f))] for f in freqs]
    except KeyError as ex:
        raise core.HarnessError("frequency %r is not a melody lattice value" % (ex.args[0],))


def timebase(kind, n, h):
    h = Fr(h)
    if kind == "same":
        t = [k * h for k in range(n)]
    elif kind == "shifted":          # starts at 0, later samples a quarter hop early: non-uniform, ends short
        t = [Fr(0)] + [k * h - h / 4 for k in range(1, n)]
    elif kind == "shorter":
        t = [k * h * 3 / 4 for k in range(n)]
    elif kind == "longer":
        t = [k * h * 5 / 4 for k in range(n)]
    elif kind == "late":             # first sample > 0, off the reference grid
        t = [h / 4 + k * h for k in range(n)]
    elif kind == "lateg":            # first sample > 0, on the reference grid
        t = [(k + 1) * h for k in range(n)]
    else:
        raise core.HarnessError(kind)
    return tuple(float(x) for x in t)


EMPTY = ()            # the empty side (len 0, so that the generic drivers count it as an empty side)


def parts(sd):
    """(times, freqs, voicing) of a side"""
    return ((), (), ()) if len(sd) == 0 else sd


# ---------------------------------------------------------------------------------- build / model
def _opt(v):
    return None if len(v) == 0 else [Fr(x) for x in v]


def model_pipe(state):
    (rt, rf, rr), (et, ef, ev) = parts(state[0]), parts(state[1])
    return ([Fr(t) for t in rt], list(rf), [Fr(t) for t in et], list(ef), _opt(ev), _opt(rr))


def build_pipe(state):
    (rt, rf, rr), (et, ef, ev) = parts(state[0]), parts(state[1])
    a = lambda x: np.array(x, dtype=float)      # noqa
    return (a(rt), a(rf), a(et), a(ef), a(ev) if len(ev) else None, a(rr) if len(rr) else None)


@functools.lru_cache(maxsize=4096)
def arrays(state):
    """(ref_voicing, ref_cent, est_voicing, est_cent) of a state as tuples of floats: the reference model's
    pre-processing (hop None, linear) with the exact cent table."""
    if len(state[0]) == 0 and len(state[1]) == 0:
        return ((), (), (), ())
    rt, rf, et, ef, ev, rr = model_pipe(state)
    out = S.to_cent_voicing(rt, rf, et, ef, ev, rr, cents=table_cents)
    return tuple(tuple(float(x) for x in col) for col in out)


def build4(state):
    return tuple(np.array(col, dtype=float) for col in arrays(state))


def model4(state):
    return tuple([Fr(x) for x in col] for col in arrays(state))


def build2(state):
    a = arrays(state)
    return (np.array(a[0], dtype=float), np.array(a[2], dtype=float))


def model2(state):
    a = arrays(state)
    return ([Fr(x) for x in a[0]], [Fr(x) for x in a[2]])


def pipeline_fn(ref_time, ref_freq, est_time, est_freq, est_voicing=None, ref_reward=None, **cfg):
    """The library's pre-processing followed by the library's five measures (keyword arguments are passed only
    where given, so that the library's own defaults are exercised).  Two empty series: the pre-processing is
    not defined on them (DESIGN 3, "outside every claim"); the measures get the empty arrays directly."""
    unknown = set(cfg) - {"cent_tolerance", "base_frequency", "hop", "kind"}
    if unknown:
        raise core.HarnessError("unknown configuration keys %r" % sorted(unknown))
    pre = {k: v for k, v in cfg.items() if k != "cent_tolerance"}
    tol = {k: v for k, v in cfg.items() if k == "cent_tolerance"}
    if ref_time.size == 0 and est_time.size == 0:
        rv, rc, ev, ec = np.array([]), np.array([]), np.array([]), np.array([])
    else:
        rv, rc, ev, ec = M.to_cent_voicing(ref_time, ref_freq, est_time, est_freq, est_voicing, ref_reward, **pre)
    vr, vfa = M.voicing_measures(rv, ev)
    return (vr, vfa, M.raw_pitch_accuracy(rv, rc, ev, ec, **tol), M.raw_chroma_accuracy(rv, rc, ev, ec, **tol),
            M.overall_accuracy(rv, rc, ev, ec, **tol))


# ---------------------------------------------------------------------------------- C02 optimum
def _optimum_from(ref_v, keys):
    """Non-degenerate (property C02: 'at least one voiced frame') <=> the processed reference voicing array is
    non-empty and has an entry > 0 (the documented conventions: empty arrays -> 0; no voiced reference frame ->
    raw pitch / raw chroma 0, recall 1 - none of which is the optimum of a defined metric)."""
    ok = any(v > 0 for v in ref_v)
    want = {"Voicing Recall": 1.0, "Voicing False Alarm": 0.0, "Raw Pitch Accuracy": 1.0,
            "Raw Chroma Accuracy": 1.0, "Overall Accuracy": 1.0}
    return {k: (want[k] if ok else None) for k in keys}


def opt_direct(keys):
    def f(x, cfg):
        return _optimum_from(arrays((x, x))[0], keys)
    return f


def opt_pipe(x, cfg):
    if len(x) == 0:
        return _optimum_from((), KEYS)
    rt, rf, et, ef, ev, rr = model_pipe((x, x))
    pre = {k: v for k, v in cfg.items() if k in ("hop", "kind")}
    try:
        ref_v = S.to_cent_voicing(rt, rf, et, ef, ev, rr, cents=table_cents, **pre)[0]
    except Undefined:
        ref_v = ()
    return _optimum_from(ref_v, KEYS)


# ---------------------------------------------------------------------------------- spaces
def words(alphabet, n):
    import itertools
    return list(itertools.product(alphabet, repeat=n))


def side(times, freqs, voicing=()):
    return (tuple(times), tuple(float(f) for f in freqs), tuple(float(v) for v in voicing))


REF_SYMS = ("0", "f0", "f1")
EST_SYMS = ("0", "f0", "-f0", "p49", "p51", "oct", "f1")
VOICE = (0.0, 0.5, 1.0)


def pair_space(tier, phase):
    """S = A (frames exhaustively on a common time base) + deviation-bounded B (time bases), C (continuous
    est_voicing / ref_reward), D (estimate with one sample fewer / more on the reference grid)."""
    thorough = tier == "thorough"
    sym = symbols(phase)
    h = HOPS[phase]
    out, seen = [], set()

    def add(rb, eb, w, rr=(), ev=()):
        n = len(w)
        st = (side(timebase(rb, n, h), [sym[p[0]] for p in w], rr), side(timebase(eb, n, h), [sym[p[1]] for p in w], ev))
        if st not in seen:
            seen.add(st)
            out.append(st)

    def pairs(refs, ests):
        return [(r, e) for r in refs for e in ests]

    out.append((EMPTY, EMPTY))
    frames = pairs(REF_SYMS, EST_SYMS)                                   # the 21 per-frame pairs
    bases = ("same", "shifted", "shorter", "longer", "late", "lateg")
    # A. frames exhaustively, common time base, no voicing arrays: 21^n, n <= 3; thorough: 4 frames over 15 pairs
    for n in (1, 2, 3):
        for w in words(frames, n):
            add("same", "same", w)
    if thorough:
        for w in words(pairs(REF_SYMS, ("0", "f0", "-f0", "p51", "oct")), 4):
            add("same", "same", w)
    # B. time bases.  2 frames: every (reference base, estimate base); 3 frames: every estimate base (quick: over
    #    9 per-frame pairs); thorough also 3 frames with a late reference and 4 frames over 6 pairs
    for w in words(frames, 2):
        for rb in ("same", "late"):
            for eb in bases:
                add(rb, eb, w)
    for w in words(frames if thorough else pairs(REF_SYMS, ("0", "f0", "p51")), 3):
        for eb in bases[1:]:
            add("same", eb, w)
    if thorough:
        for w in words(pairs(REF_SYMS, ("0", "f0", "p51", "oct")), 3):
            for eb in bases:
                add("late", eb, w)
        for w in words(pairs(("0", "f0"), ("0", "f0", "p51")), 4):
            for eb in bases[1:]:
                add("same", eb, w)
    # C. continuous est_voicing / ref_reward over {0, .5, 1}^n (() = absent)
    vs = [()] + words(VOICE, 2)
    for w in words(pairs(("0", "f0"), ("0", "f0", "-f0", "p51")), 2):
        for rr in vs:
            for ev in vs:
                add("same", "same", w, rr, ev)
        one = [(v, ()) for v in vs[1:]] + [((), v) for v in vs[1:]] + [(v, v) for v in vs[1:]]
        for eb in ("shorter", "late", "longer") if thorough else ("shorter", "late"):
            for rb in ("same", "late"):
                for rr, ev in one:
                    add(rb, eb, w, rr, ev)
    if thorough:
        vs = words(VOICE, 3)
        one = [(v, ()) for v in vs] + [((), v) for v in vs] + [(v, v) for v in vs]
        for w in words(pairs(("0", "f0"), ("0", "f0", "-f0")), 3):
            for rr, ev in one:
                add("same", "same", w, rr, ev)
        for w in words(pairs(("0", "f0"), ("0", "f0")), 3):
            for eb in ("shorter", "late"):
                for rr, ev in one:
                    add("same", eb, w, rr, ev)
    # D. estimate with one sample fewer / one more than the reference, on the reference grid
    for n in (2, 3):
        t = timebase("same", n + 1, h)
        for rw in words(REF_SYMS, n):
            for m in (n - 1, n + 1):
                for ew in words(("0", "f0", "p51"), m):
                    for ev in ((), (0.5,) * m) if thorough else ((),):
                        st = (side(t[:n], [sym[x] for x in rw]), side(t[:m], [sym[x] for x in ew], ev))
                        if st not in seen:
                            seen.add(st)
                            out.append(st)
    out.sort(key=lambda st: len(parts(st[0])[0]) + len(parts(st[1])[0]))      # stable: shortest first
    return out


def single_space(tier, phase):
    """Annotations scored against an exact copy of themselves: frames over {0, f0, f1}, <=5 (thorough 6) frames,
    time base on the grid / starting late, voicing array absent / equal to the voiced indicator / all ones
    (on the reference side it is the reward, on the estimate side the voicing confidence; a perfect estimate's
    confidence is the indicator itself, so continuous values are not part of C02)."""
    sym = symbols(phase)
    h = HOPS[phase]
    out = [EMPTY]
    for n in range(1, (6 if tier == "thorough" else 5) + 1):
        for w in words(REF_SYMS, n):
            f = [sym[s] for s in w]
            for tb in ("same", "lateg", "late"):
                t = timebase(tb, n, h)
                for v in ((), [1.0 if x > 0 else 0.0 for x in f], [1.0] * n):
                    s = side(t, f, v)
                    if s not in out[-3:]:
                        out.append(s)
    return out


# ---------------------------------------------------------------------------------- functions
TOL4 = [50, 49, 51, 100, 1200]            # exact-threshold states: differences of exactly 49 / 51 / 1200 cents
TOL_CHAIN4 = [25, 49, 50, 51, 100, 600, 1200]
TOL_PIPE = [50, 25, 70]               # 100 would sit on lattice differences (e.g. 1151 vs 51 cents folds to 100)
TOL_CHAIN_PIPE = [10, 25, 50, 70, 400, 1300]
P01 = {k: "P01" for k in KEYS}
ACC_KEYS = ["Raw Pitch Accuracy", "Raw Chroma Accuracy", "Overall Accuracy"]

FUNCS = [
    Func("melody.voicing_measures", M.voicing_measures, KEYS[:2], {}, build2, model2, S.voicing_measures,
         {k: "P01" for k in KEYS[:2]}, optimum=opt_direct(KEYS[:2])),
    Func("melody.raw_pitch_accuracy", M.raw_pitch_accuracy, [KEYS[2]], {"cent_tolerance": TOL4}, build4, model4,
         S.raw_pitch_accuracy, {KEYS[2]: "P01"}, optimum=opt_direct(KEYS[2:3]),
         mono=[("cent_tolerance", TOL_CHAIN4)], mono_keys=[KEYS[2]]),
    Func("melody.raw_chroma_accuracy", M.raw_chroma_accuracy, [KEYS[3]], {"cent_tolerance": TOL4}, build4, model4,
         S.raw_chroma_accuracy, {KEYS[3]: "P01"}, optimum=opt_direct(KEYS[3:4]),
         mono=[("cent_tolerance", TOL_CHAIN4)], mono_keys=[KEYS[3]]),
    Func("melody.overall_accuracy", M.overall_accuracy, [KEYS[4]], {"cent_tolerance": TOL4}, build4, model4,
         S.overall_accuracy, {KEYS[4]: "P01"}, optimum=opt_direct(KEYS[4:5]),
         mono=[("cent_tolerance", TOL_CHAIN4)], mono_keys=[KEYS[4]]),
    Func("melody.to_cent_voicing+measures", pipeline_fn, KEYS,
         {"cent_tolerance": TOL_PIPE, "hop": HOP_PARAM, "kind": ["linear", "nearest", "zero"]},
         build_pipe, model_pipe, S.pipeline, P01, optimum=opt_pipe,
         mono=[("cent_tolerance", TOL_CHAIN_PIPE)], mono_keys=ACC_KEYS,
         nested=[("Raw Pitch Accuracy", "Raw Chroma Accuracy")]),
]


# ---------------------------------------------------------------------------------- fixtures
def _read_series(path):
    """minimal reader of a two-column text file (comment lines start with '#')"""
    t, v = [], []
    with open(path) as fh:
        for line in fh:
            line = line.strip()
            if not line or line.startswith("#"):
                continue
            a = line.replace(",", " ").split()
            t.append(float(a[0]))
            v.append(float(a[1]))
    return t, v


def _allclose(a, b, rtol=1e-5, atol=1e-8):
    return len(a) == len(b) and all(abs(float(x) - float(y)) <= atol + rtol * abs(float(y)) for x, y in zip(a, b))


def fixture_check(tier):
    import glob
    import json
    import os
    d = os.path.join(os.environ.get("VERIF_FIXTURES", "/repo/tests/data"), "melody")
    refs = sorted(glob.glob(os.path.join(d, "ref*.txt")))
    ests = sorted(glob.glob(os.path.join(d, "est*.txt")))
    outs = sorted(glob.glob(os.path.join(d, "output*.json")))
    if not refs or not (len(refs) == len(ests) == len(outs)):
        raise core.HarnessError("melody fixtures not found / incomplete in %s" % d)
    checked = near = 0
    for rf, ef, of in zip(refs, ests, outs):
        rt, rfreq = _read_series(rf)
        et, efreq = _read_series(ef)
        want = json.load(open(of))
        if set(want) != set(KEYS):
            raise core.HarnessError("melody fixture %s: unexpected key set" % of)
        # the recorded outputs are defined for both ways test_melody.py calls evaluate(): arrays absent, and
        # ref_reward = ones / est_voicing = 1[est_freq >= 0]
        for ev, rr in ((None, None), ([1.0 if f >= 0 else 0.0 for f in efreq], [1.0] * len(rt))):
            try:
                rv, rc, evv, ec = S.to_cent_voicing(rt, rfreq, et, efreq, ev, rr)
                for a, b in zip(rc, ec):
                    if a != 0 and b != 0:
                        dd = abs(a - b)
                        kk = math.fmod(dd, 1200.0)
                        if abs(dd - 50.0) <= 1e-7 or abs(min(kk, 1200.0 - kk) - 50.0) <= 1e-7:
                            raise Undefined("near threshold")
                got = S.measures(rv, rc, evv, ec)
            except Undefined:
                near += 1
                continue
            for k, g in zip(KEYS, got):
                if not abs(float(g) - want[k]) <= 1e-7:
                    raise core.HarnessError("melody model does not reproduce fixture %s key %r: model %r recorded %r"
                                            % (os.path.basename(of), k, float(g), want[k]))
            checked += 1
    # recorded expectations of tests/test_melody.py (doc examples)
    # (a) test_to_cent_voicing: frames 220..224 of pair 00, without and with custom voicings
    rt, rfreq = _read_series(refs[0])
    et, efreq = _read_series(ests[0])
    rv, rc, ev, ec = S.to_cent_voicing(rt, rfreq, et, efreq)
    exp_c = [0.0, 0.0, 0.0, 6056.8837818916609, 6028.5504583021921]
    if not (_allclose(rv[220:225], [0, 0, 0, 1, 1]) and _allclose(rc[220:225], exp_c)
            and _allclose(ev[220:225], [0] * 5) and _allclose(ec[220:225], [5351.3179423647571] * 5)):
        raise core.HarnessError("melody model: test_to_cent_voicing expectation (default voicing) not reproduced")
    _, reward = _read_series(os.path.join(d, "reward00.txt"))
    _, vest = _read_series(os.path.join(d, "voicingest00.txt"))
    rv, rc, ev, ec = S.to_cent_voicing(rt, rfreq, et, efreq, vest, reward)
    if not (_allclose(rv[220:225], [0.0, 0.0, 0.0, 1.0, 0.3]) and _allclose(rc[220:225], exp_c)
            and _allclose(ev[220:225], [0.2] * 5) and _allclose(ec[220:225], [5351.3179423647571] * 5)):
        raise core.HarnessError("melody model: test_to_cent_voicing expectation (custom voicing) not reproduced")
    rv, rc, ev, ec = S.to_cent_voicing([1.0, 2.0], [440.0, 442.0], [1.0, 2.0], [441.0, 443.0])
    if not all(len(x) == 3 and x[0] == x[1] for x in (rv, rc, ev, ec)):
        raise core.HarnessError("melody model: zero-time insertion expectation not reproduced")
    checked += 3
    # (b) test_resample_melody_series
    times = [k / 35.0 for k in range(4)]
    tnew = [0.08 * k / 8 for k in range(9)]
    exp_c = [2.0, 2.0, 2.0, 0.0, 0.0, 0.0, -0.8, -0.1, 0.6]
    c, v = S.resample(times, [2.0, 0.0, -1.0, 1.0], [1, 0, 1, 1], tnew)
    if not (_allclose(c, exp_c) and _allclose(v, [1, 1, 1, 0, 0, 0, 1, 1, 1])):
        raise core.HarnessError("melody model: test_resample_melody_series (binary) not reproduced")
    c, v = S.resample(times, [2.0, 0.0, -1.0, 1.0], [0.8, 0.0, 0.2, 1.0], tnew)
    if not (_allclose(c, exp_c) and _allclose(v, [0.8, 0.52, 0.24, 0.01, 0.08, 0.15, 0.28, 0.56, 0.84])):
        raise core.HarnessError("melody model: test_resample_melody_series (continuous) not reproduced")
    c, v = S.resample([0.0, 0.1, 0.2, 0.3], [2.0, 0.0, -1.0, 1.0], [0.5, 0.8, 0.9, 1.0], [0.0, 0.1, 0.2, 0.3])
    if not (c == [2.0, 0.0, -1.0, 1.0] and v == [0.5, 0.8, 0.9, 1.0]):
        raise core.HarnessError("melody model: test_resample_melody_series_same_times not reproduced")
    if not _allclose(S.constant_hop_timebase(0.1, 0.35), [0, 0.1, 0.2, 0.3]):
        raise core.HarnessError("melody model: test_constant_hop_timebase not reproduced")
    if not _allclose(S.hz2cents([0.0, 10.0, 5.0, 320.0, 1420.31238974231]), [0.0, 0.0, -1200.0, 6000.0, 8580.0773605]):
        raise core.HarnessError("melody model: test_hz2cents not reproduced")
    checked += 5
    # (c) test_continuous_voicing_metrics
    rt4 = [0.0, 0.1, 0.2, 0.3]
    rf4, ef4 = [440.0, 0.0, 220.0, 220.0], [440.1, 330.0, 440.0, 330.0]
    t3, t23 = 1.0 / 3.0, 2.0 / 3.0
    table = [([1.0, 0.0, 1.0, 1.0], None, (1.0, 0.0, t3, t23, 0.5)),
             ([0.0, 1.0, 0.0, 0.0], None, (0.0, 1.0, t3, t23, 0.0)),
             ([0.5, 0.5, 0.5, 0.5], None, (0.5, 0.5, t3, t23, 0.25)),
             ([0.8, 0.2, 0.8, 0.8], None, (0.8, 0.2, t3, t23, 0.4)),
             ([0.2, 0.8, 0.2, 0.2], None, (0.2, 0.8, t3, t23, 0.1))]
    pv = [1.0, 0.0, 1.0, 1.0]
    table += [(pv, [0.5] * 4, (1.0, 0.0, t3, t23, 0.5)), (pv, [0.3] * 4, (1.0, 0.0, t3, t23, 0.5)),
              (pv, [0.0] * 4, (1.0, 0.75, 0.0, 0.0, 0.25)), (pv, [1.0, 0.0, 0.0, 0.0], (1.0, t23, 1.0, 1.0, 0.5)),
              (pv, [1.0, 0.0, 1.0, 0.0], (1.0, 0.5, 0.5, 1.0, 0.5)),
              (pv, [1.0, 0.0, 0.5, 0.5], (1.0, 0.0, 0.5, 0.75, 0.625)),
              (pv, [0.1, 0.0, 0.1, 0.8], (1.0, 0.0, 0.1, 0.2, 0.325))]
    for ev, rr, want in table:
        got = S.pipeline(rt4, rf4, rt4, ef4, ev, rr)
        if not all(abs(float(g) - w) <= 1e-7 for g, w in zip(got, want)):
            raise core.HarnessError("melody model: test_continuous_voicing_metrics case %r/%r: model %r recorded %r"
                                    % (ev, rr, [float(g) for g in got], want))
        checked += 1
    fixture_check.near_threshold_skipped = near        # fixture pairs with a frame within 1e-7 cent of 50 (measured: 0)
    return checked


TASK = Task("melody", FUNCS, pair_space, single_space)
TASK.fixture_check = fixture_check


# ---------------------------------------------------------------------------------- edge relations (C09)
PIPE = "melody.to_cent_voicing+measures"


def edge_space(tier, phase):
    """smaller pair space for the pitch relations of C09: all 2-frame words x all time-base pairs, and 3-frame words
    whose estimate changes pitch / sign between neighbouring frames, on identical, shifted and late estimate bases"""
    sym = symbols(phase)
    h = HOPS[phase]
    out, seen = [], set()

    def add(rb, eb, w):
        n = len(w)
        st = (side(timebase(rb, n, h), [sym[p[0]] for p in w]), side(timebase(eb, n, h), [sym[p[1]] for p in w]))
        if st not in seen:
            seen.add(st)
            out.append(st)
    frames = [(r, e) for r in REF_SYMS for e in EST_SYMS]
    bases = ("same", "shifted", "shorter", "longer", "late", "lateg")
    for w in words(frames, 2):
        for rb in ("same", "late"):
            for eb in bases if tier == "thorough" else ("same", "shifted", "late"):
                add(rb, eb, w)
    for w in words([(r, e) for r in ("f0", "f1") for e in ("f0", "-f0", "p51", "f1")], 3):
        for eb in ("same", "shifted", "late"):
            add("same", eb, w)
    return out


def _scaled(state, k_ref, k_est):
    (rt, rf, rr), (et, ef, ev) = parts(state[0]), parts(state[1])
    return (side(rt, [x * k_ref for x in rf], rr), side(et, [x * k_est for x in ef], ev))


def _scale_edges(state):
    return [(n, _scaled(state, k, k)) for n, k in (("x2", 2.0), ("x0.5", 0.5), ("x2^(7/12)", 2.0 ** (7 / 12.0)),
                                                   ("x1.5", 1.5))]


def _octave_edges(state):
    return [(n, _scaled(state, 1.0, k)) for n, k in (("est-x2", 2.0), ("est-x0.5", 0.5))]


def _negate_edges(state):
    import itertools
    (rt, rf, rr), (et, ef, ev) = parts(state[0]), parts(state[1])
    idx = [i for i, f in enumerate(ef) if f != 0]
    out = []
    for r in range(1, len(idx) + 1):
        for sub in itertools.combinations(idx, r):
            nf = [(-f if i in sub else f) for i, f in enumerate(ef)]
            out.append(("negate%s" % (list(sub),), (state[0], side(et, nf, ev))))
    return out


_DEF_CACHE = {}


def _decidable(state, fname):
    """skip states on which some pitch difference (also of interpolated frames) is within rounding distance of the
    tolerance: there a common factor may legitimately flip the comparison (the property excludes them)"""
    r = _DEF_CACHE.get(state)
    if r is None:
        try:
            TASK.func(PIPE).expected(state, {})
            r = True
        except Undefined:
            r = False
        if len(_DEF_CACHE) < 200000:
            _DEF_CACHE[state] = r
    return r


from mc.tasks.base import Undefined  # noqa: E402

TASK.edge_space = edge_space
# the relations are also evaluated with a non-default base frequency that lies INSIDE the lattice's pitch range (300 Hz:
# some pitches get negative cent values; no lattice frequency or scaled lattice frequency equals 300 Hz exactly, where
# hz2cents gives 0 = "unvoiced").  Decidability does not depend on the base: it only shifts every cent value.
_BASES = [{}, {"base_frequency": 300.0}]
TASK.edges = {
    "pitchscale": {"apply": _scale_edges, "funcs": [PIPE], "keys": None, "ok": _decidable, "cfgs": _BASES},
    "octave": {"apply": _octave_edges, "funcs": [PIPE], "keys": ["Voicing Recall", "Voicing False Alarm",
                                                                 "Raw Chroma Accuracy"], "ok": _decidable,
               "cfgs": _BASES},
    "negate": {"apply": _negate_edges, "funcs": [PIPE], "keys": ["Raw Pitch Accuracy", "Raw Chroma Accuracy"],
               "ok": _decidable, "cfgs": _BASES},
}
