"""Task adapter: mir_eval.beat (see mc/tasks/base.py for the interface)."""
from fractions import Fraction as Fr

import numpy as np

import mir_eval.beat as M
from mc import lib
from mc.spec import beat as S
from mc.tasks.base import Func, Task


def _arr(side):
    return np.array(side, dtype=float)


def build(state):
    return (_arr(state[0]), _arr(state[1]))


def model(state):
    return ([Fr(x) for x in state[0]], [Fr(x) for x in state[1]])


# ---------------------------------------------------------------------------------- spaces
def lattice(phase, ks=(0, 1, 2, 8, 9, 16)):
    base = Fr(5) + Fr(phase, 4)
    return [float(base + Fr(k, 16)) for k in ks]


def regular_refs(phase, length, ibis=(7, 8, 9)):
    import itertools
    base = Fr(5) + Fr(phase, 4)
    out = []
    for word in itertools.product(ibis, repeat=length):
        t, seq = base, [base]
        for w in word:
            t += Fr(w, 16)
            seq.append(t)
        out.append(tuple(float(x) for x in seq))
    return out


def edits(x):
    """All single edits of an event sequence (result sorted; every element stays >= x[0] - 2/16)."""
    x = list(x)
    n = len(x)
    out = []
    for i in range(n):
        for d in (-2, -1, 1, 2):
            y = x[:]
            y[i] = float(Fr(y[i]) + Fr(d, 16))
            out.append(tuple(sorted(y)))
        out.append(tuple(x[:i] + x[i + 1:]))                 # delete
        out.append(tuple(sorted(x + [x[i]])))                # duplicate
        if i + 1 < n:
            out.append(tuple(sorted(x + [float((Fr(x[i]) + Fr(x[i + 1])) / 2)])))   # insert midpoint
    mids = [float((Fr(a) + Fr(b)) / 2) for a, b in zip(x, x[1:])]
    out.append(tuple(sorted(x + mids)))                      # double tempo
    out.append(tuple(x[0::2]))                               # half tempo
    out.append(tuple(x[1::2]))
    out.append(tuple(mids))                                  # off-beat
    for d in (1, 4):
        out.append(tuple(float(Fr(v) + Fr(d, 16)) for v in x))   # global shift
    return out


def metrical_switch_family(phase):
    """Longer sequences needed by the metrical-level logic (Cemgil best level, CML vs AML, Goto's track length): a
    regular 10-beat reference; the estimate follows the beat for `a` beats, then the off-beat (midpoints), with one
    off-beat estimate dropped at position `b` - so the annotated level has the longest continuous run while another
    metrical variation collects more (fragmented) successes."""
    base = Fr(5) + Fr(phase, 4)
    ref = [base + Fr(k, 2) for k in range(10)]
    mids = [(x + y) / 2 for x, y in zip(ref, ref[1:])]
    out = []
    for a in range(1, 9):
        tail = mids[a:]
        for b in range(len(tail) + 1):
            est = ref[:a] + [m for i, m in enumerate(tail) if i != b]
            out.append((tuple(float(x) for x in ref), tuple(float(x) for x in est)))
    return out


def goto_error_family(tier, phase):
    """Goto's longest-correct-track logic needs >= 3 incorrect beats and a long reference: a regular 10-beat reference
    (1 s apart); every inner beat of the estimate is exact, late by 3/16 s (relative to the half interval of
    0.5 s: error 0.375, just above the default threshold 0.35 and below the alternative 0.5) or missing.  quick: all patterns with 3 or 4 non-exact inner
    beats (1568); thorough: all 3^8 patterns."""
    import itertools
    base = Fr(5) + Fr(phase, 4)
    ref = [base + k for k in range(10)]
    out = []
    for word in itertools.product((0, 1, 2), repeat=8):
        bad = sum(1 for w in word if w)
        if tier != "thorough" and bad not in (3, 4):
            continue
        est = [ref[0]]
        for i, w in enumerate(word):
            if w == 0:
                est.append(ref[i + 1])
            elif w == 1:
                est.append(ref[i + 1] + Fr(3, 16))
        est.append(ref[9])
        out.append((tuple(float(x) for x in ref), tuple(float(x) for x in est)))
    return out


def pair_space(tier, phase):
    thorough = tier == "thorough"
    pts = lattice(phase, (0, 1, 2, 8, 9, 16, 24) if thorough else (0, 1, 2, 8, 9, 16))
    ms = list(lib.multisets(pts, 4 if thorough else 3))
    states = [(a, b) for a in ms for b in ms]
    seen = set(states)
    for ref in regular_refs(phase, 5 if thorough else 4):
        cand = [ref] + edits(ref)
        if thorough:
            cand = cand + [e2 for e1 in edits(ref)[:40] for e2 in edits(e1)[:12]]
        for est in cand:
            if (ref, est) not in seen:
                seen.add((ref, est))
                states.append((ref, est))
    for st in metrical_switch_family(phase) + goto_error_family(tier, phase):
        if st not in seen:
            seen.add(st)
            states.append(st)
    return states


def single_space(tier, phase):
    thorough = tier == "thorough"
    pts = lattice(phase, (0, 1, 2, 8, 9, 16, 24))
    out = list(lib.multisets(pts, 6 if thorough else 5))
    out += regular_refs(phase, 7 if thorough else 6)
    return out


# ---------------------------------------------------------------------------------- conditions
def _gaps_at_least(R, g):
    return all(Fr(b) - Fr(a) >= g for a, b in zip(R, R[1:]))


def cemgil_cond(state, cfg, key):
    sigma = Fr(cfg.get("cemgil_sigma", 0.04))
    R = sorted(state[0])
    return _gaps_at_least(R, (8 if key == "Cemgil Best Metric Level" else 4) * sigma)


def pscore_cond(state, cfg, key):
    R, E = model(state)
    if len(R) <= 1 or len(E) <= 1:
        return True
    try:
        return S.p_score_precondition(R, E, cfg.get("p_score_threshold", 0.2))
    except S.Undefined:
        return False


def _distinct(x):
    return all(b > a for a, b in zip(x, x[1:]))


def opt_f(x, cfg):
    return {"F-measure": 1.0 if len(x) else 0.0}


def opt_cemgil(x, cfg):
    if not x:
        return {"Cemgil": 0.0, "Cemgil Best Metric Level": 0.0}
    # best metric level: 1 only for well-separated beats (gaps >= 8 sigma); closer beats legitimately give the
    # double-tempo variation extra Gaussian mass (e.g. x=[5, 5.0625] -> 1.09), which is "degenerate" for C02
    well = _distinct(x) and cemgil_cond((x, x), cfg, "Cemgil Best Metric Level")
    return {"Cemgil": 1.0, "Cemgil Best Metric Level": 1.0 if well else None}


def opt_goto(x, cfg):
    return {"Goto": 1.0 if len(x) >= 5 and _distinct(x) else None}


def opt_pscore(x, cfg):
    if len(x) >= 2 and pscore_cond((x, x), cfg, None):
        return {"P-score": 1.0}
    return {"P-score": None}


CONT_KEYS = ("Correct Metric Level Continuous", "Correct Metric Level Total",
             "Any Metric Level Continuous", "Any Metric Level Total")


def opt_cont(x, cfg):
    ok = len(x) >= 2 and _distinct(x)
    return {k: (1.0 if ok else None) for k in CONT_KEYS}


def opt_ig(x, cfg):
    return {"Information gain": 1.0 if len(x) >= 2 and _distinct(x) else None}


FUNCS = [
    Func("beat.f_measure", M.f_measure, ["F-measure"],
         {"f_measure_threshold": [0.07, 1 / 16.0, 1 / 8.0, 0.0]}, build, model, S.f_measure,
         {"F-measure": "P01"}, optimum=opt_f, swap={"F-measure": "F-measure"},
         mono=[("f_measure_threshold", [0.0, 1 / 32.0, 1 / 16.0, 0.07, 1 / 8.0, 3 / 16.0, 0.5])],
         mono_keys=["F-measure"]),
    Func("beat.cemgil", M.cemgil, ["Cemgil", "Cemgil Best Metric Level"],
         {"cemgil_sigma": [0.04, 0.02, 0.1]}, build, model, S.cemgil,
         {"Cemgil": "COND", "Cemgil Best Metric Level": "COND"}, optimum=opt_cemgil, cond=cemgil_cond,
         nested=[("Cemgil", "Cemgil Best Metric Level")]),
    Func("beat.goto", M.goto, ["Goto"],
         {"goto_threshold": [0.35, 0.2, 0.5], "goto_mu": [0.2, 0.1, 0.3], "goto_sigma": [0.2, 0.1, 0.3]},
         build, model, S.goto, {"Goto": "BIN"}, optimum=opt_goto),
    Func("beat.p_score", M.p_score, ["P-score"], {"p_score_threshold": [0.2, 0.1, 0.3]}, build, model,
         S.p_score, {"P-score": "COND"}, optimum=opt_pscore, cond=pscore_cond),
    Func("beat.continuity", M.continuity, list(CONT_KEYS),
         {"continuity_phase_threshold": [0.175, 0.1, 0.3], "continuity_period_threshold": [0.175, 0.1, 0.3]},
         build, model, S.continuity, {k: "P01" for k in CONT_KEYS}, optimum=opt_cont,
         nested=[(CONT_KEYS[0], CONT_KEYS[1]), (CONT_KEYS[2], CONT_KEYS[3]), (CONT_KEYS[0], CONT_KEYS[2]),
                 (CONT_KEYS[1], CONT_KEYS[3])]),
    Func("beat.information_gain", M.information_gain, ["Information gain"], {"bins": [41, 40, 5]}, build, model,
         S.information_gain, {"Information gain": "P01"}, optimum=opt_ig),
]



def _eval_call(r, e, **kw):
    out = M.evaluate(r, e, **kw)
    return tuple(out[k] for k in S.EVAL_KEYS)


def _eval_spec(R, E, **kw):
    out = S.evaluate(R, E, **kw)
    return tuple(out[k] for k in S.EVAL_KEYS)


FUNCS.append(Func("beat.evaluate", _eval_call, list(S.EVAL_KEYS), {"min_beat_time": [5.0, 5.5, 0.5]}, build, model,
                  _eval_spec, {k: "SKIP" for k in S.EVAL_KEYS}))

TASK = Task("beat", FUNCS, pair_space, single_space)


# ---- edge relations (C08): a common time offset must not change any beat score; the lattice is dyadic so x + d is
# exact.  evaluate() trims beats before min_beat_time (5 s unless configured): the property only covers shifts that keep
# every beat, before and after the shift, at or after the trim time - so the backward shift by 4 s is decided for
# evaluate() only with min_beat_time=0.5 (and for the individual metrics, which do not trim, always)
def _shift(state):
    out = []
    for d in (1 / 16.0, 1.0, 1000.0, -4.0):
        out.append(("%+g" % d, (tuple(float(Fr(x) + Fr(d)) for x in state[0]),
                                tuple(float(Fr(x) + Fr(d)) for x in state[1]))))
    return out


def _shift_okc(state, new_state, fname, cfg):
    if fname != "beat.evaluate":
        return True
    t = cfg.get("min_beat_time", 5.0)
    return all(x >= t for st in (state, new_state) for side in st for x in side)


def edge_space(tier, phase):
    """two-execution relations run on every configuration, so the unstructured part of the pair space is reduced to
    multisets of <= 2 beats per side (quick); the structured families (regular references and their edits, metrical
    switches, Goto error patterns) are kept whole"""
    sp = pair_space(tier, phase)
    if tier == "thorough":
        return sp
    return [st for st in sp if max(len(st[0]), len(st[1])) != 3]


TASK.edge_space = edge_space
TASK.edges = {"shift": {"apply": _shift, "funcs": None, "keys": None, "okc": _shift_okc, "cfgs": "all"}}


# ---- repository fixtures: model bound to the recorded outputs (fixture_check), and perturbed fixtures as extra
# states for C04 (as is / estimate thinned by dropping every 3rd beat / estimate shifted by 1/64 s)
def _load_events(path):
    return tuple(float(l.split()[0]) for l in open(path) if l.strip() and not l.startswith("#"))


def _fixture_files():
    import glob
    import os
    root = os.environ.get("VERIF_REPO") or "/repo"
    d = os.path.join(root, "tests", "data", "beat")
    return list(zip(sorted(glob.glob(d + "/ref*.txt")), sorted(glob.glob(d + "/est*.txt")),
                    sorted(glob.glob(d + "/output*.json"))))


def fixture_check(tier):
    import json
    from mc import core
    files = _fixture_files()
    if not files:
        raise core.HarnessError("beat fixtures not found")
    n = 0
    for rf, ef, of in (files if tier == "thorough" else files[:4]):
        R, E = list(_load_events(rf)), list(_load_events(ef))
        exp = json.load(open(of))
        try:
            got = S.evaluate(R, E)
        except S.Undefined:
            continue
        for k, v in exp.items():
            if abs(got[k] - v) > 1e-7:
                raise core.HarnessError("beat reference model disagrees with recorded fixture %s key %s: %r vs %r"
                                        % (of, k, got[k], v))
        n += 1
    return n


def fixture_states(tier):
    out = []
    files = _fixture_files()
    for rf, ef, _ in (files if tier == "thorough" else files[:1]):
        R, E = _load_events(rf), _load_events(ef)
        out.append((R, E))
        out.append((R, tuple(e for i, e in enumerate(E) if i % 3 != 2)))
        out.append((R, tuple(e + 1 / 64.0 for e in E)))
    return out


TASK.fixture_check = fixture_check
TASK.fixture_states = fixture_states
