"""Task adapter: mir_eval.hierarchy (see mc/tasks/base.py for the interface; reference model mc/spec/hierarchy.py,
the one property C17 binds to the docstring example and the repository fixtures).

A state is ((ref_intervals_hier, ref_labels_hier), (est_intervals_hier, est_labels_hier)): per side a tuple of levels,
each level a tuple of contiguous (start, end) segments tiling [0, c * cell), and a tuple of label tuples of the same
shape.  Every composition of the c cells is a possible level (nested or not, deeper levels may be coarser - the
library only warns); labels are the restricted-growth labellings over <= 2 names per level.  cell = 0.5 s (phases
1, 5: 0.25 s = finer than the 0.5 s frame, so some segments hold no frame; phases 3, 7: 0.75 s = boundaries off
the frame grids); label names rotate with the phase.

pair space (quick; all sides share the span, as tmeasure / lmeasure demand)
  S  every pair of hierarchies over 1 and 2 cells (1..2 levels);
     3 cells: one-level x one-level, two-level reference x one-level estimate
  D  3 cells, two-level reference x every estimate that differs from it in exactly one level (or in none)
thorough: every pair over 1..3 cells (1..2 levels) + 4 cells: one-level x one-level and every pair of two-level
hierarchies with alternating labels.
single space (C02): every hierarchy over 1..4 cells with 1..2 levels (thorough: + 3 cells with 3 levels).

Parameters: the documented defaults (window 15 s, frame_size 0.1 s, beta 1, transitive False) come first and are never
passed explicitly; the other frame sizes are dyadic.  With the default frame_size = 0.1 the frame grid is the
documented binary64 rounding ``(t - mod(t, 0.1)) / 0.1`` truncated (0.5 s -> frame 4, 1.0 s -> 9, 1.5 s -> 14), which
is what the model implements (mc/spec/hierarchy.frame_index) and the recorded fixtures fix.  frame_size <= window in
every configuration (0.5 == 0.5 included: a one-frame window is valid and scores 0).
"""
import glob
import itertools
import json
import os

import numpy as np

import mir_eval.hierarchy as M
from mc import core, lib
from mc.spec import hierarchy as S
from mc.tasks.base import Func, Task

CELLS = [0.5, 0.25, 0.5, 0.75, 0.5, 0.25, 0.5, 0.75]
NAMES = [("a", "b"), ("x", "y"), ("verse", "chorus"), ("1", "2"), ("B", "A"), ("q", "p"),
         ("intro", "outro"), ("s0", "s1")]
T_KEYS = ("T-Precision", "T-Recall", "T-Measure")
L_KEYS = ("L-Precision", "L-Recall", "L-Measure")


# ---------------------------------------------------------------------------------- generators
def levels(c):
    """every labelled segmentation of c cells: (composition, restricted-growth labelling over <= 2 names)"""
    return [(comp, rgs) for comp in lib.compositions(c) for rgs in lib.restricted_growth(len(comp), 2)]


def alt_levels(c):
    return [(comp, tuple(i % 2 for i in range(len(comp)))) for comp in lib.compositions(c)]


def side(hier, cell, phase):
    """abstract hierarchy (tuple of (composition, labelling)) -> (intervals_hier, labels_hier)"""
    ivs, labs = [], []
    for li, (comp, rgs) in enumerate(hier):
        t, lev = 0, []
        for k in comp:
            lev.append((t * cell, (t + k) * cell))
            t += k
        ivs.append(tuple(lev))
        names = NAMES[(phase + li) % len(NAMES)]
        labs.append(tuple(names[v] for v in rgs))
    return (tuple(ivs), tuple(labs))


def hiers(c, nlev, alternating=False):
    lv = alt_levels(c) if alternating else levels(c)
    return list(itertools.product(lv, repeat=nlev))


def pair_space(tier, phase):
    cell = CELLS[phase]
    mk = lambda h: side(h, cell, phase)  # noqa
    out = []
    if tier == "thorough":
        for c in (1, 2, 3):
            hs = [mk(h) for n in (1, 2) for h in hiers(c, n)]
            out += [(a, b) for a in hs for b in hs]
        one = [mk(h) for h in hiers(4, 1)]
        out += [(a, b) for a in one for b in one]
        two = [mk(h) for h in hiers(4, 2, alternating=True)]
        out += [(a, b) for a in two for b in two]
        return out
    for c in (1, 2):
        hs = [mk(h) for n in (1, 2) for h in hiers(c, n)]
        out += [(a, b) for a in hs for b in hs]
    one = hiers(3, 1)
    two = hiers(3, 2)
    out += [(mk(a), mk(b)) for a in one for b in one]
    out += [(mk(a), mk(b)) for a in two for b in one]
    lv = levels(3)
    for ref in two:
        r = mk(ref)
        out.append((r, r))
        for pos in (0, 1):
            for new in lv:
                if new != ref[pos]:
                    est = (new, ref[1]) if pos == 0 else (ref[0], new)
                    out.append((r, mk(est)))
    return out


def edge_space(tier, phase):
    """relabel edges (two executions of lmeasure each): one-level pairs, two-level x one-level, and the two-level
    pairs that differ in the bottom level only"""
    cell = CELLS[phase]
    mk = lambda h: side(h, cell, phase)  # noqa
    one, two = hiers(3, 1), hiers(3, 2)
    out = [(mk(a), mk(b)) for a in one for b in one]
    out += [(mk(a), mk(b)) for a in two[::3] for b in one]
    lv = levels(3)
    for ref in two[1::2]:
        out += [(mk(ref), mk((ref[0], new))) for new in lv]
    if tier == "thorough":
        hs = [mk(h) for h in hiers(4, 1)]
        out += [(a, b) for a in hs for b in hs]
    # levels with THREE distinct labels (the enumerated spaces use <= 2 per level): renaming then permutes three
    # names, which is where an ordering of the vocabulary can go wrong
    c = float(cell)
    for labs3 in (("a", "b", "c"), ("a", "b", "c", "a"), ("b", "c", "a", "b")):
        n = len(labs3)
        lvl = tuple((i * c, (i + 1) * c) for i in range(n))
        top = ((0.0, n * c),)
        three = ((top, lvl), (("T",), labs3))
        flat = ((lvl,), (labs3,))
        two_lab = ((top, lvl), (("T",), tuple("xy"[i % 2] for i in range(n))))
        out += [(three, two_lab), (two_lab, three), (three, three), (flat, flat), (flat, ((lvl,), (tuple("xy"[i % 2] for i in range(n)),)))]
    return out


def single_space(tier, phase):
    cell = CELLS[phase]
    out = [side(h, cell, phase) for c in (1, 2, 3, 4) for n in (1, 2) for h in hiers(c, n)]
    if tier == "thorough":
        out += [side(h, cell, phase) for h in hiers(3, 3)]
    return out


# ---------------------------------------------------------------------------------- per function
def _arrays(ivs):
    return [np.array(lev, dtype=float) for lev in ivs]


def build_t(state):
    return (_arrays(state[0][0]), _arrays(state[1][0]))


def build_l(state):
    (ri, rl), (ei, el) = state
    return (_arrays(ri), [list(x) for x in rl], _arrays(ei), [list(x) for x in el])


def model_t(state):
    return ([[list(s) for s in lev] for lev in state[0][0]], [[list(s) for s in lev] for lev in state[1][0]])


def model_l(state):
    (ri, rl), (ei, el) = state
    return ([[list(s) for s in lev] for lev in ri], [list(x) for x in rl],
            [[list(s) for s in lev] for lev in ei], [list(x) for x in el])


def spec_t(ref_i, est_i, transitive=False, window=S.DEFAULT_WINDOW, frame_size=S.DEFAULT_FRAME_SIZE,
           beta=S.DEFAULT_BETA):
    # class counting (exactly equal to the brute-force triple count: asserted state by state in C17)
    p, r, f = S.tmeasure(ref_i, est_i, transitive, window, frame_size, beta, fast=True)
    return (float(p), float(r), f)


def spec_l(ref_i, ref_l, est_i, est_l, frame_size=S.DEFAULT_FRAME_SIZE, beta=S.DEFAULT_BETA):
    p, r, f = S.lmeasure(ref_i, ref_l, est_i, est_l, frame_size, beta, fast=True)
    return (float(p), float(r), f)


def _has_triple(depth, transitive, w):
    """does some query frame own a reference triple (brute force over the depth matrix)"""
    n = len(depth)
    for q in range(n):
        cand = S.candidates(q, n, w)
        for i in cand:
            for j in cand:
                if S.is_reference_triple(depth[q][i], depth[q][j], transitive):
                    return True
    return False


def opt_t(x, cfg):
    """x against itself: every reference triple is recalled -> 1; without any reference triple (flat hierarchy,
    one-frame window ...) the documented '0/0 -> 0' convention gives 0 (tests/test_hierarchy.py asserts it)"""
    fs = cfg.get("frame_size", S.DEFAULT_FRAME_SIZE)
    w = S.window_frames(cfg.get("window", S.DEFAULT_WINDOW), fs)
    d = S.depth_matrix([[list(s) for s in lev] for lev in x[0]], None, fs)
    v = 1.0 if _has_triple(d, cfg.get("transitive", False), w) else 0.0
    return {k: v for k in T_KEYS}


def opt_l(x, cfg):
    fs = cfg.get("frame_size", S.DEFAULT_FRAME_SIZE)
    d = S.depth_matrix([[list(s) for s in lev] for lev in x[0]], [list(l) for l in x[1]], fs)
    v = 1.0 if _has_triple(d, True, None) else 0.0
    return {k: v for k in L_KEYS}


def swap_t(cfg):
    m = {"T-Precision": "T-Recall", "T-Recall": "T-Precision"}
    if cfg.get("beta", 1.0) == 1.0:
        m["T-Measure"] = "T-Measure"
    return m


def swap_l(cfg):
    m = {"L-Precision": "L-Recall", "L-Recall": "L-Precision"}
    if cfg.get("beta", 1.0) == 1.0:
        m["L-Measure"] = "L-Measure"
    return m


F_T = Func("hierarchy.tmeasure", M.tmeasure, T_KEYS,
           [("transitive", [False, True]), ("window", [15.0, 0.5, 1.0, None]), ("frame_size", [0.1, 0.5, 0.25]),
            ("beta", [1.0, 0.5, 2.0])],
           build_t, model_t, spec_t, {k: "P01" for k in T_KEYS}, optimum=opt_t, swap=swap_t)
F_L = Func("hierarchy.lmeasure", M.lmeasure, L_KEYS,
           [("frame_size", [0.1, 0.5, 0.25]), ("beta", [1.0, 0.5, 2.0])],
           build_l, model_l, spec_l, {k: "P01" for k in L_KEYS}, optimum=opt_l, swap=swap_l)
FUNCS = [F_T, F_L]


# ---------------------------------------------------------------------------------- fixtures
def fixture_check(tier):
    """Model (not the library) vs the docstring example of hierarchy.evaluate and the recorded
    tests/data/hierarchy/output_w=*.json (tests/test_hierarchy.py: evaluate(..., window=w), defaults otherwise)."""
    root = os.path.join(os.environ.get("VERIF_REPO") or "/repo", "tests", "data", "hierarchy")
    ref = [S.read_lab(f) for f in sorted(glob.glob(os.path.join(root, "ref*.lab")))]
    est = [S.read_lab(f) for f in sorted(glob.glob(os.path.join(root, "est*.lab")))]
    outs = sorted(glob.glob(os.path.join(root, "output_w=*.json")))
    if not (ref and est and len(outs) >= 3):
        raise core.HarnessError("hierarchy fixtures not found under %s" % root)
    ex = S.DOC_EXAMPLE
    jobs = [("docstring", ex["ref_i"], ex["ref_l"], ex["est_i"], ex["est_l"], {}, ex["expected"])]
    for of in outs:
        with open(of) as f:
            want = json.load(f)
        w = float(os.path.basename(of)[len("output_w="):-len(".json")])
        jobs.append((os.path.basename(of), [x[0] for x in ref], [x[1] for x in ref], [x[0] for x in est],
                     [x[1] for x in est], {"window": w}, want))
    for name, ri, rl, ei, el, kw, want in jobs:
        got = S.evaluate(ri, rl, ei, el, fast=True, **kw)
        if name != "docstring" and sorted(want) != sorted(got):
            raise core.HarnessError("hierarchy fixture %s: key set %r" % (name, sorted(want)))
        for k, v in want.items():
            if abs(got[k] - float(v)) > 1e-7:
                raise core.HarnessError("hierarchy model does not reproduce %s: %s model=%r recorded=%r"
                                        % (name, k, got[k], v))
    return len(jobs)


TASK = Task("hierarchy", FUNCS, pair_space, single_space)
TASK.fixture_check = fixture_check
TASK.edge_space = edge_space


# ---------------------------------------------------------------------------------- C08: relabel edges
EXOTIC = ["ß", "Ärger", "é", "Ω", "ñañ", "日本", "Ж", "ź"]


def _renamings(labels, salt):
    """bijections of one level's label names onto fresh names (distinct names stay distinct, also up to case)"""
    names = sorted(set(labels))
    k = len(names)
    rev = {nm: "s%02d" % (k - i) for i, nm in enumerate(names)}                      # reverses the sort order
    case = {nm: (nm.upper() if nm.upper() != nm else nm.lower()) + "_" for nm in names}  # case change
    nonascii = {nm: EXOTIC[(i * 3 + salt) % len(EXOTIC)] for i, nm in enumerate(names)}
    # mixed-case names whose ASCII order differs from their case-insensitive order ('B' < 'Silence' < 'a' < 'c' <
    # 'verse' in ASCII; a, b, c, silence, verse ignoring case)
    M1 = ["B", "a", "c", "Zebra", "d", "Echo", "f"]                 # ASCII: B Echo Zebra a c d f
    M2 = ["Silence", "intro", "verse", "Alpha", "beta", "Coda", "d"]
    mixed1 = {nm: M1[i % len(M1)] for i, nm in enumerate(names)}
    mixed2 = {nm: M2[i % len(M2)] for i, nm in enumerate(names)}
    return {"reverse-order": rev, "case": case, "non-ascii": nonascii, "mixed-case": mixed1, "mixed-case-2": mixed2}


KINDS = ("reverse-order", "case", "non-ascii", "mixed-case", "mixed-case-2")


def _rename(sd, kinds):
    """rename level i of one side with the bijection of kind kinds[i % len(kinds)]"""
    labs = []
    for li, lev in enumerate(sd[1]):
        m = _renamings(lev, li)[kinds[li % len(kinds)]]
        labs.append(tuple(m[x] for x in lev))
    return (sd[0], tuple(labs))


def _relabel(state):
    ref, est = state
    plans = [(k,) for k in KINDS] + [("reverse-order", "non-ascii"), ("non-ascii", "case"), ("case", "reverse-order")]
    out = []
    for p in plans:
        if len(p) > 1 and len(ref[1]) < 2:
            continue
        out.append(("ref:" + "/".join(p), (_rename(ref, p), est)))
    for p in plans:
        if len(p) > 1 and len(est[1]) < 2:
            continue
        out.append(("est:" + "/".join(p), (ref, _rename(est, p))))
    out.append(("both:reverse-order|non-ascii", (_rename(ref, ("reverse-order",)), _rename(est, ("non-ascii",)))))
    out.append(("both:non-ascii,case|case,reverse-order", (_rename(ref, ("non-ascii", "case")),
                                                           _rename(est, ("case", "reverse-order")))))
    return out


TASK.edges = {"relabel": {"apply": _relabel, "funcs": ["hierarchy.lmeasure"], "keys": None,
                          "cfgs": [{}, {"frame_size": 0.25}]}}
