"""Task adapter: mir_eval.chord, interval level (see mc/tasks/base.py for the interface).

A state is (reference side, estimate side); a side is (intervals, labels) = (((start, end), ...), (label, ...)) of plain
floats / strs - a gap-free segmentation - or the empty tuple () for an estimate without intervals.  Times are
multiples of a dyadic half-cell h(phase) in {1/8, 1/4, 1/16, 3/16} s, so durations, refinements and Hamming
distances are exact.

Functions
  chord.evaluate   thin wrapper returning the 15 values of evaluate() in their documented key order
                   (thirds, thirds_inv, triads, triads_inv, tetrads, tetrads_inv, root, mirex, majmin, majmin_inv,
                   sevenths, sevenths_inv, underseg, overseg, seg); model = mc.spec.chord.evaluate
  chord.overseg / chord.underseg / chord.seg   on the bare interval arrays; `defined` only for two non-empty sides
                   with a common span (Harte's directional Hamming distance is stated for two segmentations of one
                   piece)

Label panel (transposed jointly by `phase` semitones, spelled with sharps / flats by phase):
  P10 = N, X, C, C:min, G, G:7, C:maj/3, A:min7, D:sus4, Db:maj(9)
        every rule sees in-vocabulary, out-of-vocabulary (X; sus4 / 7 / min7 for majmin; sus4 for sevenths), matching
        (C ~ C:maj/3 for root/thirds/triads/tetrads/majmin/sevenths; G ~ G:7 for triads/thirds/mirex; C ~ A:min7 for
        mirex) and mismatching (C vs C:min; C vs C:maj/3 for the *_inv rules; G vs G:7 for tetrads/sevenths) pairs
  P6  = C, C:maj (an equivalent respelling: must be fused for the segmentation scores), N, X, G:7, D:sus4
  P3  = four 3-label menus: (C, C:min, X) (C, C:maj/3, N) (G, G:7, X) (C, C:maj, D:sus4)

Pair space (cells of 2h; reference span = 4 cells quick / 5 cells thorough, starting at phase/4 s)
  A  all pairs of sides with 1 segment (P10) or 2 segments (every cut, P6 x P6)
  B  for two (thorough: all four) P3 menus: all pairs of sides with <= 3 segments over the menu, plus sides with
     more segments over the first two labels of the menu against themselves and against the <= 2-segment sides
  D  span deviations: 6 references on [T, T + 8h], T = 1 + phase/4, x estimates on 13 spans (longer / shorter at
     either end by a half-cell or a cell, inside, superset, entirely before / after with and without touching,
     same span with half-cell boundaries) x 1-3 segments over a menu, plus the empty estimate
Single space (C02): every side with <= 2 segments over P10, 3 segments over P6 (quick: 5 of them), 4 (5) segments
  over a 4-label (3-label) panel.

Details the documentation leaves open are modelled as coded in mc/spec/chord.py and listed in NOTES.
"""
import glob
import itertools
import json
import os
from fractions import Fraction as Fr

import numpy as np

import mir_eval.chord as M
from mc import core
from mc.spec import chord as S
from mc.tasks.base import Func, Task, Undefined

KEYS = S.EVAL_KEYS
RULES = S.RULE_KEYS
EMPTY = ()

NOTES = [
    "X as an estimated label is compared through its reserved encoding (root -1, bitmap -1) and counts as "
    "containing every pitch class for mirex (as coded; the documentation only speaks of X references)",
    "mirex ignores references with one or two tones and scores N against N as a match (as coded)",
    "thirds compares the minor-third position only; majmin's triad is semitones 0-7 of the encoded bitmap",
    "*_inv rules use the vocabulary of their plain rule: the documented 'bass must be a chord tone' restriction has "
    "no effect in the library (known finding F22); no label of the panels lies in that zone",
]


# ---------------------------------------------------------------------------------- labels
SPELL = [["C", "B#"], ["C#", "Db"], ["D", "D"], ["D#", "Eb"], ["E", "Fb"], ["F", "E#"], ["F#", "Gb"], ["G", "G"],
         ["G#", "Ab"], ["A", "A"], ["A#", "Bb"], ["B", "Cb"]]
_BASE = {"C": 0, "G": 7, "A": 9, "D": 2, "Db": 1}


def tr(label, phase):
    """transpose a panel label by `phase` semitones (N / X unchanged)"""
    if label in ("N", "X"):
        return label
    root, _, rest = label.partition(":")
    pc = (_BASE[root] + phase) % 12
    name = SPELL[pc][(phase // 2) % 2] if phase else root
    return name + (":" + rest if rest else "")


def P10(phase):
    return [tr(l, phase) for l in ("N", "X", "C", "C:min", "G", "G:7", "C:maj/3", "A:min7", "D:sus4", "Db:maj(9)")]


def P6(phase):
    return [tr(l, phase) for l in ("C", "C:maj", "N", "X", "G:7", "D:sus4")]


_MENUS = (("C", "C:min", "X"), ("C", "C:maj/3", "N"), ("G", "G:7", "X"), ("C", "C:maj", "D:sus4"))


def menus(phase, n):
    return [[tr(l, phase) for l in _MENUS[(phase + i) % 4]] for i in range(n)]


# ---------------------------------------------------------------------------------- sides
def half(phase):
    return (Fr(1, 8), Fr(1, 4), Fr(1, 16), Fr(3, 16))[phase % 4]


def compositions(n):
    if n == 0:
        yield ()
        return
    for first in range(1, n + 1):
        for rest in compositions(n - first):
            yield (first,) + rest


def side(t0, h, lengths, labels):
    """lengths in half-cells"""
    ivs, t = [], Fr(t0)
    for k in lengths:
        ivs.append((float(t), float(t + k * h)))
        t += k * h
    return (tuple(ivs), tuple(labels))


def sides(t0, h, ncells, nsegs, labels):
    """every segmentation of ncells cells (2h each) into exactly nsegs segments x every labelling"""
    out = []
    for comp in compositions(ncells):
        if len(comp) != nsegs:
            continue
        for labs in itertools.product(labels, repeat=nsegs):
            out.append(side(t0, h, [2 * c for c in comp], labs))
    return out


def pair_space(tier, phase):
    thorough = tier == "thorough"
    n = 5 if thorough else 4
    h = half(phase)
    t0 = Fr(phase, 4)
    out = []
    # A
    a = sides(t0, h, n, 1, P10(phase)) + sides(t0, h, n, 2, P6(phase))
    out.extend((x, y) for x in a for y in a)
    # B
    for menu in menus(phase, 4 if thorough else 2):
        low = sides(t0, h, n, 1, menu) + sides(t0, h, n, 2, menu)
        mid = low + sides(t0, h, n, 3, menu)
        out.extend((x, y) for x in mid for y in mid)
        high = []
        for k in range(4, n + 1):
            high.extend(sides(t0, h, n, k, menu[:2]))
        out.extend((x, y) for x in high for y in high)
        out.extend((x, y) for x in high for y in low)
        out.extend((x, y) for x in low for y in high)
    # D
    out.extend(d_space(tier, phase))
    # E: roots with three accidentals (the grammar allows any number of them: Dbbb = B, F### = G#, B### = D,
    # Cbbb = A), on either side
    e_menu = ["Dbbb:min", "F###", "B###:7", "Cbbb:maj/3"]
    e_sides = sides(t0, h, n, 1, e_menu[:2]) + sides(t0, h, n, 2, e_menu)
    plain = sides(t0, h, n, 1, P6(phase)[:3]) + sides(t0, h, n, 2, P6(phase)[:2])
    out.extend((x, y) for x in e_sides for y in e_sides[:8] + plain)
    out.extend((x, y) for x in plain for y in e_sides)
    seen, res = set(), []
    for s in out:
        if s not in seen:
            seen.add(s)
            res.append(s)
    res.sort(key=lambda s: (len(s[0][0]) + (len(s[1][0]) if s[1] else 0)))
    return res


SPANS = [(0, 8), (-2, 8), (0, 10), (2, 8), (0, 6), (1, 7), (-2, 10), (3, 5), (-4, -1), (-4, 0), (8, 12), (9, 12),
         (-1, 9)]


def d_space(tier, phase):
    h = half(phase)
    T = Fr(1) + Fr(phase, 4)
    ms = menus(phase, 2)
    a, b, c = ms[0]
    n_, x_ = "N", "X"
    refs = [side(T, h, [8], [a]), side(T, h, [4, 4], [a, b]), side(T, h, [2, 6], [a, c]),
            side(T, h, [2, 4, 2], [a, b, a]), side(T, h, [8], [n_]), side(T, h, [4, 4], [x_, a])]
    if tier == "thorough":
        refs += [side(T, h, [3, 5], [b, a]), side(T, h, [1, 1, 6], [a, a, b]), side(T, h, [2, 2, 2, 2], [a, b, c, a])]
    ests = [EMPTY]
    for menu in (ms if tier == "thorough" else ms[:1]):
        for (s, e) in SPANS:
            L = e - s
            start = T + s * h
            for l in menu:
                ests.append(side(start, h, [L], [l]))
            for m in sorted(set([1, L // 2, L - 1])):
                if 0 < m < L:
                    for labs in itertools.product(menu, repeat=2):
                        ests.append(side(start, h, [m, L - m], labs))
            if L >= 3:
                for labs in itertools.product(menu, repeat=3):
                    ests.append(side(start, h, [1, L - 2, 1], labs))
    return [(r, e) for r in refs for e in ests]


def single_space(tier, phase):
    thorough = tier == "thorough"
    n = 5 if thorough else 4
    h = half(phase)
    t0 = Fr(phase, 4)
    p10, p6 = P10(phase), P6(phase)
    out = sides(t0, h, n, 1, p10) + sides(t0, h, n, 2, p10)
    out += sides(t0, h, n, 3, p6 if thorough else p6[:5])
    out += sides(t0, h, n, 4, p6[:4] if not thorough else p6[:3])
    if thorough:
        out += sides(t0, h, n, 5, p6[:3])
    # a late-starting annotation as well (span not anchored at the origin of the lattice)
    out += [side(1 + t0, h, [3, 5], [p10[2], p10[1]]), side(1 + t0, h, [8], [p10[1]])]
    return out


def edge_space(tier, phase):
    """smaller pair space for the two-execution relations: the span-deviation space plus all pairs of <= 2-segment
    sides and <= 2- against 3-segment sides over one menu"""
    n = 5 if tier == "thorough" else 4
    h = half(phase)
    t0 = Fr(phase, 4)
    menu = menus(phase, 1)[0]
    low = sides(t0, h, n, 1, menu) + sides(t0, h, n, 2, menu)
    three = sides(t0, h, n, 3, menu)
    out = d_space(tier, phase)
    out += [(x, y) for x in low for y in low]
    out += [(x, y) for x in three for y in low] + [(x, y) for x in low for y in three]
    # near-coincident boundaries: the estimate's inner boundaries sit 2^-7 s (7.8 ms) before / after the reference's,
    # so that a closeness test that is relative to absolute time behaves differently after a large common shift
    eps = Fr(1, 128)
    for x in three[:60]:
        ivs = x[0]
        for sgn in (1, -1):
            b = [Fr(ivs[0][0])] + [Fr(e) + sgn * eps for (_, e) in ivs[:-1]] + [Fr(ivs[-1][1])]
            y = (tuple((float(b[i]), float(b[i + 1])) for i in range(len(ivs))), x[1])
            out.append((x, y))
            out.append((y, x))
    return out


# ---------------------------------------------------------------------------------- state <-> arguments
def _iv(s):
    return s[0] if s else ()


def _lab(s):
    return s[1] if s else ()


def _arr(s):
    return np.array([[a, b] for (a, b) in _iv(s)], dtype=float).reshape(-1, 2)


def _fiv(s):
    return [(Fr(a), Fr(b)) for (a, b) in _iv(s)]


def build_eval(state):
    return (_arr(state[0]), list(_lab(state[0])), _arr(state[1]), list(_lab(state[1])))


def model_eval(state):
    return (_fiv(state[0]), list(_lab(state[0])), _fiv(state[1]), list(_lab(state[1])))


def build_iv(state):
    return (_arr(state[0]), _arr(state[1]))


def model_iv(state):
    return (_fiv(state[0]), _fiv(state[1]))


def evaluate15(ref_intervals, ref_labels, est_intervals, est_labels, **kwargs):
    d = M.evaluate(ref_intervals, ref_labels, est_intervals, est_labels, **kwargs)
    if list(d.keys()) != list(KEYS):
        raise ValueError("evaluate() keys %r differ from the documented bundle" % (list(d.keys()),))
    return tuple(d[k] for k in KEYS)


def same_span(state, cfg=None):
    a, b = _iv(state[0]), _iv(state[1])
    return bool(a) and bool(b) and a[0][0] == b[0][0] and a[-1][1] == b[-1][1]


def eval_defined(state, cfg=None):
    return bool(_iv(state[0]))          # an empty reference is outside the claim (the span is taken from it)


# ---------------------------------------------------------------------------------- reference model bindings
def spec_under(r, e):
    return S.seg_scores(r, e)[0]


def spec_over(r, e):
    return S.seg_scores(r, e)[1]


def spec_seg(r, e):
    return S.seg_scores(r, e)[2]


def opt_eval(x, cfg):
    """x against itself: a rule scores 1 iff some reference interval is in its vocabulary, else 0 by convention."""
    want = {}
    for rule in RULES:
        want[rule] = 1.0 if any(S.in_vocabulary(rule, l) for l in _lab(x)) else 0.0
    want["underseg"] = want["overseg"] = want["seg"] = 1.0
    return want


P01_15 = dict((k, "P01") for k in KEYS)

F_EVAL = Func("chord.evaluate", evaluate15, KEYS, {}, build_eval, model_eval, S.evaluate, P01_15, optimum=opt_eval,
              swap={"underseg": "overseg", "overseg": "underseg", "seg": "seg"})
F_EVAL.defined = eval_defined
F_EVAL.swap_ok = same_span
F_OVER = Func("chord.overseg", M.overseg, ["overseg"], {}, build_iv, model_iv, spec_over, {"overseg": "P01"},
              optimum=lambda x, cfg: {"overseg": 1.0})
F_UNDER = Func("chord.underseg", M.underseg, ["underseg"], {}, build_iv, model_iv, spec_under, {"underseg": "P01"},
               optimum=lambda x, cfg: {"underseg": 1.0})
F_SEG = Func("chord.seg", M.seg, ["seg"], {}, build_iv, model_iv, spec_seg, {"seg": "P01"},
             optimum=lambda x, cfg: {"seg": 1.0}, swap={"seg": "seg"})
for _f in (F_OVER, F_UNDER, F_SEG):
    _f.defined = same_span
F_SEG.swap_ok = same_span

FUNCS = [F_EVAL, F_OVER, F_UNDER, F_SEG]


# ---------------------------------------------------------------------------------- fixtures
def _load_lab(path):
    ivs, labels = [], []
    with open(path) as f:
        for line in f:
            c = line.split()
            if not c or c[0].startswith("#"):
                continue
            ivs.append((Fr(float(c[0])), Fr(float(c[1]))))
            labels.append(c[2])
    return ivs, labels


def fixture_check(tier):
    """Model (not the library) vs the recorded tests/data/chord/output*.json (tests/test_chord.py: chord.evaluate on
    load_labeled_intervals(ref*.lab / est*.lab), default arguments)."""
    root = os.path.join(os.environ.get("VERIF_REPO", "/repo"), "tests", "data", "chord")
    refs = sorted(glob.glob(os.path.join(root, "ref*.lab")))
    if not refs:
        raise core.HarnessError("chord fixtures not found under %s" % root)
    n = skipped = 0
    for rp in refs:
        ep = rp.replace("ref", "est")
        op = rp.replace("ref", "output").replace(".lab", ".json")
        with open(op) as f:
            want = json.load(f)
        if sorted(want) != sorted(KEYS):
            raise core.HarnessError("chord fixture %s: key set %r" % (op, sorted(want)))
        ri, rl = _load_lab(rp)
        ei, el = _load_lab(ep)
        try:
            got = dict(zip(KEYS, S.evaluate(ri, rl, ei, el)))
        except Undefined:
            skipped += 1
            continue
        for k in KEYS:
            if abs(float(got[k]) - float(want[k])) > 1e-7:
                raise core.HarnessError("chord reference model does not reproduce fixture %s: %s model=%r recorded=%r"
                                        % (os.path.basename(op), k, float(got[k]), want[k]))
        n += 1
    if n == 0:
        raise core.HarnessError("no chord fixture could be evaluated by the model (%d skipped)" % skipped)
    fixture_check.skipped = skipped
    return n


TASK = Task("chord", FUNCS, pair_space, single_space)
TASK.fixture_check = fixture_check
TASK.notes = NOTES


# ---------------------------------------------------------------------------------- edge relations (C08)
def _shift(state):
    out = []
    for d in (1 / 16.0, 1000.0, 4096.0):
        def mv(s, d=d):
            if not s:
                return s
            return (tuple((float(Fr(a) + Fr(d)), float(Fr(b) + Fr(d))) for (a, b) in s[0]), s[1])
        out.append(("+%g" % d, (mv(state[0]), mv(state[1]))))
    return out


TASK.edge_space = edge_space
TASK.edges = {"shift": {"apply": _shift, "funcs": None, "keys": None, "cfgs": [{}]}}
