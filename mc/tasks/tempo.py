"""Task adapter: mir_eval.tempo (see mc/tasks/base.py for the interface).

A state is (ref_side, est_side) with ref_side = (ref_tempo_0, ref_tempo_1, reference_weight) and
est_side = (est_tempo_0, est_tempo_1[, ignored]); only the first two entries of the estimate side are used, so
that a single-space element x = (t0, t1, w) scored against itself, (x, x), is a well-formed state (C02).

The domain is enumerated COMPLETELY: every ordered pair of reference tempi (not both zero: documented
ValueError) x every ordered pair of estimated tempi (both zero allowed) x every weight, and every tol of the
parameter alphabet.  The phase multiplies all tempi by an exactly representable factor (relative errors, hence
all scores, are unchanged in exact arithmetic; 72 vs 64 stays an exact boundary at tol = 0.125).
"""
import glob
import json
import os
from fractions import Fraction as Fr

import numpy as np

import mir_eval.tempo as M
from mc import core
from mc.spec import tempo as S
from mc.tasks.base import Func, Task

KEYS = ("P-score", "One-correct", "Both-correct")
PHASE_FACTOR = (1.0, 2.0, 0.5, 1.5, 4.0, 0.25, 3.0, 0.75)


def build(state):
    ref, est = state
    return (np.array(ref[:2], dtype=float), float(ref[2]), np.array(est[:2], dtype=float))


def model(state):
    ref, est = state
    return ([Fr(t) for t in ref[:2]], Fr(ref[2]), [Fr(t) for t in est[:2]])


def tempi(tier, phase):
    base = (0, 60, 64, 72, 120, 180) + ((66,) if tier == "thorough" else ())
    f = PHASE_FACTOR[phase % 8]
    return [float(Fr(b) * Fr(f)) for b in base]


def weights(tier):
    return (0.0, 0.25, 0.5, 1.0) + ((0.75,) if tier == "thorough" else ())


def pair_space(tier, phase):
    ts = tempi(tier, phase)
    refs = [(a, b) for a in ts for b in ts if not (a == 0 and b == 0)]
    ests = [(a, b) for a in ts for b in ts]
    return [((r[0], r[1], w), e) for r in refs for w in weights(tier) for e in ests]


def single_space(tier, phase):
    ts = tempi(tier, phase)
    return [(a, b, w) for a in ts for b in ts if not (a == 0 and b == 0) for w in weights(tier)]


def est_permutations(state):
    """C08: the states obtained by permuting the two estimated tempi (scores must be equal)."""
    ref, est = state
    return [(ref, (est[1], est[0]) + tuple(est[2:]))]


def optimum(x, cfg):
    # non-degenerate (DESIGN C02): both reference tempi > 0; a zero reference tempo can never be hit
    if x[0] > 0 and x[1] > 0:
        return {"P-score": 1.0, "One-correct": 1.0, "Both-correct": 1.0}
    return {k: None for k in KEYS}


TOLS = [0.08, 0.0, 0.125, 0.5, 1.0]

FUNCS = [
    Func("tempo.detection", M.detection, KEYS, {"tol": TOLS}, build, model, S.detection,
         {"P-score": "P01", "One-correct": "BIN", "Both-correct": "BIN"}, optimum=optimum,
         mono=[("tol", [0.0, 1 / 32.0, 0.08, 0.125, 0.25, 0.5, 1.0])], mono_keys=list(KEYS),
         nested=[("Both-correct", "One-correct")]),
]


# ---------------------------------------------------------------------------------- fixtures
def _rows(path):
    rows = []
    with open(path) as f:
        for line in f:
            line = line.strip()
            if not line or line.startswith("#"):
                continue
            rows.append([float(v) for v in line.split()])
    return rows


def fixture_check(tier):
    """Model (not the library) vs the recorded tests/data/tempo/output*.json (tests/test_tempo.py: first
    row = tempo, tempo, weight; the estimate file's weight is ignored; tempo.evaluate with defaults)."""
    root = os.path.join(os.environ.get("VERIF_REPO", "/repo"), "tests", "data", "tempo")
    refs = sorted(glob.glob(os.path.join(root, "ref*.lab")))
    ests = sorted(glob.glob(os.path.join(root, "est*.lab")))
    outs = sorted(glob.glob(os.path.join(root, "output*.json")))
    if not (len(refs) == len(ests) == len(outs) > 0):
        raise core.HarnessError("tempo fixtures not found under %s" % root)
    n = 0
    for rf, ef, of in zip(refs, ests, outs):
        r, e = _rows(rf)[0], _rows(ef)[0]
        with open(of) as f:
            want = json.load(f)
        got = dict(zip(KEYS, S.detection(r[:2], r[2], e[:2], eps=1e-7)))
        if set(got) != set(want):
            raise core.HarnessError("tempo fixture %s: key set %r != %r" % (of, sorted(want), sorted(got)))
        for k in KEYS:
            if abs(float(got[k]) - float(want[k])) > 1e-7:
                raise core.HarnessError("tempo model does not reproduce fixture %s: %s model=%r recorded=%r"
                                        % (os.path.basename(of), k, got[k], want[k]))
        n += 1
    return n


TASK = Task("tempo", FUNCS, pair_space, single_space)
TASK.fixture_check = fixture_check
TASK.est_permutations = est_permutations


# C08: permuting the two estimated tempi must not change any score
TASK.edges = {"permute": {"apply": lambda state: [("swap-estimates", s2) for s2 in est_permutations(state)],
                          "funcs": None, "keys": None, "cfgs": [{}, {"tol": 0.125}]}}
