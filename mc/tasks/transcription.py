"""Task adapter: mir_eval.transcription (see mc/tasks/base.py for the interface).

State = (ref_notes, est_notes); a note is (onset, offset, pitch_hz), plain floats on the decimal time lattice
k/100 s (DESIGN section 2: the documented rule is "round the distance to 4 decimals, then compare") and the margin
pitch lattice f0 * 2^(c/1200), c in {0, 49, 51, 1200}.

The maximum note matching is not unique and Average_Overlap_Ratio depends on which one is taken: the reference
model returns the *set* of admissible values (one per maximum matching, brute force) as a `Choice`; `ChoiceFunc`
binds the observed outputs to it so that the generic driver compares the library value with the nearest admissible
one (joint over all outputs that depend on the matching).
"""
import itertools
import json
import os
from fractions import Fraction as Fr

import numpy as np

import mir_eval.transcription as M
from mc import core, lib
from mc.spec import transcription as S
from mc.tasks.base import Func, Task

PRF = ("Precision", "Recall", "F-measure")
PRFO = PRF + ("Average_Overlap_Ratio",)


# ---------------------------------------------------------------------------------- the Choice-aware Func
class ChoiceFunc(Func):
    """A Func whose reference model may return `Choice` components (set-valued expectation)."""

    def expected(self, state, cfg):
        exp = Func.expected(self, state, cfg)
        self._choices = []
        for k, v in exp.items():
            if isinstance(v, S.Component):
                v.choice.keymap[v.idx] = k
                if v.choice not in self._choices:
                    self._choices.append(v.choice)
        return exp

    def call(self, state, cfg):
        pending, self._choices = getattr(self, "_choices", []), []
        got = Func.call(self, state, cfg)
        for c in pending:
            c.bind(got[c.keymap[i]] if i in c.keymap else float("nan") for i in range(len(c.options[0])))
        return got


# ---------------------------------------------------------------------------------- build / model
def _intervals(side):
    return np.array([[n[0], n[1]] for n in side], dtype=float).reshape(-1, 2)


def _pitches(side):
    return np.array([n[2] for n in side], dtype=float)


def build(state):
    r, e = state
    return (_intervals(r), _pitches(r), _intervals(e), _pitches(e))


def build_iv(state):
    return (_intervals(state[0]), _intervals(state[1]))


_MODEL_CACHE = [None, None]


def model(state):
    if _MODEL_CACHE[0] is not state:
        _MODEL_CACHE[0] = state
        _MODEL_CACHE[1] = tuple([(Fr(n[0]), Fr(n[1]), float(n[2])) + tuple(n[3:]) for n in side] for side in state)
    return _MODEL_CACHE[1]


# ---------------------------------------------------------------------------------- lattices
def T(k):
    """k/100 s as the nearest binary64 (what a decimal literal / a text file gives)."""
    return float(Fr(k, 100))


def f0_of(phase):
    return 220.0 * 2.0 ** (phase / 12.0)


def cents(f0, c):
    return f0 * 2.0 ** (c / 1200.0)


def base_of(phase):
    return 37 * phase            # the whole lattice is shifted by 0.37 s per phase


def note_alphabet(phase, onsets=None, durs=None, cts=(0, 49, 51)):
    """18 notes.  Even phases: onsets {0,.06,.05} (unsorted on purpose), durations {.25, 1}; odd phases: onsets
    {0,.04,.05}, durations {.1, 1} and pitch-major order, so that the input order varies with the phase."""
    b, f0 = base_of(phase), f0_of(phase)
    if onsets is None:
        onsets = (0, 6, 5) if phase % 2 == 0 else (0, 4, 5)
    if durs is None:
        durs = (25, 100) if phase % 2 == 0 else (10, 100)
    if phase % 2 == 0:
        combos = [(on, d, c) for on in onsets for d in durs for c in cts]
    else:
        combos = [(on, d, c) for c in cts for d in durs for on in onsets]
    return [(T(b + on), T(b + on + d), cents(f0, c)) for on, d, c in combos]


def small_alphabet(phase):
    """9 notes for the <=3 x <=3 space (thorough): two near onsets + a far one, one short / one long duration,
    quarter-tone neighbours and the octave."""
    b, f0 = base_of(phase), f0_of(phase)
    near = 5 if phase % 2 == 0 else 4
    combos = [(0, 25, 0), (near, 25, 0), (near + 1, 25, 49), (0, 100, 0), (near, 100, 51), (0, 25, 49),
              (50, 25, 0), (50, 30, 1200), (near, 20, 0)]
    return [(T(b + on), T(b + on + d), cents(f0, c)) for on, d, c in combos]


def regular_refs(phase, n):
    """Reference melodies for the deviation-bounded space: n notes 0.5 s apart, >= 200 cents apart (first onset
    at >= 0.2 s so that two onset shifts of -60 ms keep every time non-negative)."""
    b, f0 = base_of(phase) + 20, f0_of(phase)
    out = []
    for durs in ((25, 45, 25, 100), (100, 25, 45, 25)):
        out.append(tuple((T(b + 50 * k), T(b + 50 * k + durs[k]), cents(f0, 200 * k)) for k in range(n)))
    return out


def T5(k):
    """k * 1e-5 s as the nearest binary64."""
    return float(Fr(k, 100000))


def _shift(note, don=0, doff=0, c=0):
    """Shift onset / offset by don / doff (in units of 1e-5 s), detune by c cents."""
    on = lib.round_half_even(Fr(note[0]) * 100000) + don
    off = lib.round_half_even(Fr(note[1]) * 100000) + doff
    return (T5(on), T5(off), note[2] * 2.0 ** (c / 1200.0) if c else note[2]) + tuple(note[3:])


# 10 / 50 / 60 ms on both sides, and two sub-lattice shifts that only the documented 4-decimal rounding tells
# apart: 50.04 ms rounds to 0.0500 (within the default tolerance), 50.4 ms rounds to 0.0504 (outside)
SHIFTS = (-6000, -5000, -1000, 1000, 5000, 6000, 5004, 5040)


def edits(x):
    """All single edits of a note list (onset / offset shifts, detuning, delete, duplicate, insert)."""
    x = list(x)
    out = []
    for i, n in enumerate(x):
        for d in SHIFTS:
            out.append(tuple(x[:i] + [_shift(n, don=d)] + x[i + 1:]))
            out.append(tuple(x[:i] + [_shift(n, doff=d)] + x[i + 1:]))
        for c in (-49, 49, 51, 1200):
            out.append(tuple(x[:i] + [_shift(n, c=c)] + x[i + 1:]))
        out.append(tuple(x[:i] + x[i + 1:]))
        out.append(tuple(x[:i + 1] + [n] + x[i + 1:]))
    if x:
        out.append(tuple(x + [_shift(x[0], don=25000, doff=25000, c=700)]))
    return out


def valid_side(side):
    """Valid per the documentation: non-negative times, positive durations, positive pitches."""
    return all(n[0] >= 0 and n[1] > n[0] and n[2] > 0 for n in side)


def dev_space(tier, phase):
    out, seen = [], set()
    for ref in regular_refs(phase, 4 if tier == "thorough" else 3):
        e1 = edits(ref)
        cand = [ref] + e1
        if tier == "thorough":
            cand += [e2 for a in e1 for e2 in edits(a)]
        for est in cand:
            if not valid_side(est):
                raise core.HarnessError("deviation space produced an invalid note list %r" % (est,))
            if (ref, est) not in seen:
                seen.add((ref, est))
                out.append((ref, est))
    return out


def pair_space(tier, phase):
    sets = list(lib.multisets(note_alphabet(phase), 2))
    states = [(a, b) for a in sets for b in sets]
    if tier == "thorough":
        s3 = list(lib.multisets(small_alphabet(phase), 3))
        seen = set(states)
        for a in s3:
            for b in s3:
                if (a, b) not in seen:
                    states.append((a, b))
    states += dev_space(tier, phase)
    return states


def _orders(t):
    if len(t) <= 3:
        return sorted(set(itertools.permutations(t)))
    return sorted(set([t, tuple(reversed(t)), t[1:] + t[:1], t[2:] + t[:2], (t[0], t[2], t[1], t[3])]))


def single_space(tier, phase):
    out = []
    for t in lib.multisets(note_alphabet(phase), 4 if tier == "thorough" else 3):
        out.extend(_orders(t))
    for ref in regular_refs(phase, 4):
        out.append(ref)
    return out


# ---------------------------------------------------------------------------------- optimum / helpers
def opt_prfo(x, cfg):
    v = 1.0 if len(x) else 0.0
    return {k: v for k in PRFO}


def opt_prf(x, cfg):
    v = 1.0 if len(x) else 0.0
    return {k: v for k in PRF}


def ambiguous_self_matching(x, cfg, func=""):
    """True iff scoring x against itself admits a maximum matching other than the identity (some notes of x
    satisfy the note criteria of `cfg` crosswise).  Characterises the C02 finding: the library then may pair
    notes crosswise, Average_Overlap_Ratio(x, x) < 1 and (velocity) Precision/Recall/F(x, x) < 1.
    `func` = the Func name of the case ("...[no_offset]" fixes offset_ratio=None)."""
    R = model((tuple(x), tuple(x)))[0]
    keys = ("onset_tolerance", "pitch_tolerance", "offset_ratio", "offset_min_tolerance", "strict")
    kw = {k: cfg[k] for k in keys if k in cfg}
    if func.endswith("[no_offset]"):
        kw["offset_ratio"] = None
    try:
        adj = S.graph(R, R, S.note_pred(R, R, **kw))
    except S.Undefined:
        return True
    return len(S.maximum_matchings(adj)) > 1


def _wrap_no_offset(ri, rp, ei, ep, **kw):
    return M.precision_recall_f1_overlap(ri, rp, ei, ep, offset_ratio=None, **kw)


SWAP = {"Precision": "Recall", "Recall": "Precision", "F-measure": "F-measure"}
SWAP_PR = {"Precision": "Recall", "Recall": "Precision"}


def swap_map(cfg):
    """P <-> R always; F-measure is symmetric under the exchange only for beta == 1."""
    return SWAP if cfg.get("beta", 1.0) == 1.0 else SWAP_PR


ONSET_CHAIN = ("onset_tolerance", [0.005, 0.01, 0.04, 0.05, 0.06, 0.1, 0.5])
PITCH_CHAIN = ("pitch_tolerance", [1.0, 25.0, 50.0, 100.0, 1175.0, 1250.0])
RATIO_CHAIN = ("offset_ratio", [0.02, 0.06, 0.2, 0.5, 1.0, None])     # None = offsets ignored = loosest
RATIO_CHAIN_OFFSET_ONLY = ("offset_ratio", [0.02, 0.06, 0.2, 0.5, 1.0])
MIN_CHAIN = ("offset_min_tolerance", [0.005, 0.01, 0.05, 0.06, 0.1, 0.5])
STRICT_CHAIN = ("strict", [True, False])

FUNCS = [
    ChoiceFunc("transcription.precision_recall_f1_overlap", M.precision_recall_f1_overlap, PRFO,
               [("onset_tolerance", [0.05, 0.04, 0.01, 0.1]), ("pitch_tolerance", [50.0, 1.0, 100.0]),
                ("offset_ratio", [0.2, None, 0.5, 0.06]), ("offset_min_tolerance", [0.05, 0.01, 0.1]),
                ("strict", [False, True]), ("beta", [1.0, 0.5, 2.0])],
               build, model, S.precision_recall_f1_overlap,
               {"Precision": "P01", "Recall": "P01", "F-measure": "P01", "Average_Overlap_Ratio": "LE1"},
               optimum=opt_prfo,
               mono=[ONSET_CHAIN, PITCH_CHAIN, RATIO_CHAIN, MIN_CHAIN, STRICT_CHAIN], mono_keys=list(PRF)),
    # offset_ratio fixed to None inside the wrapper: the only symmetric note criterion (C06 swap)
    ChoiceFunc("transcription.precision_recall_f1_overlap[no_offset]", _wrap_no_offset, PRFO,
               [("onset_tolerance", [0.05, 0.04]), ("pitch_tolerance", [50.0, 1.0]), ("strict", [False, True])],
               build, model, S.precision_recall_f1_overlap_no_offset,
               {"Precision": "P01", "Recall": "P01", "F-measure": "P01", "Average_Overlap_Ratio": "LE1"},
               optimum=opt_prfo, swap=SWAP,
               mono=[ONSET_CHAIN, PITCH_CHAIN, STRICT_CHAIN], mono_keys=list(PRF)),
    Func("transcription.onset_precision_recall_f1", M.onset_precision_recall_f1, PRF,
         [("onset_tolerance", [0.05, 0.04, 0.01, 0.1]), ("strict", [False, True]), ("beta", [1.0, 0.5, 2.0])],
         build_iv, model, S.onset_precision_recall_f1, {k: "P01" for k in PRF}, optimum=opt_prf, swap=swap_map,
         mono=[ONSET_CHAIN, STRICT_CHAIN], mono_keys=list(PRF)),
    Func("transcription.offset_precision_recall_f1", M.offset_precision_recall_f1, PRF,
         [("offset_ratio", [0.2, 0.5, 0.06]), ("offset_min_tolerance", [0.05, 0.01, 0.1]),
          ("strict", [False, True]), ("beta", [1.0, 0.5, 2.0])],
         build_iv, model, S.offset_precision_recall_f1, {k: "P01" for k in PRF}, optimum=opt_prf,
         mono=[RATIO_CHAIN_OFFSET_ONLY, MIN_CHAIN, STRICT_CHAIN], mono_keys=list(PRF)),
]
TASK = Task("transcription", FUNCS, pair_space, single_space)

# C07 "nested criteria" across functions, in the form generic.check_cross consumes:
#   ((lo function, lo key, lo cfg), (hi function, hi key, hi cfg))  =>  lo value <= hi value on every state.
# Exactly what the property states: with offsets <= without offsets <= onset-only, for Precision and Recall.
_F_OFF = "transcription.precision_recall_f1_overlap"
_F_NOOFF = "transcription.precision_recall_f1_overlap[no_offset]"
_F_ONSET = "transcription.onset_precision_recall_f1"
TASK.cross_nested = []
for _cfg in ({}, {"strict": True}, {"onset_tolerance": 0.04}, {"onset_tolerance": 0.1}, {"pitch_tolerance": 1.0}):
    _on = {k: v for k, v in _cfg.items() if k in ("onset_tolerance", "strict")}
    for _k in ("Precision", "Recall"):
        TASK.cross_nested.append(((_F_OFF, _k, dict(_cfg)), (_F_NOOFF, _k, dict(_cfg))))
        TASK.cross_nested.append(((_F_NOOFF, _k, dict(_cfg)), (_F_ONSET, _k, dict(_on))))
for _r in (0.5, 0.06):
    for _k in ("Precision", "Recall"):
        TASK.cross_nested.append(((_F_OFF, _k, {"offset_ratio": _r}), (_F_NOOFF, _k, {})))
TASK.ambiguous_self_matching = ambiguous_self_matching


# ---------------------------------------------------------------------------------- fixtures
FIXTURE_DIR = "/repo/tests/data/transcription"


def _load_notes(path):
    """'onset offset pitch [velocity]' per line (whitespace separated, '#' starts a comment), parsed with
    float() as the documented loader does."""
    notes = []
    with open(path) as f:
        for line in f:
            parts = line.split("#")[0].split()
            if parts:
                notes.append(tuple(float(v) for v in parts))
    return notes


def aor_range(R, E, adj, exact_limit=1 << 16):
    """Admissible AOR values over all maximum matchings of a big graph, by connected components.
    Returns (size, values or None, lo, hi)."""
    fixed, alts, size = 0.0, [], 0
    for refs, _ in S.components(adj):
        ms = S.maximum_matchings(adj, refs)
        size += len(ms[0])
        sums = sorted(set(round(sum(S.overlap_ratio(R[i], E[j]) for i, j in m), 13) for m in ms))
        if len(sums) == 1:
            fixed += sums[0]
        else:
            alts.append(sums)
    if size == 0:
        return 0, [0.0], 0.0, 0.0
    lo = (fixed + sum(a[0] for a in alts)) / size
    hi = (fixed + sum(a[-1] for a in alts)) / size
    n = 1
    for a in alts:
        n *= len(a)
    vals = None
    if n <= exact_limit:
        tot = [fixed]
        for a in alts:
            tot = sorted(set(round(t + v, 13) for t in tot for v in a))
        vals = [t / size for t in tot]
    return size, vals, lo, hi


def fixture_check(tier):
    files = sorted(f for f in os.listdir(FIXTURE_DIR) if f.startswith("output"))
    report = {"pairs": 0, "values": 0, "near_threshold_pairs": 0, "aor_exact_set": 0, "aor_interval_only": 0}
    for fn in files:
        tag = fn[len("output"):-len(".json")]
        R = _load_notes(os.path.join(FIXTURE_DIR, "ref%s.txt" % tag))
        E = _load_notes(os.path.join(FIXTURE_DIR, "est%s.txt" % tag))
        with open(os.path.join(FIXTURE_DIR, fn)) as f:
            rec = json.load(f)
        bad = []
        with S.float_mode() as fm:
            def prf(adj, names):
                p, r, f = S._prf(S.matching_size(adj, len(E)), R, E, 1.0)
                for name, v in zip(names, (p, r, f)):
                    report["values"] += 1
                    if abs(float(v) - rec[name]) > 1e-7:
                        bad.append((name, float(v), rec[name]))
            for suffix, ratio in (("", 0.2), ("_no_offset", None)):
                adj = S.graph(R, E, S.note_pred(R, E, offset_ratio=ratio))
                prf(adj, ["Precision" + suffix, "Recall" + suffix, "F-measure" + suffix])
                size, vals, lo, hi = aor_range(R, E, adj)
                name = "Average_Overlap_Ratio" + suffix
                report["values"] += 1
                if vals is not None:
                    report["aor_exact_set"] += 1
                    if min(abs(v - rec[name]) for v in vals) > 1e-7:
                        bad.append((name, "not one of %d admissible values in [%r, %r]" % (len(vals), lo, hi),
                                    rec[name]))
                else:
                    report["aor_interval_only"] += 1
                    if not (lo - 1e-7 <= rec[name] <= hi + 1e-7):
                        bad.append((name, "outside [%r, %r]" % (lo, hi), rec[name]))
            prf(S.graph(R, E, S.note_pred(R, E, use_pitch=False, use_offset=False)),
                ["Onset_Precision", "Onset_Recall", "Onset_F-measure"])
            prf(S.graph(R, E, S.note_pred(R, E, use_onset=False, use_pitch=False)),
                ["Offset_Precision", "Offset_Recall", "Offset_F-measure"])
            if set(rec) != set(S.EVALUATE_KEYS):
                bad.append(("key set", sorted(S.EVALUATE_KEYS), sorted(rec)))
            near = fm.near
        report["pairs"] += 1
        if near:
            report["near_threshold_pairs"] += 1
        if bad and not near:
            raise core.HarnessError("transcription reference model does not reproduce fixture %s: %r" % (fn, bad))
        if bad:
            report["near_threshold_mismatch:%s" % fn] = bad
    TASK.fixture_report = report
    return report["pairs"]


TASK.fixture_check = fixture_check


# ---------------------------------------------------------------------------------- edge relations (C08 / C09)
# The decimal note lattice is not closed under exact shifts, so the relations use a DYADIC note lattice (k/64 s):
# onset distances 3/64 < 0.05 < 4/64, offset distances 12/64 < 0.2 < 13/64 - every distance keeps >= 0.003 s from
# every tolerance, and x + d is exact for dyadic d.
def dyadic_notes(phase, vels=None, cs=(0, 51)):
    f0 = f0_of(phase)
    b = Fr(phase, 4)
    out = []
    for on in (0, 3, 4):
        for d in (16, 64):
            for c in cs:
                n = (float(b + Fr(on, 64)), float(b + Fr(on + d, 64)), cents(f0, c))
                if vels is None:
                    out.append(n)
                else:
                    out.extend(n + (v,) for v in vels)
    return out


def edge_space(tier, phase):
    from mc import lib
    sides = list(lib.multisets(dyadic_notes(phase), 2))
    out = [(a, b) for a in sides for b in sides]
    # pitch pairs just INSIDE the tolerance as well (49 cents): plain notes on one side, 49-cent notes on the other
    s0 = list(lib.multisets(dyadic_notes(phase, cs=(0,)), 2))
    s49 = list(lib.multisets(dyadic_notes(phase, cs=(49,)), 2))
    seen = set(out)
    for a in s0:
        for b in s49:
            for st in ((a, b), (b, a)):
                if st not in seen:
                    seen.add(st)
                    out.append(st)
    return out


def _map_notes(state, f, which=(0, 1)):
    return tuple(tuple(f(n) for n in side) if i in which else side for i, side in enumerate(state))


def _shift_edges(state):
    return [("+%g" % d, _map_notes(state, lambda n, d=d: (float(Fr(n[0]) + Fr(d)), float(Fr(n[1]) + Fr(d))) + tuple(n[2:])))
            for d in (1 / 64.0, 1.0, 1000.0)]


def _perm_edges(state):
    ref, est = state
    out = [("reverse-both", (tuple(reversed(ref)), tuple(reversed(est))))]
    if len(ref) > 1:
        out.append(("reverse-ref", (tuple(reversed(ref)), est)))
    if len(est) > 1:
        out.append(("reverse-est", (ref, tuple(reversed(est)))))
    return out


def _scale_edges(state):
    return [(nm, _map_notes(state, lambda n, k=k: (n[0], n[1], n[2] * k) + tuple(n[3:])))
            for nm, k in (("x2", 2.0), ("x0.5", 0.5), ("x2^(7/12)", 2.0 ** (7 / 12.0)), ("x1.5", 1.5),
                          ("x0.125", 0.125))]        # three octaves down: every pitch below 128 Hz (bass register)


PRF_KEYS = ["Precision", "Recall", "F-measure"]
TASK.edge_space = edge_space
TASK.edges = {
    "shift": {"apply": _shift_edges, "funcs": None, "keys": None, "cfgs": "all"},
    # which maximum matching is returned may depend on the input order, so only P/R/F (which depend on its size) are
    # claimed under note permutations - exactly what the property states
    "permute": {"apply": _perm_edges, "funcs": None, "keys": PRF_KEYS, "cfgs": "all"},
    "pitchscale": {"apply": _scale_edges, "funcs": None, "keys": None},
}
