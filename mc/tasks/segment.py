"""Task adapter: mir_eval.segment (see mc/tasks/base.py for the interface).

A state is (reference side, estimate side); a side is (intervals, labels) = (((start, end), ...), (label, ...)) of
plain floats / strs, or the empty tuple () for an annotation without intervals.  Times are multiples of 1/8 s (S: 0.5 s
cells; D: cells of 0.5 / 1.0 / 1.5 s by phase), so every distance, frame time and window comparison is exact.

Functions
  segment.detection / segment.deviation     boundary metrics: any valid intervals (any span, gaps, late start, empty)
  segment.pairwise / rand_index / ari / mutual_information / nce / vmeasure
      frame-clustering metrics, called through a thin wrapper whose frame_size default is 0.5 (the library default
      0.1 is not dyadic: the library samples on a binary32 grid, see props/C16.py for that lattice); they are
      `defined` only on states the docstrings admit: each side empty or a gap-free segmentation starting at 0, both
      ending together, at least one frame.  Reference model = mc.spec.segment_labels (the C16 model); `Undefined`
      where a textbook formula is 0/0 and for empty sides (no documented value).

Pair space  S: every pair of sides with 0..3 cells (any span combination, incl. the empty side; <= one name per
               cell) + every pair of 4-cell sides (labels: restricted growth over <= 4 names);
               thorough: + every pair of 5-cell sides over <= 2 names;
               phases 1..7: + the small pairs shifted in time (reference by phase/4 s, estimate by phase/4 (+1/8) s;
               boundary metrics only)
            D: regular 6-cell references x single edits of the estimate {move a boundary by +-1/2, +-1 cell, merge,
               split, relabel, shorten / lengthen the tail, start late, leave a gap, hairline gap 2^-20 s (collapses
               under the 5-decimal rounding of boundaries), drop everything}
"""
import glob
import json
import os
from fractions import Fraction as Fr

import numpy as np

import mir_eval.segment as M
from mc import core, lib
from mc.spec import segment_bounds as SB
from mc.spec import segment_labels as SL
from mc.tasks.base import Func, Task, Undefined

EMPTY = ()
PRF = ("Precision", "Recall", "F-measure")
DEV = ("Ref-to-est deviation", "Est-to-ref deviation")

CELLS = [0.5, 1.0, 0.5, 1.5, 0.5, 1.0, 0.5, 1.5]
NAMES = [
    ("a", "b", "c", "d", "e"), ("verse", "chorus", "bridge", "intro", "outro"), ("1", "2", "10", "3", "0"),
    ("c", "b", "a", "e", "d"), ("A", "B", "C", "D", "E"), ("verse (solo)", "verse", "verse 2", "n", "x"),
    ("s2", "s0", "s1", "s4", "s3"), ("x", "Y", "z", "W", "v"),
]


# ---------------------------------------------------------------------------------- state <-> arguments
def _iv(side):
    return side[0] if side else ()


def _lab(side):
    return side[1] if side else ()


def _arr(side):
    return np.array([[s, e] for (s, e) in _iv(side)], dtype=float).reshape(-1, 2)


def build_b(state):
    return (_arr(state[0]), _arr(state[1]))


def build_l(state):
    return (_arr(state[0]), list(_lab(state[0])), _arr(state[1]), list(_lab(state[1])))


def _fiv(side):
    return [(Fr(s), Fr(e)) for (s, e) in _iv(side)]


def model_b(state):
    return (_fiv(state[0]), _fiv(state[1]))


def model_l(state):
    return (_fiv(state[0]), list(_lab(state[0])), _fiv(state[1]), list(_lab(state[1])))


# ---------------------------------------------------------------------------------- admissibility (labelling)
def _segmentation(ivs):
    """gap-free, ordered, starting at 0"""
    return bool(ivs) and ivs[0][0] == 0 and all(ivs[i][1] == ivs[i + 1][0] for i in range(len(ivs) - 1)) \
        and all(e > s for (s, e) in ivs)


def labelling_defined(state, cfg):
    fs = Fr(cfg.get("frame_size", 0.5))
    sides = [_fiv(s) for s in state]
    for ivs in sides:
        if ivs and (not _segmentation(ivs) or ivs[-1][1] < fs):
            return False
    if sides[0] and sides[1] and sides[0][-1][1] != sides[1][-1][1]:
        return False
    return True


def _table(ri, rl, ei, el, frame_size):
    if not ri or not ei:
        raise Undefined("empty side: no documented value")
    if not (_segmentation(ri) and _segmentation(ei) and ri[-1][1] == ei[-1][1]) or ri[-1][1] < Fr(frame_size):
        raise Undefined("not a pair of segmentations of one span")
    yr = SL.frame_labels(ri, rl, frame_size)
    ye = SL.frame_labels(ei, el, frame_size)
    return SL.contingency(yr, ye)


def _vals(*xs):
    for x in xs:
        if x == SL.UNDEF:
            raise Undefined("textbook formula is 0/0")
    return xs if len(xs) > 1 else xs[0]


def spec_pairwise(ri, rl, ei, el, frame_size=0.5, beta=1.0):
    return _vals(*SL.pairwise(_table(ri, rl, ei, el, frame_size), beta))


def spec_rand(ri, rl, ei, el, frame_size=0.5, beta=1.0):
    return _vals(SL.rand_index(_table(ri, rl, ei, el, frame_size)))


def spec_ari(ri, rl, ei, el, frame_size=0.5):
    return _vals(SL.ari(_table(ri, rl, ei, el, frame_size)))


def spec_mi(ri, rl, ei, el, frame_size=0.5):
    return _vals(*SL.mutual_information(_table(ri, rl, ei, el, frame_size)))


def spec_nce(ri, rl, ei, el, frame_size=0.5, beta=1.0, marginal=False):
    return _vals(*SL.nce(_table(ri, rl, ei, el, frame_size), beta, marginal))


def spec_v(ri, rl, ei, el, frame_size=0.5, beta=1.0):
    return _vals(*SL.vmeasure(_table(ri, rl, ei, el, frame_size), beta))


def _wrap(fn):
    def call(ri, rl, ei, el, frame_size=0.5, **kw):
        return fn(ri, rl, ei, el, frame_size=frame_size, **kw)
    call.__name__ = fn.__name__
    return call


# ---------------------------------------------------------------------------------- spaces
def anns(ncells, kmax, names, cell):
    out = []
    for comp in lib.compositions(ncells):
        cuts = [0]
        for c in comp:
            cuts.append(cuts[-1] + c)
        t = [float(Fr(k) * Fr(cell)) for k in cuts]
        ivs = tuple((t[i], t[i + 1]) for i in range(len(comp)))
        for rg in lib.restricted_growth(len(comp), kmax):
            out.append((ivs, tuple(names[v] for v in rg)))
    return out


def _mk(bounds, labels):
    return (tuple((float(bounds[i]), float(bounds[i + 1])) for i in range(len(labels))), tuple(labels))


def edits(side, cell, names):
    """single edits of a gap-free segmentation (results are valid interval lists, not necessarily segmentations)"""
    ivs, labs = side
    b = [Fr(ivs[0][0])] + [Fr(e) for (s, e) in ivs]
    labs = list(labs)
    c = Fr(cell)
    out = []
    n = len(labs)
    for i in range(1, n):                                   # move an interior boundary
        for d in (-c, -c / 2, c / 2, c):
            nb = b[i] + d
            if b[i - 1] < nb < b[i + 1]:
                out.append(_mk(b[:i] + [nb] + b[i + 1:], labs))
    for i in range(n - 1):                                  # merge i, i+1
        out.append(_mk(b[:i + 1] + b[i + 2:], labs[:i + 1] + labs[i + 2:]))
    fresh = [x for x in names if x not in labs][0]
    for i in range(n):                                      # split segment i in the middle
        mid = (b[i] + b[i + 1]) / 2
        out.append(_mk(b[:i + 1] + [mid] + b[i + 1:], labs[:i + 1] + [labs[i]] + labs[i + 1:]))
        out.append(_mk(b[:i + 1] + [mid] + b[i + 1:], labs[:i + 1] + [fresh] + labs[i + 1:]))
    for i in range(n):                                      # relabel
        for new in sorted(set(labs + [fresh])):
            if new != labs[i]:
                out.append(_mk(b, labs[:i] + [new] + labs[i + 1:]))
    out.append(_mk(b[:-1] + [b[-1] - c / 2], labs))         # shorten the tail
    out.append(_mk(b[:-1] + [b[-1] + c], labs))             # lengthen the tail
    out.append(_mk(b + [b[-1] + c], labs + [fresh]))        # append a segment
    out.append(_mk([b[0] + c / 2] + b[1:], labs))           # start late
    if n >= 3:                                              # leave a gap (drop an interior segment)
        iv2 = [(float(b[i]), float(b[i + 1])) for i in range(n) if i != 1]
        out.append((tuple(iv2), tuple(labs[:1] + labs[2:])))
    if n >= 2:                                              # hairline gap: 2^-20 s < 1e-5
        h = Fr(1, 2 ** 20)
        iv2 = [(float(b[i] + (h if i == 1 else 0)), float(b[i + 1])) for i in range(n)]
        out.append((tuple(iv2), tuple(labs)))
    out.append(EMPTY)
    return out


def regular_refs(cell, names):
    refs = []
    for comp, rg in (((2, 2, 2), (0, 1, 0)), ((2, 2, 2), (0, 1, 2)), ((1, 2, 3), (0, 1, 2)), ((3, 3), (0, 1)),
                     ((1, 1, 2, 2), (0, 1, 0, 1)), ((6,), (0,))):
        cuts = [0]
        for k in comp:
            cuts.append(cuts[-1] + k)
        refs.append(_mk([Fr(k) * Fr(cell) for k in cuts], [names[v] for v in rg]))
    return refs


def _shifted(side, d):
    if not side:
        return side
    return (tuple((float(Fr(s) + d), float(Fr(e) + d)) for (s, e) in side[0]), side[1])


def pair_space(tier, phase):
    # S uses the 0.5 s cell in every phase (one frame per cell at frame_size 0.5: all-singleton partitions and
    # one-frame annotations exist in every phase); the phase varies the label names, the cell of D and adds
    # time-shifted copies of the small pairs (boundary metrics only: they do not start at 0)
    cell, names = CELLS[phase], NAMES[phase]
    small = [EMPTY] + [s for n in (1, 2, 3) for s in anns(n, n, names, 0.5)]
    states = [(a, b) for a in small for b in small]
    four = anns(4, 4, names, 0.5)
    states += [(a, b) for a in four for b in four]
    if tier == "thorough":
        five = anns(5, 2, names, 0.5)
        states += [(a, b) for a in five for b in five]
    # labels that differ only in letter case inside ONE annotation (they must fall into one cluster on either side:
    # a case rule applied to the reference only breaks the over/under exchange)
    case_names = (("a", "A", "b"), ("Verse", "verse", "chorus"), ("x", "X", "y"), ("Solo", "solo", "Intro"))[phase % 4]
    plain = tuple(n.lower() + "_" for n in case_names)
    cs = anns(3, 3, case_names, 0.5)
    pl = anns(3, 3, plain, 0.5)
    states += [(a, b) for a in cs for b in pl] + [(a, b) for a in pl for b in cs]
    if phase:
        dr, de = Fr(phase, 4), Fr(phase, 4) + Fr(phase % 2, 8)
        states += [(_shifted(a, dr), _shifted(b, de)) for a in small for b in small if a or b]
    seen = set(states)
    for ref in regular_refs(cell, names):
        for est in [ref] + edits(ref, cell, names):
            for st in ((ref, est), (est, ref)):
                if st not in seen:
                    seen.add(st)
                    states.append(st)
    return states


def edge_space(tier, phase):
    """relabel edges only make sense where the labelling functions are defined: equal-span pairs, 2..3 cells
    + the 4-cell pairs over <= 2 names (thorough: <= 4 names)"""
    cell, names = CELLS[phase], NAMES[phase]
    out = []
    for n in (2, 3, 4):
        a = anns(n, min(n, 4) if (n < 4 or tier == "thorough") else 2, names, 0.5)
        out += [(x, y) for x in a for y in a]
    for ref in regular_refs(cell, names)[:3]:
        out += [(ref, e) for e in edits(ref, cell, names) if labelling_defined((ref, e), {}) and e]
    return out


def single_space(tier, phase):
    cell, names = CELLS[phase], NAMES[phase]
    out = [EMPTY]
    for n in range(1, 6):
        out += anns(n, min(n, 4), names, 0.5)
    if tier == "thorough":
        out += anns(6, 3, names, 0.5)
    out += [r for r in regular_refs(cell, names) if r not in out]
    return out


# ---------------------------------------------------------------------------------- C01 / C02 tables
def dev_nan_ok(state, cfg, key):
    trim = cfg.get("trim", False)
    return SB.n_boundaries(_fiv(state[0]), trim) == 0 or SB.n_boundaries(_fiv(state[1]), trim) == 0


def opt_detection(x, cfg):
    ok = SB.n_boundaries(_fiv(x), cfg.get("trim", False)) >= 1
    return {k: (1.0 if ok else None) for k in PRF}


def opt_deviation(x, cfg):
    ok = SB.n_boundaries(_fiv(x), cfg.get("trim", False)) >= 1
    return {k: (0.0 if ok else None) for k in DEV}


def _self_table(x, cfg):
    """contingency table of x against itself, or None when the labelling functions have no documented value"""
    if not x or not labelling_defined((x, x), cfg):
        return None
    ivs = _fiv(x)
    y = SL.frame_labels(ivs, list(_lab(x)), cfg.get("frame_size", 0.5))
    return SL.contingency(y, y)


def _opt(keys, fn):
    def optimum(x, cfg):
        tab = _self_table(x, cfg)
        if tab is None:
            return {k: None for k in keys}
        vals = fn(tab, cfg)
        return {k: (None if v == SL.UNDEF else float(v)) for k, v in zip(keys, vals)}
    return optimum


def _opt_pairwise(tab, cfg):
    # x against x: every co-clustered pair agrees -> 1/1/1; 0/0 when no two frames share a cluster
    both, in_ref, in_est, total = SL.pair_counts(tab)
    return (1.0, 1.0, 1.0) if in_ref > 0 else (SL.UNDEF,) * 3


def _opt_rand(tab, cfg):
    return (1.0 if SL.pair_counts(tab)[3] > 0 else SL.UNDEF,)


def _opt_ari(tab, cfg):
    return (1.0,)


def _opt_mi(tab, cfg):
    a, b, n = SL.margins(tab)
    h = SL.entropies(tab)[0]                       # I(x; x) = H(x)
    ami = SL.UNDEF if (len(a) == n and n > 1) else 1.0
    return (h, ami, 1.0)


def _opt_nce(tab, cfg):
    # documented: a one-label annotation has over = under = 0 (and then F = 0); otherwise H(x|x) = 0 -> 1
    v = 1.0 if len(tab) >= 2 else 0.0
    return (v, v, v)


# ---------------------------------------------------------------------------------- C06 tables
def _swap_prf(p, r, f):
    def swap(cfg):
        m = {p: r, r: p}
        if cfg.get("beta", 1.0) == 1.0:
            m[f] = f
        return m
    return swap


# ---------------------------------------------------------------------------------- functions
WINDOWS = [0.5, 3.0, 0.25, 1.0]
BETAS = [1.0, 0.5, 2.0]
FRAMES = [0.5, 0.25]
L_KINDS_PRF = "P01"

F_DET = Func("segment.detection", M.detection, PRF, {"window": WINDOWS, "beta": BETAS, "trim": [False, True]},
             build_b, model_b, SB.detection, {k: "P01" for k in PRF}, optimum=opt_detection,
             swap=_swap_prf(*PRF),
             mono=[("window", [0.125, 0.25, 0.375, 0.5, 0.75, 1.0, 1.5, 2.0, 3.0, 4.5, 100.0])], mono_keys=list(PRF))
F_DEV = Func("segment.deviation", M.deviation, DEV, {"trim": [False, True]}, build_b, model_b, SB.deviation,
             {k: "GE0" for k in DEV}, optimum=opt_deviation, swap={DEV[0]: DEV[1], DEV[1]: DEV[0]},
             nan_ok=dev_nan_ok)

PW = ("Pairwise Precision", "Pairwise Recall", "Pairwise F-measure")
MI = ("Mutual Information", "Adjusted Mutual Information", "Normalized Mutual Information")
NCE = ("NCE Over", "NCE Under", "NCE F-measure")
VM = ("V Precision", "V Recall", "V-measure")

F_PW = Func("segment.pairwise", _wrap(M.pairwise), PW, {"frame_size": FRAMES, "beta": BETAS}, build_l, model_l,
            spec_pairwise, {k: "P01" for k in PW}, optimum=_opt(PW, _opt_pairwise), swap=_swap_prf(*PW))
F_RAND = Func("segment.rand_index", _wrap(M.rand_index), ["Rand Index"], {"frame_size": FRAMES}, build_l, model_l,
              spec_rand, {"Rand Index": "P01"}, optimum=_opt(["Rand Index"], _opt_rand),
              swap={"Rand Index": "Rand Index"})
F_ARI = Func("segment.ari", _wrap(M.ari), ["Adjusted Rand Index"], {"frame_size": FRAMES}, build_l, model_l,
             spec_ari, {"Adjusted Rand Index": "LE1"}, optimum=_opt(["Adjusted Rand Index"], _opt_ari),
             swap={"Adjusted Rand Index": "Adjusted Rand Index"})
F_MI = Func("segment.mutual_information", _wrap(M.mutual_information), MI, {"frame_size": FRAMES}, build_l, model_l,
            spec_mi, {MI[0]: "GE0", MI[1]: "LE1", MI[2]: "P01"}, optimum=_opt(MI, _opt_mi),
            swap={k: k for k in MI})
F_NCE = Func("segment.nce", _wrap(M.nce), NCE, {"frame_size": FRAMES, "beta": BETAS, "marginal": [False, True]},
             build_l, model_l, spec_nce, {k: "P01" for k in NCE}, optimum=_opt(NCE, _opt_nce),
             swap=_swap_prf(*NCE))
F_V = Func("segment.vmeasure", _wrap(M.vmeasure), VM, {"frame_size": FRAMES, "beta": BETAS}, build_l, model_l,
           spec_v, {k: "P01" for k in VM}, optimum=_opt(VM, _opt_nce), swap=_swap_prf(*VM))

L_FUNCS = [F_PW, F_RAND, F_ARI, F_MI, F_NCE, F_V]
for _f in L_FUNCS:
    _f.defined = labelling_defined

FUNCS = [F_DET, F_DEV] + L_FUNCS


# ---------------------------------------------------------------------------------- fixtures
B_KEYS = {"Precision@0.5": ("d", 0.5, 0), "Recall@0.5": ("d", 0.5, 1), "F-measure@0.5": ("d", 0.5, 2),
          "Precision@3.0": ("d", 3.0, 0), "Recall@3.0": ("d", 3.0, 1), "F-measure@3.0": ("d", 3.0, 2),
          "Ref-to-est deviation": ("v", None, 0), "Est-to-ref deviation": ("v", None, 1)}


def fixture_check(tier):
    """Models (not the library) vs tests/data/segment/output*.json (tests/test_segment.py: segment.evaluate with
    defaults: detection at windows 0.5 and 3.0, deviation, labelling metrics at frame_size 0.1, beta 1, after the
    documented span adjustment).  The labelling frames are taken on the library's binary32 sample grid (3 of the
    10 fixtures have a boundary on a multiple of 0.1 and depend on it)."""
    root = os.path.join(os.environ.get("VERIF_REPO", "/repo"), "tests", "data", "segment")
    refs = sorted(glob.glob(os.path.join(root, "ref*.lab")))
    ests = sorted(glob.glob(os.path.join(root, "est*.lab")))
    outs = sorted(glob.glob(os.path.join(root, "output*.json")))
    if not (len(refs) == len(ests) == len(outs) > 0):
        raise core.HarnessError("segment fixtures not found under %s" % root)
    n = near = 0
    for rf, ef, of in zip(refs, ests, outs):
        with open(of) as f:
            want = json.load(f)
        ref, est = SL.read_lab(rf), SL.read_lab(ef)
        ri, rl, ei, el = SB.evaluate_inputs(ref, est)
        got = {}
        dev = SB.deviation(ri, ei)
        for k, (what, w, idx) in B_KEYS.items():
            if what == "d":
                try:
                    got[k] = SB.detection(ri, ei, window=w, exact=False)[idx]
                except Undefined:
                    near += 1
            else:
                got[k] = dev[idx]
        yr, ye = SL.evaluate_frames(ref, est, 0.1, SL.float32_grid)
        lab = SL.all_scores(SL.contingency(yr, ye), 1.0)
        for k, v in lab.items():
            if v == SL.UNDEF:
                raise core.HarnessError("segment fixture %s: model undefined on %r" % (of, k))
            got[k] = v
        if sorted(set(want) - set(got)) and not near:
            raise core.HarnessError("segment fixture %s: keys not modelled: %r" % (of, sorted(set(want) - set(got))))
        for k, v in got.items():
            if abs(float(v) - float(want[k])) > 1e-7:
                raise core.HarnessError("segment model does not reproduce fixture %s: %s model=%r recorded=%r"
                                        % (os.path.basename(of), k, float(v), want[k]))
        n += 1
    fixture_check.near_threshold_keys = near
    return n


TASK = Task("segment", FUNCS, pair_space, single_space)
TASK.fixture_check = fixture_check
TASK.edge_space = edge_space


# ---------------------------------------------------------------------------------- C08: relabel edges
def _renamings(labels):
    """bijections of the label names of one annotation onto fresh names"""
    names = sorted(set(labels))
    k = len(names)
    rev = {nm: "s%02d" % (k - i) for i, nm in enumerate(names)}                   # reverses the sort order
    case = {nm: (nm.upper() if nm.upper() != nm else nm.lower()) + "_" for nm in names}     # case change
    exotic = ["ß", "Ärger", "é", "Ω", "ñañ", "日本", "Ж", "ź"]
    nonascii = {nm: exotic[(i * 3) % len(exotic)] + ("" if i < len(exotic) else str(i)) for i, nm in enumerate(names)}
    # mixed-case names whose ASCII order differs from their case-insensitive order
    m1 = ["B", "a", "c", "Zebra", "d", "Echo", "f", "G2"]
    m2 = ["Silence", "intro", "verse", "Alpha", "beta", "Coda", "d", "e"]
    mixed1 = {nm: m1[i % len(m1)] + ("" if i < len(m1) else str(i)) for i, nm in enumerate(names)}
    mixed2 = {nm: m2[i % len(m2)] + ("" if i < len(m2) else str(i)) for i, nm in enumerate(names)}
    return [("reverse-order", rev), ("case", case), ("non-ascii", nonascii), ("mixed-case", mixed1),
            ("mixed-case-2", mixed2)]


def _rename(side, mapping):
    return (side[0], tuple(mapping[x] for x in side[1]))


def _relabel(state):
    ref, est = state
    if not ref or not est:
        return []
    rr, er = _renamings(ref[1]), _renamings(est[1])
    out = []
    for nm, m in rr:
        out.append(("ref:" + nm, (_rename(ref, m), est)))
    for nm, m in er:
        out.append(("est:" + nm, (ref, _rename(est, m))))
    out.append(("both:reverse-order/non-ascii", (_rename(ref, rr[0][1]), _rename(est, er[2][1]))))
    out.append(("both:non-ascii/case", (_rename(ref, rr[2][1]), _rename(est, er[1][1]))))
    return out


TASK.edges = {"relabel": {"apply": _relabel, "funcs": [f.name for f in L_FUNCS], "keys": None, "cfgs": "all"}}
