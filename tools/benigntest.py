#!/venv/bin/python
"""False-alarm experiment: run checks against property-PRESERVING changes of mir_eval.

usage: benigntest.py <dir with k.diff / k.json> <group name> [--checks C01,C02,...] [--seed N] [--tier quick]

All patches of the directory that apply cleanly on top of each other are stacked into ONE scratch worktree of /repo
HEAD (under /tmp, removed afterwards); the pinned 66-test baseline must pass on the stack; then every listed check
(default: all claimed ones) is run with VERIF_REPO=<worktree>.  Any exit code other than 0 is a FALSE ALARM of the
machinery (or the change is not benign after all - decided by reading the reported case).  For each alarming check
the patches are then applied one at a time to attribute the alarm.  Results: /verif/benign/<group>/result.json and
the patches themselves (k.diff, k.json) copied next to it.
"""
import json
import os
import shutil
import subprocess
import sys

HERE = os.path.dirname(os.path.dirname(os.path.abspath(__file__)))


def sh(cmd, **kw):
    return subprocess.run(cmd, capture_output=True, text=True, **kw)


def worktree(path):
    sh(["git", "-C", "/repo", "worktree", "remove", "--force", path])
    shutil.rmtree(path, ignore_errors=True)
    r = sh(["git", "-C", "/repo", "worktree", "add", "--detach", path, "HEAD"])
    if r.returncode:
        raise SystemExit(r.stderr)


def drop(path):
    sh(["git", "-C", "/repo", "worktree", "remove", "--force", path])
    sh(["git", "-C", "/repo", "worktree", "prune"])
    shutil.rmtree(path, ignore_errors=True)


def run_checks(wt, checks, seed, tier):
    out = {}
    env = dict(os.environ, VERIF_REPO=wt, VERIF_SEED=str(seed))
    for c in checks:
        r = sh([os.path.join(HERE, "check"), c, "--tier", tier], env=env)
        detail = [l.strip() for l in r.stderr.splitlines() if l.strip().startswith("violation ")]
        out[c] = {"exit": r.returncode, "first": detail[0][:500] if detail else (r.stderr[-500:] if r.returncode else "")}
        print("   %s seed=%s exit=%d %s" % (c, seed, r.returncode, out[c]["first"][:200]), flush=True)
    return out


def main():
    a = sys.argv[1:]
    opts = {"--checks": "", "--seed": "0", "--tier": "quick"}
    for k in list(opts):
        if k in a:
            i = a.index(k)
            opts[k] = a[i + 1]
            del a[i:i + 2]
    src, group = a[0], a[1]
    man = json.load(open(os.path.join(HERE, "MANIFEST.json")))
    checks = [c for c in opts["--checks"].split(",") if c] or [p["property_id"] for p in man["checks"]]
    patches = sorted([f for f in os.listdir(src) if f.endswith(".diff")], key=lambda s: (len(s), s))
    dst = os.path.join(HERE, "benign", group)
    os.makedirs(dst, exist_ok=True)
    for f in os.listdir(src):
        if f.endswith(".diff") or f.endswith(".json"):
            if os.path.abspath(src) != os.path.abspath(dst):
                shutil.copy(os.path.join(src, f), os.path.join(dst, f))
    wt = "/tmp/benignwt_%s" % group
    worktree(wt)
    res = {"repo_head": sh(["git", "-C", "/repo", "rev-parse", "--short", "HEAD"]).stdout.strip(),
           "seed": int(opts["--seed"]), "tier": opts["--tier"], "stacked": [], "not_stacked": [], "checks": {}, "attribution": {}}
    try:
        for p in patches:
            r = sh(["git", "-C", wt, "apply", os.path.join(dst, p)])
            (res["stacked"] if r.returncode == 0 else res["not_stacked"]).append(p)
        rb = sh([os.path.join(HERE, "tools", "baseline.py"), wt])
        res["baseline"] = rb.stdout.strip().splitlines()[0] if rb.stdout.strip() else rb.stderr[-300:]
        print("stack of %d patches (%s not stackable): %s" % (len(res["stacked"]), res["not_stacked"], res["baseline"]), flush=True)
        if rb.returncode:
            print(rb.stdout[-1500:])
        res["checks"] = run_checks(wt, checks, opts["--seed"], opts["--tier"])
        alarming = [c for c in checks if res["checks"][c]["exit"] != 0]
        singles = res["not_stacked"] + (res["stacked"] if alarming else [])
        for p in singles:
            sh(["git", "-C", wt, "checkout", "--", "."])
            r = sh(["git", "-C", wt, "apply", os.path.join(dst, p)])
            if r.returncode:
                res["attribution"][p] = {"applies": False}
                print("  %s does not apply: %s" % (p, r.stderr[-200:]))
                continue
            cs = alarming if p in res["stacked"] else checks
            print("  single patch %s" % p, flush=True)
            rb = sh([os.path.join(HERE, "tools", "baseline.py"), wt])
            res["attribution"][p] = {"baseline_ok": rb.returncode == 0, "checks": run_checks(wt, cs, opts["--seed"], opts["--tier"])}
    finally:
        drop(wt)
    key = "result_seed%s_%s.json" % (opts["--seed"], opts["--tier"])
    json.dump(res, open(os.path.join(dst, key), "w"), indent=1)
    bad = [c for c in res["checks"] if res["checks"][c]["exit"] != 0]
    print("ALARMS on stack:", ",".join(bad) or "none")
    return 0


if __name__ == "__main__":
    sys.exit(main())
