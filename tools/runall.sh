#!/bin/bash
# run every claimed check once (quick unless $2 given) with VERIF_SEED=$1; one summary line per check
cd "$(dirname "$0")/.." || exit 2
seed=${1:-0}; tier=${2:-quick}
for c in $(/venv/bin/python -c "import json;print(' '.join(x['property_id'] for x in json.load(open('MANIFEST.json'))['checks']))"); do
  s=$(date +%s)
  out=$(VERIF_SEED=$seed ./check $c --tier $tier 2>&1); rc=$?
  e=$(( $(date +%s) - s ))
  echo "$c seed=$seed tier=$tier exit=$rc ${e}s $(echo "$out" | grep -c '^VIOLATION') violation-lines $(echo "$out" | grep -c '^KNOWN-FINDING') known; $(echo "$out" | grep -E 'HARNESS' | head -1 | cut -c1-160)"
done
