#!/venv/bin/python
"""Print a markdown table of what each check covered in its last run (from evidence/*.json) - pasted into DESIGN.md §14."""
import json, glob, os
rows = []
for f in sorted(glob.glob("/verif/evidence/C*.json")):
    e = json.load(open(f))
    c = e["coverage"]
    rows.append("| %s | %s | %s | %s | %s | %s | %s | %.0f s |" % (
        e["property_id"], e["tier"], e["level"], "{:,}".format(c.get("states", 0)), "{:,}".format(c.get("transitions", 0)),
        "{:,}".format(c.get("traces_validated_against_impl", 0)), "yes" if c.get("exhaustive") else "no (caps: %s)" % "; ".join(c.get("caps_hit", []))[:60],
        e["wall_s"]))
print("| id | tier | level | states | executions of real code | model-vs-impl comparisons | exhaustive within bounds | wall |")
print("|---|---|---|---|---|---|---|---|")
print("\n".join(rows))
