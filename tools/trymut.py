#!/venv/bin/python
"""Apply one textual mutation to a scratch worktree of /repo and run checks against it.

usage: trymut.py <relpath> <old> <new> <check-id>[,<check-id>...] [--baseline] [--tier quick]
   or: trymut.py --patch <file.diff> <check-ids> [--baseline]
The worktree lives under /tmp and is removed afterwards.  Nothing touches /repo's working tree."""
import os
import subprocess
import sys
import tempfile


def sh(cmd, **kw):
    return subprocess.run(cmd, capture_output=True, text=True, **kw)


def main():
    a = sys.argv[1:]
    baseline = "--baseline" in a
    tier = "quick"
    if "--tier" in a:
        i = a.index("--tier")
        tier = a[i + 1]
        del a[i:i + 2]
    a = [x for x in a if x != "--baseline"]
    wt = tempfile.mkdtemp(prefix="mut_", dir="/tmp")
    os.rmdir(wt)
    r = sh(["git", "-C", "/repo", "worktree", "add", "--detach", wt, "HEAD"])
    if r.returncode:
        print(r.stderr)
        return 2
    try:
        if a[0] == "--patch":
            r = sh(["git", "-C", wt, "apply", os.path.abspath(a[1])])
            if r.returncode:
                print("patch does not apply:", r.stderr)
                return 2
            checks = a[2].split(",")
        else:
            rel, old, new, checks = a[0], a[1], a[2], a[3].split(",")
            p = os.path.join(wt, rel)
            s = open(p).read()
            if s.count(old) != 1:
                print("pattern occurs %d times (need exactly 1)" % s.count(old))
                return 2
            open(p, "w").write(s.replace(old, new))
        if baseline:
            r = sh(["/verif/tools/baseline.py", wt])
            print("baseline:", r.stdout.strip().splitlines()[0] if r.stdout.strip() else r.stderr[-300:])
        env = dict(os.environ, VERIF_REPO=wt)
        caught = []
        for c in checks:
            r = sh(["/verif/check", c, "--tier", tier], env=env)
            viol = [l for l in r.stdout.splitlines() if l.startswith("VIOLATION")]
            detail = [l for l in r.stderr.splitlines() if l.strip().startswith("violation ")]
            print("%s: exit=%d violations=%d %s" % (c, r.returncode, len(viol), (detail[0][:260] if detail else "")))
            if r.returncode == 2:
                print(r.stderr[-1500:])
            if r.returncode == 1:
                caught.append(c)
        print("CAUGHT by:", ",".join(caught) if caught else "NONE")
    finally:
        sh(["git", "-C", "/repo", "worktree", "remove", "--force", wt])
        sh(["git", "-C", "/repo", "worktree", "prune"])
    return 0


if __name__ == "__main__":
    sys.exit(main())
