#!/venv/bin/python
"""Confirm one seeded defect and run checks against it.

usage: seedtest.py <seed_dir with patch.diff, demo.py, meta.json> <name for /verif/seeded/<name>> <check-ids,comma> [--tier quick] [--keep]
Steps (all in a fresh scratch worktree of /repo HEAD under /tmp, removed afterwards):
  1. demo.py on the unchanged tree must PASS (exit 0)
  2. git apply patch.diff; demo.py must FAIL (exit != 0)
  3. the pinned 66-test baseline must still pass with the patch
  4. run the listed checks with VERIF_REPO=<worktree>; report which raise VIOLATION
  5. with --keep (default when 1-3 hold) copy patch.diff, demo.py, meta.json (+ our results) to /verif/seeded/<name>/
"""
import json
import os
import shutil
import subprocess
import sys
import tempfile


def sh(cmd, **kw):
    return subprocess.run(cmd, capture_output=True, text=True, **kw)


def main():
    a = sys.argv[1:]
    tier = "quick"
    if "--tier" in a:
        i = a.index("--tier")
        tier = a[i + 1]
        del a[i:i + 2]
    seed_dir, name, checks = a[0], a[1], [c for c in a[2].split(",") if c]
    patch = os.path.abspath(os.path.join(seed_dir, "patch.diff"))
    demo = os.path.abspath(os.path.join(seed_dir, "demo.py"))
    meta = json.load(open(os.path.join(seed_dir, "meta.json")))
    wt = tempfile.mkdtemp(prefix="seedwt_", dir="/tmp")
    os.rmdir(wt)
    r = sh(["git", "-C", "/repo", "worktree", "add", "--detach", wt, "HEAD"])
    if r.returncode:
        print(r.stderr)
        return 2
    res = {"repo_head": sh(["git", "-C", "/repo", "rev-parse", "--short", "HEAD"]).stdout.strip(), "tier": tier}
    try:
        env = dict(os.environ, PYTHONPATH=wt, OMP_NUM_THREADS="1")
        r0 = sh(["/venv/bin/python", "-W", "ignore", demo], env=env, cwd=wt)
        res["demo_unchanged_exit"] = r0.returncode
        r = sh(["git", "-C", wt, "apply", "--3way", patch])
        if r.returncode:
            r = sh(["git", "-C", wt, "apply", patch])
        if r.returncode:
            print("PATCH DOES NOT APPLY to current HEAD:", r.stderr[-500:])
            res["applies"] = False
            print(json.dumps(res))
            return 3
        res["applies"] = True
        r1 = sh(["/venv/bin/python", "-W", "ignore", demo], env=env, cwd=wt)
        res["demo_patched_exit"] = r1.returncode
        rb = sh(["/verif/tools/baseline.py", wt])
        res["baseline"] = rb.stdout.strip().splitlines()[0] if rb.stdout.strip() else rb.stderr[-200:]
        res["baseline_ok"] = rb.returncode == 0
        ok = r0.returncode == 0 and r1.returncode != 0 and rb.returncode == 0
        res["confirmed"] = ok
        print("demo unchanged exit=%d, patched exit=%d, %s -> %s" % (r0.returncode, r1.returncode, res["baseline"],
                                                                    "CONFIRMED" if ok else "NOT CONFIRMED"))
        if not ok:
            print((r0.stdout + r0.stderr)[-400:])
            print((r1.stdout + r1.stderr)[-400:])
        env2 = dict(os.environ, VERIF_REPO=wt)
        res["checks"] = {}
        for c in checks:
            r = sh(["/verif/check", c, "--tier", tier], env=env2)
            viol = [l for l in r.stdout.splitlines() if l.startswith("VIOLATION")]
            detail = [l.strip() for l in r.stderr.splitlines() if l.strip().startswith("violation ")]
            res["checks"][c] = {"exit": r.returncode, "violation_lines": len(viol),
                                "first": detail[0][:400] if detail else ""}
            print("  %s: exit=%d %s" % (c, r.returncode, detail[0][:240] if detail else ""))
            if r.returncode == 2:
                print(r.stderr[-800:])
        res["caught_by"] = [c for c in checks if res["checks"][c]["exit"] == 1]
        print("CAUGHT by:", ",".join(res["caught_by"]) or "NONE")
        if ok:
            dst = os.path.join("/verif/seeded", name)
            os.makedirs(dst, exist_ok=True)
            if os.path.abspath(seed_dir) != os.path.abspath(dst):
                shutil.copy(patch, os.path.join(dst, "patch.diff"))
                shutil.copy(demo, os.path.join(dst, "demo.py"))
            prev = {}
            mp = os.path.join(dst, "meta.json")
            if os.path.exists(mp):
                prev = json.load(open(mp)).get("our_runs", {})
            prev["%s@%s" % (tier, res["repo_head"])] = res
            meta["our_runs"] = prev
            meta["caught_by_quick"] = sorted(set(meta.get("caught_by_quick", []) + (res["caught_by"] if tier == "quick" else [])))
            json.dump(meta, open(mp, "w"), indent=1)
    finally:
        sh(["git", "-C", "/repo", "worktree", "remove", "--force", wt])
        sh(["git", "-C", "/repo", "worktree", "prune"])
    return 0


if __name__ == "__main__":
    sys.exit(main())
