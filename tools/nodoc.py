#!/venv/bin/python
"""print a python source file without docstrings / blank lines (reading aid)"""
import ast, sys
def strip(path):
    src=open(path).read(); tree=ast.parse(src); lines=src.split('\n'); kill=set()
    for node in ast.walk(tree):
        if isinstance(node,(ast.FunctionDef,ast.Module,ast.ClassDef)):
            b=node.body
            if b and isinstance(b[0],ast.Expr) and isinstance(getattr(b[0],'value',None),ast.Constant) and isinstance(b[0].value.value,str):
                for i in range(b[0].lineno-1,b[0].end_lineno): kill.add(i)
    print('\n'.join("%4d %s"%(i+1,l) for i,l in enumerate(lines) if i not in kill and l.strip()))
strip(sys.argv[1])
