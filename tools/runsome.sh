#!/bin/bash
# runsome.sh <seed> <tier> <check>... : like runall.sh for the listed checks, in the given order
cd "$(dirname "$0")/.." || exit 2
seed=$1; tier=$2; shift 2
for c in "$@"; do
  s=$(date +%s)
  out=$(VERIF_SEED=$seed ./check $c --tier $tier 2>&1); rc=$?
  e=$(( $(date +%s) - s ))
  echo "$c seed=$seed tier=$tier exit=$rc ${e}s $(echo "$out" | grep -c '^VIOLATION') violation-lines $(echo "$out" | grep -c '^KNOWN-FINDING') known; $(echo "$out" | grep -E 'HARNESS' | head -1 | cut -c1-160)"
  if [ $rc -ne 0 ]; then echo "$out" | grep -E "violation clause|note:" | head -3 | cut -c1-600; fi
done
