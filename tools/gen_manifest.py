#!/venv/bin/python
"""Regenerates /verif/MANIFEST.json from the table below (run after adding a check)."""
import json
import os
import sys

VERIF = os.path.dirname(os.path.dirname(os.path.abspath(__file__)))

MC = "model_checking"
FE = "fault_enumeration"
EX = "exploration"

# id -> (category, design_ref, text, note, technique)
CHECKS = {
    "C05": (MC, "DESIGN.md §5 C05",
            "Every bipartite graph up to 4x5 vertices (thorough 5x5) is run through the real Hopcroft-Karp "
            "routine, every event / chroma / note / multipitch-frame set pair of the stated small scope through "
            "the real matchers in every input order (incl. dense clusters of 5-6 events per side in one window and an onset distance of exactly k ms against every tolerance k = 1..150 ms); each returned pairing is checked for validity under the "
            "exact predicate and for maximality against a brute-force DP. Exhaustive within the stated bounds.",
            "Small-scope hypothesis; exact dyadic / decimal lattices; pitch differences kept >=1 cent from the "
            "tolerance; brute-force bitmask DP as the reference.",
            "bounded exhaustive explicit-state enumeration of inputs against a brute-force reference model"),
    "C13": (MC, "DESIGN.md §5 C13",
            "All time-ordered interval sequences (<=4, thorough <=5 intervals on a 8/9-point lattice) x every "
            "(t_min,t_max) on the lattice, half-lattice and beyond (plus a zero-crossing axis with t_min/t_max == 0.0), all pairs of contiguous segmentations <=7 cells, "
            "all sample grids and all boundary lists of the stated bounds are pushed through the real util "
            "functions and compared cell by cell with a step-function reference model. Exhaustive within bounds.",
            "Small-scope hypothesis; integer/half-integer times (exact); 5-decimal rounding lattice kept away "
            "from rounding ties; reading of 'internal gap' stated in the evidence assumptions.",
            "bounded exhaustive explicit-state enumeration of inputs against a step-function reference model"),
    "C01": (MC, "DESIGN.md §5 C01",
            "Every pair state of every task adapter's small-scope + deviation-bounded space x every metric function "
            "x default/single (thorough: pairwise) non-default parameters is executed and each output checked "
            "against a range table (P01/BIN/LE1/GE0/conditional) whose preconditions are evaluated exactly on the "
            "input side. Exhaustive within the stated bounds.",
            "Small-scope hypothesis; range table transcribed from the property text; conditional bounds use "
            "input-side preconditions that are counted in both branches.",
            "bounded exhaustive explicit-state enumeration of inputs x configurations with a state invariant"),
    "C02": (MC, "DESIGN.md §5 C02",
            "Every single annotation of each task's (deeper) single space is scored against an exact copy of "
            "itself under every configuration of the deviation-bounded alphabet; optimum table guarded by "
            "model-side non-degeneracy predicates. Exhaustive within bounds.",
            "Small-scope hypothesis; non-degeneracy predicates as stated in the property text.",
            "bounded exhaustive explicit-state enumeration of inputs x configurations with a state invariant"),
    "C04": (MC, "DESIGN.md §5 C04, Appendix A",
            "Every pair state x function x configuration is executed on the real code and compared to 1e-9 with an "
            "independent reference model written from the documented definitions in exact rational arithmetic; the "
            "models are first bound to the repository's recorded fixture outputs. Exhaustive within bounds.",
            "Small-scope hypothesis; exact lattices; states where the definition is undefined or within 1e-9 of a "
            "threshold are skipped and counted; reference models are the trusted base (fixture-validated).",
            "bounded exhaustive explicit-state enumeration against an independent reference model (conformance)"),
    "C06": (MC, "DESIGN.md §5 C06",
            "Edge relation swap on every unordered pair state admissible in both roles x every function with a "
            "symmetric criterion x its configuration alphabet: exchanged keys must be exchanged, symmetric keys "
            "equal. Exhaustive within bounds.",
            "Small-scope hypothesis; a relation that is itself symmetric cannot see a symmetric bug (see C04).",
            "bounded exhaustive enumeration of state pairs with an edge (two-execution) relation"),
    "C07": (MC, "DESIGN.md §5 C07",
            "For every pair state every tolerance chain (ascending values of one tolerance, others default) and "
            "every nested metric pair is evaluated: scores must be non-decreasing along each edge and ordered "
            "within each result. Exhaustive within bounds.",
            "Small-scope hypothesis; tolerance alphabets contain both sides of and exactly each lattice distance.",
            "bounded exhaustive enumeration of configuration chains with an edge (two-execution) relation"),
    "C15": (MC, "DESIGN.md §5 C15",
            "Explicit-state exploration of call histories: 186 call descriptors (all public functions, several "
            "argument shapes) with arguments taken from one shared pool; all histories of depth 1, all ordered "
            "pairs, depth 3 over the aliasing-prone subset; invariant: heap digest (pool + module globals) unchanged "
            "and each result bit-identical to the result from the initial heap; two fresh interpreters run the "
            "depth-1 layer forward and reversed; separation under two np.empty poisons.",
            "State hidden outside the digest is only observable through result changes; small fixed inputs per "
            "descriptor.",
            "explicit-state exploration of call histories with a heap-digest invariant"),
    "C03": (MC, "DESIGN.md §5 C03",
            "For each of 13 task modules a panel of input states (empty sides, singletons, span mismatches, "
            "non-trivial pairs) x every subset of size <=2 (thorough <=3) of the keyword parameters of the "
            "underlying functions plus an unrelated keyword is run through evaluate() and compared - key set, "
            "order, scalar type, bit-identical values - with a bundle table that calls the public metric and "
            "pre-processing functions directly with the documented forced parameters. A second space evaluates "
            "the same oracle from non-initial states: every bundle after one other task's evaluate() ran first "
            "(all 13x12 ordered task pairs, module state restored before each history). Exhaustive over the "
            "stated panel x keyword-subset (x predecessor) space.",
            "Panel inputs are hand-chosen (each forced parameter changes the score on at least one of them); "
            "forwarding decided by inspect.signature; separation.evaluate (lists per source) is out of scope.",
            "bounded exhaustive enumeration of configurations (keyword subsets) against a bundle reference model"),
    "C14": (FE, "DESIGN.md §5 C14",
            "Valid side: every adapter pair state x function x configuration must return, and evaluate() of "
            "segment / chord / hierarchy must return on a complete boundary-coincidence lattice (estimate "
            "starting/ending before, at, after the reference span; boundary on its start/end; outside; empty; "
            "window == frame_size). Fault side: 105 entry points x every documented single fault x every position (malformed estimated intervals also strictly outside the reference span for segment/chord evaluate; mis-shaped pattern tuples at every pattern/occurrence/note position) "
            "must raise ValueError (InvalidChordException for chord labels) and nothing else.",
            "Only faults the task validators document are demanded; base inputs are hand-chosen valid annotations; "
            "known pre-existing failures are listed in known_findings.json with witness predicates.",
            "exhaustive single-fault enumeration over entry points x fault kinds x positions, plus bounded "
            "exhaustive enumeration of valid boundary-coincidence states"),
    "C08": (MC, "DESIGN.md §5 C08",
            "Edge relations from every pair state of the adapters that define them: shift (a common, exactly "
            "representable offset on both sides), permute (reorderings of unordered collections) and relabel "
            "(label bijections per annotation); both end points are executed, at the documented defaults and at "
            "every single non-default parameter value, and all listed scores compared to 1e-12. Exhaustive "
            "within the stated bounds.",
            "Shift edges only on dyadic lattices; for beat.evaluate only where every beat stays at or after the "
            "configured trim time before and after the shift; small-scope hypothesis.",
            "bounded exhaustive enumeration of states with edge (two-execution) relations"),
    "C09": (MC, "DESIGN.md §5 C09",
            "Key: all key pairs x 12 transpositions x 2 spellings (complete). Chord: label panel (every quality "
            "shorthand x bass/degree variants) x 12 joint transpositions x 2 spellings and the enharmonic "
            "respelling alphabet on reference / estimate / both through all 12 comparison functions, plus "
            "chord.evaluate on small sequences. Pitch: scaling / octave / negation edges from the melody, "
            "multipitch and transcription adapters.",
            "Pitch classes computed by the harness; pitch differences kept >= 1 cent from the tolerance.",
            "complete enumeration (keys) / bounded exhaustive enumeration (chord labels, pitch edges) with edge "
            "relations"),
    "C12": (MC, "DESIGN.md §5 C12",
            "weighted_accuracy on all comparison vectors x weight vectors x scalings against an exact closed form; "
            "split edges (every cut of one interval at every interior half-cell point, same label or an equivalent "
            "chord respelling) from every pair of labelled segmentations of the stated bounds for chord.evaluate, "
            "the frame-based segment labelling scores and hierarchy.lmeasure (also with boundaries off the frame "
            "grid, quarter-cell cuts and cuts 2^-11 s next to the other side's boundaries; weight scalings down to "
            "2^-40). Exhaustive within bounds.",
            "Dyadic cut points and frame sizes; respelling alphabet verified encoding-equivalent at start-up.",
            "bounded exhaustive enumeration of states with refinement edges (two-execution relation) + closed form"),
    "C20": (FE, "DESIGN.md §5 C20",
            "About one million rendered annotation files per quick run (rows x delimiter styles x comment "
            "configurations x line endings x StringIO/path/handle) for all ten loaders are loaded and compared "
            "bit-exactly (struct.pack) with an independently built expected structure; pattern files by an explicit "
            "line-level state machine explored to depth 5 (7); every well-formed file x every row x {delete, add, "
            "replace a field, blank row} must raise ValueError naming the row; convention violations must warn.",
            "Star design over field alphabets (one field varies at a time); numbering base of the ragged loader "
            "left open (property says 'naming the row'); extra columns in pattern note lines tolerated.",
            "exhaustive single-fault enumeration over files + bounded exhaustive enumeration of well-formed files "
            "against an independent parser model"),
    "C10": (MC, "DESIGN.md §5 C10",
            "All grammar-derivable chord labels to depth 1 (thorough: depth 2 on 12 root spellings), all strings "
            "up to length 4 (5) over a 24-character alphabet, all single-edit mutants of a 3000-label core, each "
            "under the flag settings, are pushed through validate_chord_label / split / join / encode and compared "
            "with an independent recursive-descent recogniser + encoder; the set-iteration order inside "
            "chord.split/encode is scheduled through all permutations (seam on the name `set`).",
            "Independent model written from Harte's grammar and the module docstring; Harte's mixed modifiers "
            "(C#b) treated as invalid as the library documents.",
            "bounded exhaustive enumeration of strings / derivations against an independent recogniser-encoder "
            "model, plus scheduler enumeration of set-iteration orders"),
    "C11": (MC, "DESIGN.md §5 C11",
            "All pairs of representatives of the model-computed (bitmap, bass) encoding classes (179 quick, 1455 "
            "thorough classes; reference roots C and G#, all 12 estimate roots, N, X) through all 12 comparison "
            "functions; lattice implications, reference-only -1, self-comparison, documented vocabularies from the "
            "model; an abstraction-conformance pass checks that labels of one class are indistinguishable.",
            "Class abstraction is checked, not assumed (79k labels against a panel); the root restriction relies "
            "on C09's joint-transposition check.",
            "explicit-state enumeration of encoding-class pairs with abstraction conformance replay"),
    "C16": (MC, "DESIGN.md §5 C16",
            "Every ordered pair of labelled segmentations (all compositions of 5 (6) cells, restricted-growth labels "
            "over <=3 names, extra lattices for partial last frames, the 0.1 s grid, case-colliding names and 64-100 "
            "frame shapes) x frame sizes x betas is run through the six labelling metrics and compared with "
            "contingency-table formulas in exact rationals / fsum; identities (vmeasure == nce(marginal), MI "
            "symmetric, V harmonic mean, ARI=1 on equal partitions, case-insensitivity) on every state.",
            "Textbook formulas; keys that are 0/0 in the textbook formula are skipped and counted (C01/C02 own them); "
            "model bound to the 10 repository fixtures.",
            "bounded exhaustive enumeration against an independent reference model (conformance)"),
    "C18": (MC, "DESIGN.md §5 C18",
            "Every multipitch state of two frequency families (all subsets per frame, <=2 (3) frames) x every "
            "estimate time-base variant (shifted below / at / above half a hop, fewer / more frames, before, after, "
            "empty) x windows: accounting identities, per-frame true-positive bounds, scores recomputed from counts, "
            "and resample_multipitch against a nearest-stamp model on all small stamp sets.",
            "Pitch distances kept >= 0.0099 semitone from every window (asserted); ties follow interp1d('nearest').",
            "bounded exhaustive enumeration with state invariants and a resampling reference model"),
    "C19": (EX, "DESIGN.md §5 C19",
            "A finite configuration alphabet (api x nsrc x nchan x length x mixing matrix x distortion over a "
            "deterministic signal bank) is enumerated completely: decomposition sum, criteria from the published "
            "definitions, scale invariance edges, permutation optimality by explicit re-evaluation, perfect "
            "estimate, framewise == per-window result, silent windows NaN under two np.empty poisons, arity on "
            "empty inputs for all entry points.",
            "Continuum inputs: coverage is over the stated configuration alphabet only; image SDR/ISR scale "
            "clause restricted as the metric's definition requires.",
            "complete enumeration of a configuration alphabet with algebraic oracles and an environment "
            "(np.empty) seam"),
    "C17": (MC, "DESIGN.md §5 C17",
            "Every pair of small hierarchies (1..3 (4) cells, 1-2 (3) levels, every composition per level, <=2 labels "
            "per level) x window x frame size (incl. one that puts boundaries off the frame grid) x transitive x beta "
            "through tmeasure / lmeasure / evaluate, compared with brute-force O(n^3) triple counting in exact "
            "rationals; parameter-rejection states must raise ValueError; scores in [0,1].",
            "Model bound to the docstring example and the recorded fixtures; documented float frame rounding and "
            "half-open window listed in the assumptions.",
            "bounded exhaustive enumeration against an independent brute-force reference model (conformance)"),
}

NOT_YET = {}


def main():
    props = [json.loads(l) for l in open(os.path.join(VERIF, "properties.jsonl"))]
    checks = []
    na = []
    for p in props:
        pid = p["id"]
        if pid in CHECKS and os.path.exists(os.path.join(VERIF, "props", pid + ".py")):
            cat, ref, text, note, tech = CHECKS[pid]
            checks.append({
                "property_id": pid,
                "quick_cmd": "./check %s --tier quick" % pid,
                "thorough_cmd": "./check %s --tier thorough" % pid,
                "evidence_file": "/verif/evidence/%s.json" % pid,
                "replay_cmd_template": "./check %s --replay {path}" % pid,
                "engine": "mc-explorer",
                "level_claimed": {"category": cat, "text": text, "design_ref": ref},
                "level_note": note,
                "technique": tech,
            })
        else:
            na.append({"property_id": pid,
                       "reason": NOT_YET.get(pid, "check not built yet in this round (planned in DESIGN.md §5); "
                                                  "not claimed until its explorer exists and is silent on the "
                                                  "unchanged tree")})
    man = {
        "version": 1,
        "setup_cmd": "cd /verif && /venv/bin/python -m compileall -q mc props tools >/dev/null && ./check --selftest",
        "hooks": {
            "guard": "MIR_EVAL_VERIF",
            "enable": "no source hooks are needed: every seam (np.empty poison, set order, warnings) is owned "
                      "from the harness side by rebinding names in the imported module namespaces; "
                      "MIR_EVAL_VERIF is reserved and exported by ./check but read by nothing in /repo",
            "baseline_off_cmd": "cd /repo && /venv/bin/python -m pytest -ra -q -p no:cacheprovider --timeout=900 "
                                "--continue-on-collection-errors",
            "source_commits": [],
            "add_only": True,
        },
        "engines": [{
            "name": "mc-explorer",
            "path": "/verif/mc",
            "serves_properties": [c["property_id"] for c in checks],
            "kind_free_text": "hand-written explicit-state, bounded-exhaustive explorer for sequential Python: "
                              "BFS/product enumeration of constructor histories over exact-arithmetic lattices, "
                              "real mir_eval code executed in every state, oracle = invariant / edge relation / "
                              "independent reference model; 16-process fork pool; watchdog; replay files",
        }],
        "checks": checks,
        "not_applicable": na,
        "notes": "See DESIGN.md. exit 0 = held (KNOWN-FINDING lines for listed findings), exit 1 = VIOLATION, "
                 "exit 2 = harness error. VERIF_SEED selects one of 8 fixed lattice phases; nothing is sampled.",
    }
    with open(os.path.join(VERIF, "MANIFEST.json"), "w") as f:
        json.dump(man, f, indent=1)
    print("checks:", [c["property_id"] for c in checks], "not_applicable:", len(na))


if __name__ == "__main__":
    main()
