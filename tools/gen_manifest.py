#!/venv/bin/python
"""Regenerates /verif/MANIFEST.json from the table below (run after adding a check)."""
import json
import os
import sys

VERIF = os.path.dirname(os.path.dirname(os.path.abspath(__file__)))

MC = "model_checking"
FE = "fault_enumeration"
EX = "exploration"

# id -> (category, design_ref, text, note, technique)
CHECKS = {
    "C05": (MC, "DESIGN.md §5 C05",
            "Every bipartite graph up to 4x5 vertices (thorough 5x5) is run through the real Hopcroft-Karp "
            "routine, every event / chroma / note / multipitch-frame set pair of the stated small scope through "
            "the real matchers in every input order; each returned pairing is checked for validity under the "
            "exact predicate and for maximality against a brute-force DP. Exhaustive within the stated bounds.",
            "Small-scope hypothesis; exact dyadic / decimal lattices; pitch differences kept >=1 cent from the "
            "tolerance; brute-force bitmask DP as the reference.",
            "bounded exhaustive explicit-state enumeration of inputs against a brute-force reference model"),
    "C13": (MC, "DESIGN.md §5 C13",
            "All time-ordered interval sequences (<=4, thorough <=5 intervals on a 8/9-point lattice) x every "
            "(t_min,t_max) on the lattice, half-lattice and beyond, all pairs of contiguous segmentations <=7 cells, "
            "all sample grids and all boundary lists of the stated bounds are pushed through the real util "
            "functions and compared cell by cell with a step-function reference model. Exhaustive within bounds.",
            "Small-scope hypothesis; integer/half-integer times (exact); 5-decimal rounding lattice kept away "
            "from rounding ties; reading of 'internal gap' stated in the evidence assumptions.",
            "bounded exhaustive explicit-state enumeration of inputs against a step-function reference model"),
}

NOT_YET = {}


def main():
    props = [json.loads(l) for l in open(os.path.join(VERIF, "properties.jsonl"))]
    checks = []
    na = []
    for p in props:
        pid = p["id"]
        if pid in CHECKS and os.path.exists(os.path.join(VERIF, "props", pid + ".py")):
            cat, ref, text, note, tech = CHECKS[pid]
            checks.append({
                "property_id": pid,
                "quick_cmd": "./check %s --tier quick" % pid,
                "thorough_cmd": "./check %s --tier thorough" % pid,
                "evidence_file": "/verif/evidence/%s.json" % pid,
                "replay_cmd_template": "./check %s --replay {path}" % pid,
                "engine": "mc-explorer",
                "level_claimed": {"category": cat, "text": text, "design_ref": ref},
                "level_note": note,
                "technique": tech,
            })
        else:
            na.append({"property_id": pid,
                       "reason": NOT_YET.get(pid, "check not built yet in this round (planned in DESIGN.md §5); "
                                                  "not claimed until its explorer exists and is silent on the "
                                                  "unchanged tree")})
    man = {
        "version": 1,
        "setup_cmd": "cd /verif && /venv/bin/python -m compileall -q mc props tools >/dev/null && ./check --selftest",
        "hooks": {
            "guard": "MIR_EVAL_VERIF",
            "enable": "no source hooks are needed: every seam (np.empty poison, set order, warnings) is owned "
                      "from the harness side by rebinding names in the imported module namespaces; "
                      "MIR_EVAL_VERIF is reserved and exported by ./check but read by nothing in /repo",
            "baseline_off_cmd": "cd /repo && /venv/bin/python -m pytest -ra -q -p no:cacheprovider --timeout=900 "
                                "--continue-on-collection-errors",
            "source_commits": [],
            "add_only": True,
        },
        "engines": [{
            "name": "mc-explorer",
            "path": "/verif/mc",
            "serves_properties": [c["property_id"] for c in checks],
            "kind_free_text": "hand-written explicit-state, bounded-exhaustive explorer for sequential Python: "
                              "BFS/product enumeration of constructor histories over exact-arithmetic lattices, "
                              "real mir_eval code executed in every state, oracle = invariant / edge relation / "
                              "independent reference model; 16-process fork pool; watchdog; replay files",
        }],
        "checks": checks,
        "not_applicable": na,
        "notes": "See DESIGN.md. exit 0 = held (KNOWN-FINDING lines for listed findings), exit 1 = VIOLATION, "
                 "exit 2 = harness error. VERIF_SEED selects one of 8 fixed lattice phases; nothing is sampled.",
    }
    with open(os.path.join(VERIF, "MANIFEST.json"), "w") as f:
        json.dump(man, f, indent=1)
    print("checks:", [c["property_id"] for c in checks], "not_applicable:", len(na))


if __name__ == "__main__":
    main()
