#!/venv/bin/python
"""Run the repository's pinned baseline (BASELINE.json) in a tree and report which stable tests do not pass.
usage: baseline.py [repo_dir]"""
import json, os, subprocess, sys, tempfile, xml.etree.ElementTree as ET
repo = sys.argv[1] if len(sys.argv) > 1 else "/repo"
base = json.load(open("/root/.vp/BASELINE.json"))
tmp = tempfile.mkdtemp(prefix="baseline_")
jx = os.path.join(tmp, "j.xml")
env = dict(os.environ, PYTHONPATH=repo, COVERAGE_FILE=os.path.join(tmp, ".coverage"))
env.pop("MIR_EVAL_VERIF", None)
r = subprocess.run(["/venv/bin/python", "-m", "pytest", "-ra", "-q", "-p", "no:cacheprovider", "--timeout=900",
                    "--continue-on-collection-errors", "--junitxml=" + jx, "--cov-report=", "-o", "cache_dir=" + tmp],
                   cwd=repo, env=env, capture_output=True, text=True)
passed = set()
for tc in ET.parse(jx).getroot().iter("testcase"):
    if not any(ch.tag in ("failure", "error", "skipped") for ch in tc):
        passed.add("%s::%s" % (tc.get("classname"), tc.get("name")))
missing = [t for t in base["stable_pass"] if t not in passed]
print("stable baseline: %d/%d pass" % (len(base["stable_pass"]) - len(missing), len(base["stable_pass"])))
for m in missing:
    print("  NOT PASSING:", m)
subprocess.run(["rm", "-rf", tmp])
sys.exit(1 if missing else 0)
