#!/venv/bin/python
"""Markdown tables of the seeded-defect and hand-made-mutant results (for DESIGN.md §13.5)."""
import glob, json, os
print("| seed | property | what it breaks / needs (author's words, shortened) | caught by (quick, final tree) | note |")
print("|---|---|---|---|---|")
notes = json.load(open("/verif/seeded/NOTES.json")) if os.path.exists("/verif/seeded/NOTES.json") else {}
for d in sorted(glob.glob("/verif/seeded/[CW]*")):
    m = json.load(open(d + "/meta.json"))
    name = os.path.basename(d)
    runs = m.get("our_runs", {})
    caught = set()
    for k, r in runs.items():
        pass
    last = runs[sorted(runs)[-1]] if runs else {}
    caught = last.get("caught_by", [])
    allc = sorted(set(m.get("caught_by_quick", [])) | set(c for r in runs.values() for c in r.get("caught_by", [])))
    what = (m.get("title") or m.get("what_it_breaks") or "")[:110].replace("|", "/")
    print("| %s | %s | %s | %s | %s |" % (name, m.get("property"), what, ", ".join(allc) or "none", notes.get(name, "")))
print()
if os.path.exists("/verif/mutants/results.json"):
    res = json.load(open("/verif/mutants/results.json"))
    import sys
    sys.path.insert(0, "/verif/mutants")
    import catalogue
    desc = {m[0]: (m[1], m[2].strip().splitlines()[0][:60], m[3].strip().splitlines()[0][:60] if m[3].strip() else "(deleted)") for m in catalogue.M}
    print("| mutant | file | edit (first line) | baseline tests | caught by | silent | ")
    print("|---|---|---|---|---|---|")
    for mid in sorted(res):
        r = res[mid]
        if "checks" not in r:
            continue
        f, o, n = desc.get(mid, ("?", "?", "?"))
        print("| %s | %s | `%s` → `%s` | %s | %s | %s |" % (mid, f.replace("mir_eval/", ""), o.replace("|", "/"), n.replace("|", "/"),
              "pass" if r.get("baseline_ok") else "FAIL", ", ".join(r.get("caught_by", [])) or "none",
              ", ".join(c for c, v in r["checks"].items() if v["exit"] == 0)))

print()
print("| benign change | file | summary (author's words) | observable difference | checks run (quick, seed 0) | alarms |")
print("|---|---|---|---|---|---|")
for g in sorted(glob.glob("/verif/benign/*")):
    rs = sorted(glob.glob(g + "/result_*.json"))
    res = [json.load(open(r)) for r in rs]
    for kj in sorted(glob.glob(g + "/*.json"), key=lambda s: (len(s), s)):
        if os.path.basename(kj).startswith("result_"):
            continue
        k = os.path.basename(kj)[:-5]
        m = json.load(open(kj))
        alarms = []
        nrun = 0
        for r in res:
            single = r.get("attribution", {}).get(k + ".diff", {}).get("checks")
            if single is not None:
                alarms += ["%s(exit %d)" % (c, v["exit"]) for c, v in single.items() if v["exit"] != 0]
            if (k + ".diff") in r.get("stacked", []):
                nrun = max(nrun, len(r.get("checks", {})))
                if not single:
                    pass
        note = notes.get("benign:%s-%s" % (os.path.basename(g), k), "")
        print("| %s-%s | %s | %s | %s | %d | %s |" % (os.path.basename(g), k, str(m.get("file", "")).replace("mir_eval/", ""),
              str(m.get("summary", ""))[:150].replace("|", "/"), str(m.get("observable_difference", ""))[:120].replace("|", "/"),
              nrun, (", ".join(sorted(set(alarms))) + (" - " + note if note else "")) if alarms else "none"))
