#!/venv/bin/python
"""Markdown tables of the seeded-defect and hand-made-mutant results (for DESIGN.md §13.5)."""
import glob, json, os
print("| seed | property | what it breaks / needs (author's words, shortened) | caught by (quick, final tree) | note |")
print("|---|---|---|---|---|")
notes = json.load(open("/verif/seeded/NOTES.json")) if os.path.exists("/verif/seeded/NOTES.json") else {}
for d in sorted(glob.glob("/verif/seeded/C*")):
    m = json.load(open(d + "/meta.json"))
    name = os.path.basename(d)
    runs = m.get("our_runs", {})
    caught = set()
    for k, r in runs.items():
        pass
    last = runs[sorted(runs)[-1]] if runs else {}
    caught = last.get("caught_by", [])
    allc = sorted(set(c for r in runs.values() for c in r.get("caught_by", [])))
    what = (m.get("title") or m.get("what_it_breaks") or "")[:110].replace("|", "/")
    print("| %s | %s | %s | %s | %s |" % (name, m.get("property"), what, ", ".join(allc) or "none", notes.get(name, "")))
print()
if os.path.exists("/verif/mutants/results.json"):
    res = json.load(open("/verif/mutants/results.json"))
    import sys
    sys.path.insert(0, "/verif/mutants")
    import catalogue
    desc = {m[0]: (m[1], m[2].strip().splitlines()[0][:60], m[3].strip().splitlines()[0][:60] if m[3].strip() else "(deleted)") for m in catalogue.M}
    print("| mutant | file | edit (first line) | baseline tests | caught by | silent | ")
    print("|---|---|---|---|---|---|")
    for mid in sorted(res):
        r = res[mid]
        if "checks" not in r:
            continue
        f, o, n = desc.get(mid, ("?", "?", "?"))
        print("| %s | %s | `%s` → `%s` | %s | %s | %s |" % (mid, f.replace("mir_eval/", ""), o.replace("|", "/"), n.replace("|", "/"),
              "pass" if r.get("baseline_ok") else "FAIL", ", ".join(r.get("caught_by", [])) or "none",
              ", ".join(c for c, v in r["checks"].items() if v["exit"] == 0)))
