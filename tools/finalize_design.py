#!/venv/bin/python
"""Regenerate the generated tables of DESIGN.md (between <!-- BEGIN x --> / <!-- END x --> markers)."""
import re, subprocess
p = "/verif/DESIGN.md"
s = open(p).read()
def gen(cmd):
    out = subprocess.run(cmd, capture_output=True, text=True).stdout
    return "\n".join(l for l in out.splitlines() if not l.startswith("WARNING"))
blocks = {"SIZES": gen(["/verif/tools/design_table.py"]), "RESULTS": gen(["/verif/tools/results_table.py"])}
for k, v in blocks.items():
    b, e = "<!-- BEGIN %s -->" % k, "<!-- END %s -->" % k
    if b not in s:
        raise SystemExit("marker %s missing" % k)
    s = s[:s.index(b) + len(b)] + "\n" + v + "\n" + s[s.index(e):]
open(p, "w").write(s)
print("DESIGN.md tables regenerated")
