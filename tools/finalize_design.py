#!/venv/bin/python
"""Regenerate the generated tables of DESIGN.md (between <!-- BEGIN x --> / <!-- END x --> markers)."""
import re, subprocess
p = "/verif/DESIGN.md"
s = open(p).read()
def gen(cmd):
    out = subprocess.run(cmd, capture_output=True, text=True).stdout
    return "\n".join(l for l in out.splitlines() if not l.startswith("WARNING"))
import json
kf = json.load(open("/verif/known_findings.json"))["findings"]
fixed = ["| %s | %s | %s | %s |" % (e["id"], e["property"], e["commit"], e["what"].replace("|", "/")) for e in kf if e["status"] == "fixed"]
opened = ["| %s | %s | %s / %s | %s |" % (e["id"], e["property"], e["site"], e["clause"], e["what"].replace("|", "/")) for e in kf if e["status"] == "open"]
blocks = {"SIZES": gen(["/verif/tools/design_table.py"]), "RESULTS": gen(["/verif/tools/results_table.py"]),
          "FIXED": "| finding | reported by | /repo commit | defect |\n|---|---|---|---|\n" + "\n".join(fixed),
          "OPEN": "| finding | property | site / clause | defect (witness predicate in mc/findings.py) |\n|---|---|---|---|\n" + "\n".join(opened)}
for k, v in blocks.items():
    b, e = "<!-- BEGIN %s -->" % k, "<!-- END %s -->" % k
    if b not in s:
        raise SystemExit("marker %s missing" % k)
    s = s[:s.index(b) + len(b)] + "\n" + v + "\n" + s[s.index(e):]
open(p, "w").write(s)
print("DESIGN.md tables regenerated")
