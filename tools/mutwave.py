#!/venv/bin/python
"""Run the hand-made mutation catalogue (mutants/catalogue.py) through the listed checks; results are merged into
mutants/results.json.  usage: mutwave.py [id ...] [--tier quick]"""
import json, os, subprocess, sys, tempfile
sys.path.insert(0, "/verif/mutants")
import catalogue

def sh(cmd, **kw):
    return subprocess.run(cmd, capture_output=True, text=True, **kw)

def main():
    ids = [a for a in sys.argv[1:] if not a.startswith("--")]
    resf = "/verif/mutants/results.json"
    res = json.load(open(resf)) if os.path.exists(resf) else {}
    head = sh(["git", "-C", "/repo", "rev-parse", "--short", "HEAD"]).stdout.strip()
    for mid, rel, old, new, checks in catalogue.M:
        if ids and mid not in ids:
            continue
        if not checks:
            continue
        wt = tempfile.mkdtemp(prefix="mutw_", dir="/tmp"); os.rmdir(wt)
        sh(["git", "-C", "/repo", "worktree", "add", "--detach", wt, "HEAD"])
        try:
            p = os.path.join(wt, rel); s = open(p).read()
            if s.count(old) != 1:
                print(mid, "pattern occurs %d times - skipped" % s.count(old)); res[mid] = {"error": "pattern count %d" % s.count(old)}; continue
            open(p, "w").write(s.replace(old, new))
            rb = sh(["/verif/tools/baseline.py", wt])
            entry = {"file": rel, "repo_head": head, "baseline_ok": rb.returncode == 0, "checks": {}}
            mod = os.path.basename(rel)[:-3]
            tasks = None if mod == "util" else ",".join(sorted(set([mod, "beat", "onset"])))
            entry["generic_checks_restricted_to_tasks"] = tasks or "all"
            for c in checks:
                if not os.path.exists("/verif/props/%s.py" % c):
                    continue
                env = dict(os.environ, VERIF_REPO=wt)
                if tasks and c in ("C01", "C02", "C04", "C06", "C07", "C08", "C14"):
                    env["VERIF_TASKS"] = tasks          # development aid: only the adapters of the mutated module
                r = sh(["/verif/check", c, "--tier", "quick"], env=env)
                det = [l.strip() for l in r.stderr.splitlines() if l.strip().startswith("violation ")]
                entry["checks"][c] = {"exit": r.returncode, "first": det[0][:300] if det else ""}
            entry["caught_by"] = [c for c, v in entry["checks"].items() if v["exit"] == 1]
            res[mid] = entry
            print(mid, "baseline_ok=%s" % entry["baseline_ok"], "caught_by=%s" % entry["caught_by"],
                  "silent=%s" % [c for c, v in entry["checks"].items() if v["exit"] == 0],
                  "error=%s" % [c for c, v in entry["checks"].items() if v["exit"] not in (0, 1)], flush=True)
            json.dump(res, open(resf, "w"), indent=1, sort_keys=True)
        finally:
            sh(["git", "-C", "/repo", "worktree", "remove", "--force", wt]); sh(["git", "-C", "/repo", "worktree", "prune"])

if __name__ == "__main__":
    main()
